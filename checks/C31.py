"""C31 — flush emits statements in an order that satisfies every constraint (bounded run-time contract check, class P stand-in).

Functions driven (real, from the tree under test): `Session.flush` -> `UOWTransaction.execute` (with `_generate_actions`,
the dependency processors of orm/dependency.py — aggregate path and the per-state "cycle" path —, `topological.sort /
sort_as_subsets`, and `persistence.save_obj / delete_obj / post_update`), on SQLite `:memory:` with `PRAGMA foreign_keys=ON`
(immediate enforcement, `defer_foreign_keys` verified to be 0) and NOT NULL / primary-key (UNIQUE) constraints.

Contract of one flush of an object-graph change whose intended final state satisfies the schema (`requires`; the cases
where it does not — a NOT NULL child left without a parent, a pending delete-orphan orphan, a row cycle that would need
post_update, the far side of a unidirectional relationship deleted while still referenced — are recognised from the
in-memory state before the flush and only then may the flush raise):
  (a) `flush()` returns normally: no IntegrityError (or any other exception);
  (b) ordering, judged on the recorded DML (`before_cursor_execute`, row by row inside an executemany) replayed on a
      shadow copy of the initial rows with immediate foreign-key enforcement: after every single INSERT / UPDATE / DELETE
      no row references a missing row — i.e. a child row is inserted after the row it references, a parent row is deleted
      only after its children were deleted or had their foreign key set to NULL / re-pointed, association rows are
      inserted after both sides and deleted before either side, self-referential rows go parent-first on INSERT and
      child-first on DELETE, and a post_update cycle is closed by an UPDATE after both INSERTs / opened by an UPDATE before
      the DELETEs; no statement touches a row that does not exist at that point;
  (c) the shadow rows after the last statement are exactly the rows then in the database (nothing emitted is lost);
  (d) the database equals the in-memory graph: every persistent object has its rows, every deleted / transient one has none,
      every loaded column attribute equals its column, every loaded relationship (many-to-one target, one-to-many members,
      many-to-many members) is what the foreign-key / association rows say.

Scope: see coverage.scope.
"""
import json
import time

from rtc import h_flush as HF
from rtc import ormharness as H

LEVEL = "exploration"
FN = "orm/unitofwork.py::UOWTransaction.execute"


class _Env(dict):
    def get(self, key, default=None):
        return self[key] if key in self else default

    def __missing__(self, key):
        raise HF.Skip(f"no object {key} in this graph")


def run_seq(w, gi, idxs):
    """one operation sequence on a fresh Session over initial graph gi, then ONE flush -> dict(status=ok/inapplicable/expected_failure/fail, ...)"""
    from sqlalchemy import exc as sa_exc
    from sqlalchemy import select
    from sqlalchemy.orm import Session
    from sqlalchemy.orm import exc as orm_exc
    eng = HF.load_graph(w, gi)
    s = Session(eng, autoflush=False, expire_on_commit=False)
    try:
        env = _Env()
        for prefix, cls in w.classes.items():
            for obj in s.scalars(select(cls).order_by(cls.id)):
                env[f"{prefix}{obj.id}"] = obj
        for k, mk in w.new.items():
            env[k] = mk()
        env["_fk_touched"] = set()
        env["_graph"] = w.graphs[gi]
        for k in idxs:
            try:
                w.ops[k][1](env, s)
            except (ValueError, HF.Skip, sa_exc.InvalidRequestError):
                return dict(status="inapplicable")
        unsat = w.unsat(env, s) or HF.generic_unsat(env, s) or env.get("_contradiction")
        HF._REC["log"] = []
        HF._REC["on"] = True
        err = None
        try:
            s.flush()
        except Exception as e:  # judged below
            err = e
        finally:
            HF._REC["on"] = False
        log = HF._REC["log"]
        shadow, problems, events = HF.replay_statements(w, gi, log)
        if err is not None:
            legit = isinstance(err, (sa_exc.IntegrityError, orm_exc.FlushError, sa_exc.CircularDependencyError))
            if unsat is not None and legit:
                return dict(status="expected_failure", unsat=unsat, error=type(err).__name__, events=events)
            return dict(status="fail", kind="flush-raised:" + type(err).__name__, unsat=unsat, events=events,
                        broken=[f"flush raised {type(err).__name__}: {(str(err).splitlines() or [""])[0][:200]}"] + problems[:4])
        if problems:
            return dict(status="fail", kind="order", events=events, broken=problems, unsat=unsat)
        db = HF.read_db(s.connection(), w.Base.metadata)
        if db != shadow:
            diff = [f"{t}: database {sorted(db[t].values(), key=repr)} != replayed {sorted(shadow[t].values(), key=repr)}" for t in db if db[t] != shadow[t]]
            return dict(status="fail", kind="replayed-rows-differ", events=events, broken=diff, unsat=unsat)
        gv = HF.graph_vs_db(w, env, db) if unsat is None else []     # a contradictory request has no defined graph to compare with
        if gv:
            return dict(status="fail", kind="graph-differs-from-database", events=events, broken=gv, unsat=unsat)
        return dict(status="ok", events=events, unsat=unsat, tables=len({e.split(" ")[1] for e in events}))
    finally:
        s.rollback()
        s.close()


def descriptor(w, gi, idxs, r):
    return dict(world=w.name, graph=gi, initial_rows=w.graphs[gi], ops=[w.opnames[k] for k in idxs], kind=r["kind"], broken=r["broken"], statements=r["events"],
                precondition_false=r.get("unsat"))


# ----------------------------------------------------------------------------------------------- worker
QUICK_LENGTH3 = ("selfref", "post_update", "mutual")     # the mappings whose flushes take the per-state cycle path: length 3 (core catalogue) already in quick


def _worker(job):
    H.quiet()
    t0 = time.time()
    w = HF.world(job["world"])
    gi = job["graph"]
    opidx = job["opidx"]          # the catalogue (indices into w.ops) this job enumerates over
    res = dict(evaluations=0, flushes_judged=0, inapplicable=0, expected_failures=0, unsat_but_flushed=0, failures=[], samples=[], streams=set(),
               per_world={w.name: 0}, worker_s={w.name: 0.0}, empty_flushes=0)
    for seq in H.job_sequences(len(opidx), job):
        idxs = [opidx[i] for i in seq]
        res["evaluations"] += 1
        res["per_world"][w.name] += 1
        try:
            r = run_seq(w, gi, idxs)
        except Exception as e:      # harness problem: report as crash, keep going on a fresh engine
            HF.reset_engine(w)
            res.setdefault("crashes", []).append(f"{w.name}/g{gi}/{[w.opnames[k] for k in idxs]}: {type(e).__name__}: {str(e)[:200]}")
            continue
        st = r["status"]
        if st == "inapplicable":
            res["inapplicable"] += 1
            continue
        res["flushes_judged"] += 1
        if st == "fail":
            res["failures"].append(descriptor(w, gi, idxs, r))
            continue
        if st == "expected_failure":
            res["expected_failures"] += 1
            continue
        if r["unsat"] is not None:
            res["unsat_but_flushed"] += 1
        ev = r["events"]
        if len(ev) >= 2:
            res["streams"].add(hash((w.name, gi, tuple(ev))))
            if len(res["samples"]) < 1 and len(ev) >= 4 and r["tables"] >= 2 and len(idxs) == job["length"]:
                res["samples"].append(dict(world=w.name, graph=gi, ops=[w.opnames[k] for k in idxs], statements=ev))
        elif not ev:
            res["empty_flushes"] += 1
    res["worker_s"][w.name] = time.time() - t0
    # the smallest failure per (kind, first broken sentence shape) of this job
    best = {}
    for f in res["failures"]:
        key = (f["kind"], f["ops"][-1])
        if key not in best or len(f["ops"]) < len(best[key]["ops"]):
            best[key] = f
    res["failure_count"] = len(res["failures"])
    res["failures"] = list(best.values())
    return res


# ----------------------------------------------------------------------------------------------- entry points
def plan(tier):
    """[(world, graph, lengths, 'all' | 'core')]"""
    out = []
    for name in HF.WORLD_NAMES:
        w = HF.world(name)
        for gi in range(len(w.graphs)):
            out.append((name, gi, (1, 2), "all"))
            if tier != "quick" or name in QUICK_LENGTH3:
                out.append((name, gi, (3,), "core"))
    return out


def run(run, tier, seed, args):
    t0 = time.time()
    joblist = []
    sizes = {}
    for name, gi, lengths, which in plan(tier):
        w = HF.world(name)
        opidx = [k for k, n in enumerate(w.opnames) if which == "all" or n in w.core]
        sizes.setdefault(name, {})[which] = len(opidx)
        joblist += H.jobs(len(opidx), lengths, min_jobs=12, world=name, graph=gi, opidx=opidx)
    # the parent process only built mappings to size the catalogues; workers are forked and reuse them (no engine, no connection yet)
    if seed:
        import random
        random.Random(seed).shuffle(joblist)
    import gc
    gc.collect()
    gc.freeze()
    agg = H.Agg()
    for r in H.run_sharded(_worker, joblist):
        agg.add(r)
    for c in agg.get("crashes", [])[:5]:
        run.crashes.append(c)
    report(run, agg.get("failures", []))
    lens = (f"1 and 2 (full catalogue), and 3 (core catalogue) for {list(QUICK_LENGTH3)}" if tier == "quick"
            else "1 and 2 (full catalogue) and 3 (core catalogue) for every mapping")
    run.coverage.update(
        evaluations=agg["evaluations"],
        distinct_nontrivial=len(agg.get("streams", ())),
        rule="every operation sequence of the scope is enumerated once (itertools.product over the world's catalogue) on a fresh Session over the committed "
             "initial rows, followed by ONE flush; sequences with an operation that does not apply (remove of a non-member, object absent from the graph) "
             "are counted as inapplicable and not judged; a judged flush is non-trivial when it emitted at least two row-level INSERT / UPDATE / DELETE "
             "events (so that an order exists); distinct_nontrivial counts DISTINCT (world, initial graph, emitted row-event stream) triples among them",
        samples=pick_samples(agg.get("samples", [])),
        exhaustive=True,
        scope=f"SQLite :memory:, PRAGMA foreign_keys=ON (immediate), autoflush off; mappings: unidirectional one-to-many (nullable FK nullify; NOT NULL FK + 'all, delete-orphan') and "
              f"unidirectional many-to-one; bidirectional one-to-many/many-to-one with nullable FK (no cascade), NOT NULL FK + "
              f"'all, delete-orphan', NOT NULL FK without cascade, NOT NULL FK + ON DELETE CASCADE + passive_deletes; many-to-many through a secondary table "
              f"(composite primary key), bidirectional and unidirectional; two mutually dependent classes WITHOUT post_update (acyclic rows, per-state path over two mappers); self-referential adjacency list (plain and 'all, delete-orphan') whose class also has a unidirectional one-to-many and a "
              f"unidirectional many-to-many to classes outside the cycle; two mutually dependent classes with post_update; joined-table inheritance (emp <- eng, mgr "
              f"with eng.manager_id -> mgr and emp.company_id -> company); two initial graphs (<= 4 rows per table) per mapping; operation catalogues "
              f"(add, delete, set / clear the many-to-one side, append / remove on the collection side, move between parents, remove + delete of the related row, "
              f"set the FK attribute to None, load a relationship first) of sizes {sizes}; ALL sequences of length {lens} per (mapping, initial graph)",
        flushes_judged=agg["flushes_judged"],
        inapplicable_sequences=agg["inapplicable"],
        flushes_expected_to_fail_precondition_false=agg["expected_failures"],
        precondition_false_but_flush_succeeded=agg["unsat_but_flushed"],
        flushes_without_statements=agg["empty_flushes"],
        sequences_per_world=agg["per_world"],
        worker_s_per_world={k: round(v, 1) for k, v in agg["worker_s"].items()},
        contract_failures=agg.get("failure_count", 0),
        enumeration_wall_s=round(time.time() - t0, 1),
    )
    run.assumptions += [
        "SQLite's immediate foreign-key enforcement stands for PostgreSQL / MariaDB; the shadow replay of the recorded statements is the same rule evaluated "
        "independently of SQLite",
        "mutually dependent tables without post_update: transitions whose previous + new row references form a cycle are outside (documented need for post_update)",
        "UNIQUE is present only as primary keys (including the composite key of the association table); swapping unique values between rows is outside",
        "the precondition 'the intended final state satisfies the schema' is decided per mapping from the in-memory state before the flush (see rtc/h_flush.py "
        "`unsat`); such flushes may raise IntegrityError / FlushError / CircularDependencyError and are not judged further",
        "autoflush is off so that a whole operation sequence reaches one flush; objects are loaded by primary key first, relationships lazily",
        "bounded: longer sequences, larger graphs, composite foreign keys, other cascades / loader strategies are not covered",
    ]


def pick_samples(samples, per=1):
    out, cnt = [], {}
    for smp in sorted(samples, key=lambda x: (-len(x["statements"]), json.dumps(x, sort_keys=True, default=repr))):
        if cnt.get(smp["world"], 0) < per:
            cnt[smp["world"]] = cnt.get(smp["world"], 0) + 1
            out.append(smp)
    return out


def report(run, failures):
    seen = set()
    for d in sorted(failures, key=lambda d: (len(d["ops"]), len(d["statements"]), json.dumps(d, sort_keys=True, default=repr))):
        fn = FN + "/" + d["world"]
        k = run.match_known(function=fn, input=json.dumps(d, sort_keys=True, default=repr))
        if k is not None:
            run.known_finding(k, "bounded replay on the real functions")
            continue
        cls = (d["world"], d["kind"], d["ops"][-1])
        if cls in seen or len([c for c in seen if c[0] == d["world"]]) >= 3 or len(seen) >= 12:
            continue
        seen.add(cls)
        run.violation(f"{d['world']}-g{d['graph']}-" + "--".join(d["ops"]),
                      dict(function=fn, input=d, expected="flush succeeds; every emitted statement leaves all foreign keys satisfied; database equals the object graph",
                           actual=d["broken"], reason="bounded run-time contract check"))


REPLAY_ATTEMPTS = 40


def replay(data):
    H.quiet()
    d = data["input"]
    w = HF.world(d["world"])
    idxs = [w.opnames.index(n) for n in d["ops"]]
    # the order among actions that the unit of work leaves unordered depends on object addresses: repeat the case
    for attempt in range(1, REPLAY_ATTEMPTS + 1):
        r = run_seq(w, d["graph"], idxs)
        if r["status"] == "fail":
            break
    if r["status"] == "fail":
        print(f"REPLAY-FAILS {FN}/{w.name} (attempt {attempt} of {REPLAY_ATTEMPTS}) graph={d['graph']} ops={d['ops']} kind={r['kind']} broken={r['broken']} statements={r['events']}")
        return 1
    print(f"REPLAY-PASSES {FN}/{w.name} ({REPLAY_ATTEMPTS} attempts) graph={d['graph']} ops={d['ops']} status={r['status']} statements={r.get('events')}")
    return 0
