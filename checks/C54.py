"""C54 — utility collections conform to their reference models: OrderedSet / unique_list (and more) under proof,
everything (pure and compiled builds) under the bounded complement."""
import importlib
import contracts.orderedset  # noqa: F401
import contracts.identityset  # noqa: F401
import contracts.lrucache  # noqa: F401
import contracts.immutabledict  # noqa: F401
from pyvc.contract import FUNCS
from vlib.proof import run_proofs, check_lemmas
from vlib.bounded import run_bounded

LEVEL = "proof"
KEYS = [k for k, c in FUNCS.items() if "C54" in c.props and c.proof and not c.abstract]


def run(run, tier, seed, args):
    run_proofs(run, KEYS, tier, update_baseline=args.update_baseline, source_root=args.source_root)
    check_lemmas(run, tier)
    if not args.source_root:
        run_bounded(run, [k for k in KEYS if FUNCS[k].harness], tier)
        try:
            m = importlib.import_module("checks.C54_bounded")
        except ModuleNotFoundError:
            m = None
        if m is not None:
            m.bounded(run, tier, seed)
    run.assumptions += [
        "proofs are about the pure-Python source text of util/_collections_cy.py (what every pure-Python install runs); the prebuilt .so cannot be regenerated here (no Cython) and is covered by the bounded complement only while fresh",
        "members compare by value identity of the modelled value (hash/eq of user objects not modelled); set iteration order is an arbitrary duplicate-free enumeration",
        "argument kinds are a case split (list with duplicates / set), *args of arity 1 (update: also 2); one-shot iterators are covered by the bounded complement only",
        "inductive facts used as axioms (filt_cong, addall_cat, filt_snoc, cat_snoc): listed in lemmas/README.md with their Lean status",
    ]
