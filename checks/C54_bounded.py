"""C54 — bounded complement (run-time contracts, NOT proof) for the utility collections.

``bounded(run, tier, seed)`` evaluates the contracts of DESIGN Appendix B.1 / B.2 (stated in full in the docstring of
``rtc/coll_contracts.py``) on the *real* classes:

* ``OrderedSet``, ``IdentitySet``, ``unique_list``  (util/_collections_cy.py)  — on the ``.py`` loaded through an explicit
  source loader (always) **and** on the compiled extension if one is present and *fresh* (DESIGN §2.5; a stale or absent
  ``.so`` is reported as "not evaluated", never as a violation);
* ``immutabledict``, ``ImmutableDictBase``          (util/_immutabledict_cy.py) — same two builds;
* ``LRUCache``, ``merge_lists_w_ordering``, ``has_dupes`` (util/_collections.py, plain Python).

Contract in one line per class: OrderedSet = set semantics with first-insertion order + rep invariant (no duplicates in
the list view, set part == list members); IdentitySet = ordered set of object identities, in-place operators return self
with the updated view; immutabledict = union is the left-to-right merge, every dict mutator raises TypeError and leaves
the mapping unchanged; LRUCache = only values stored under the requested key, size <= capacity*(1+threshold), the
``capacity`` most recently used entries survive a prune; unique_list = first occurrences; merge_lists_w_ordering =
permutation of the union keeping the orders of both lists where they are compatible.

It appends exactly one block to ``run.coverage["bounded"]`` and reports failures through ``run`` like a check does.
"""
import importlib
import json

from rtc import coll_contracts as CC
from rtc import cymods

COLL = "sqlalchemy.util._collections_cy"
IMD = "sqlalchemy.util._immutabledict_cy"


def builds():
    """-> list of (impl label, collections module, immutabledict module), dict of freshness reports"""
    out = [("pure", cymods.load_pure(COLL), cymods.load_pure(IMD))]
    fresh = {m: cymods.freshness(m) for m in (COLL, IMD)}
    cm, im = importlib.import_module(COLL), importlib.import_module(IMD)
    cmod = cm if cm._is_compiled() and fresh[COLL]["status"] == "fresh" else None
    imod = im if im._is_compiled() and fresh[IMD]["status"] == "fresh" else None
    if cmod is not None or imod is not None:
        out.append(("compiled", cmod, imod))
    return out, fresh


def classes_for(impl):
    bl, _ = builds()
    util = importlib.import_module("sqlalchemy.util._collections")
    for label, cmod, imod in bl:
        if label == impl:
            return dict(collections=cmod, immutabledict=imod, util=util)
    return None


def run_suites(tier, collect_outcomes=False):
    bl, fresh = builds()
    util = importlib.import_module("sqlalchemy.util._collections")
    results = []
    for label, cmod, imod in bl:
        if cmod is not None:
            results.append((label, CC.check_orderedset(cmod.OrderedSet, tier, label, collect_outcomes)))
            results.append((label, CC.check_identityset(cmod.IdentitySet, tier, label, collect_outcomes)))
            results.append((label, CC.check_unique_list(cmod.unique_list, tier, label, collect_outcomes)))
        if imod is not None:
            results.append((label, CC.check_immutabledict(imod, tier, label, collect_outcomes)))
    results.append(("python", CC.check_lrucache(util.LRUCache, tier, collect_outcomes)))
    results.append(("python", CC.check_merge_lists(util.merge_lists_w_ordering, tier, collect_outcomes)))
    results.append(("python", CC.check_has_dupes(util.has_dupes, tier, collect_outcomes)))
    return results, fresh, bl


def report(run, fails):
    """known findings (only those that still fail) / one replay per (function, clause, impl) otherwise"""
    known, new = {}, {}
    for impl, f in fails:
        ij = json.dumps(f.input, sort_keys=True, default=repr)
        k = run.match_known(function=f.function, clause=f.clause, input=ij, impl=impl)
        if k is not None:
            known.setdefault(k["what"], [k, 0, f, set()])
            known[k["what"]][1] += 1
            known[k["what"]][3].add(impl)
        else:
            new.setdefault((f.function, f.clause, impl), []).append(f)
    for what, (k, cnt, f, impls) in known.items():
        op = f.input.get("op")
        run.known_finding(k, f"bounded: {cnt} failing cases on {'+'.join(sorted(impls))}, e.g. {f.function} path={f.input.get('path', f.input.get('base'))} op={op}: {f.detail[:160]}")
    for (function, clause, impl), lst in sorted(new.items()):
        f = min(lst, key=lambda x: len(json.dumps(x.input, default=repr)))
        run.violation(f"{function}-{clause}-{impl}-bounded",
                      dict(function=function, clause=clause, impl=impl, input=f.input, detail=f.detail, failing_inputs_in_this_class=len(lst),
                           reason="bounded run-time contract check on the real class (C54_bounded)"))


def bounded(run, tier, seed):
    import sqlalchemy
    try:
        results, fresh, bl = run_suites(tier)
    except Exception as e:      # noqa: BLE001
        run.crashes.append(f"C54_bounded harness: {type(e).__name__}: {e}")
        return
    evaluations = sum(r.evaluations for _l, r in results)
    nontrivial = sum(r.nontrivial for _l, r in results)
    compiled = {}
    for m, f in fresh.items():
        ran = any(lbl == "compiled" and ((m == COLL and c is not None) or (m == IMD and i is not None)) for lbl, c, i in bl)
        compiled[m] = dict(status=f["status"], detail=f["detail"], evaluated=ran)
    block = dict(
        label="bounded (not proof)", exhaustive=True,
        scope="; ".join(f"[{lbl}] {r.name}: {r.scope}" for lbl, r in results if lbl != "compiled")
              + "; the OrderedSet / IdentitySet / unique_list / immutabledict scopes repeated on the compiled extension when it is present and fresh",
        evaluations=evaluations, distinct_nontrivial=nontrivial,
        rule="every (reachable state, operation) pair / argument tuple of the stated finite scope is enumerated once (distinct by construction); "
             "non-trivial = the call raised, changed the view, or returned a non-empty / true result (LRUCache: distinct eviction shapes; "
             "merge_lists: both lists have private and common elements; unique_list: the input had repeats; has_dupes: the answer is True)",
        samples=[s for _l, r in results for s in r.samples][:10],
        suites=[dict(r.summary(), impl=lbl) for lbl, r in results],
        compiled_extension=compiled, sqlalchemy=sqlalchemy.__file__,
        contract_failures=sum(len(r.fails) for _l, r in results))
    run.coverage.setdefault("bounded", []).append(block)
    for lbl, r in results:
        if r.evaluations == 0:
            run.crashes.append(f"C54_bounded vacuity guard: suite {r.name} [{lbl}] evaluated nothing")
    if "C54 bounded: compiled side" not in " ".join(run.assumptions):
        for m, c in compiled.items():
            if not c["evaluated"]:
                run.assumptions.append(f"C54 bounded: compiled side of {m} not evaluated ({c['status']}: {c['detail']}); the bounded claim is about the .py source only")
    report(run, [(lbl, f) for lbl, r in results for f in r.fails])


def replay(data):
    """./vcheck C54 --replay <file> for a replay written by this module (data['reason'] mentions C54_bounded)"""
    impl = data.get("impl", "pure")
    classes = classes_for(impl if impl != "python" else "pure")
    if classes is None or (impl == "compiled" and classes["collections"] is None and classes["immutabledict"] is None):
        print(f"REPLAY-NOT-EVALUATED {data.get('function')} impl={impl}: that build is absent or stale in this tree")
        return 2
    fails = CC.replay(data["function"], data.get("clause"), data["input"], classes)
    hit = [f for f in fails if f.clause == data.get("clause")] or fails
    if hit:
        print(f"REPLAY-FAILS {data['function']} impl={impl} clause={hit[0].clause} input={json.dumps(data['input'])} :: {hit[0].detail}")
        return 1
    print(f"REPLAY-PASSES {data['function']} impl={impl} input={json.dumps(data['input'])}")
    return 0
