"""C52 bounded complement — real `scoped_session` objects driven from real threads (labelled bounded, never counted as proof).

The proof part covers the registry containers one call at a time.  Here the scope dimension the contracts cannot reach is
exercised on the running code: *which* threads count as different scopes.

  S1  sequential short-lived threads (each started and joined before the next; the OS normally recycles the thread id):
      every thread is a new scope -> its first `registry()` yields a Session no earlier thread was given, and `has()` is
      False before that first call.  n threads for n in the tier's range, with and without `remove()` at thread end.
  S2  k concurrently live threads stepped by a deterministic schedule (every interleaving of a small per-thread script
      `call, call, remove, call` up to the tier's bound): within a thread repeated calls give the same Session until
      `remove()`, a Session is never handed to two live threads, `remove()` closes exactly the caller's Session (close count
      of every other Session unchanged) and the next call in that thread creates a new one.
  S3  the same with `scopefunc` = a function of the running thread's *name token* mapping two threads onto one scope key:
      threads sharing a key share the Session, different keys differ.
Sessions are plain objects with a `close()` counter produced by the factory given to `scoped_session`; for S1 the real
`sessionmaker()` is used as well.
"""
import itertools
import threading
import time

FN = "orm/scoping.py::scoped_session"


class _S:
    n = 0
    _is_asyncio = False      # scoped_session.__call__ reads it

    def __init__(self):
        _S.n += 1
        self.serial = _S.n
        self.closed = 0
        self.owner = threading.current_thread().name

    def close(self):
        self.closed += 1


def s1(nthreads, do_remove, real):
    from sqlalchemy.orm import scoped_session, sessionmaker
    reg = scoped_session(sessionmaker() if real else _S)
    got, had, idents = [], [], []

    def work():
        idents.append(threading.get_ident())
        had.append(reg.registry.has())
        s = reg()
        got.append(s)
        if reg() is not s:
            got.append("second call differs")
        if do_remove:
            reg.remove()
    for i in range(nthreads):
        t = threading.Thread(target=work, name=f"w{i}")
        t.start()
        t.join()
    bad = []
    if any(had):
        bad.append(f"has() was True at the start of thread(s) {[i for i, h in enumerate(had) if h]}")
    if any(isinstance(g, str) for g in got):
        bad.append("second call in one thread returned another Session")
    objs = [g for g in got if not isinstance(g, str)]
    for i, j in itertools.combinations(range(len(objs)), 2):
        if objs[i] is objs[j]:
            bad.append(f"threads w{i} and w{j} (sequential, different scopes) were handed the same Session")
            break
    return bad, len(set(idents)) < len(idents)


SCRIPT = ["call", "call", "remove", "call"]


def s23(schedule, nthreads, keyfn):
    """deterministic schedule: list of thread indices; each entry lets that thread do its next script step"""
    from sqlalchemy.orm import scoped_session
    names = [f"t{i}" for i in range(nthreads)]
    if keyfn is None:
        reg = scoped_session(_S)
        key = {n: n for n in names}
    else:
        key = {n: keyfn(i) for i, n in enumerate(names)}
        reg = scoped_session(_S, scopefunc=lambda: key[threading.current_thread().name])
    turn = [threading.Semaphore(0) for _ in names]
    done = threading.Semaphore(0)
    log = []   # (thread, step, session or None)
    err = []

    def work(i):
        for step in SCRIPT:
            turn[i].acquire()
            try:
                if step == "call":
                    log.append((names[i], "call", reg()))
                else:
                    cur = reg.registry() if reg.registry.has() else None
                    reg.remove()
                    log.append((names[i], "remove", cur))
            except BaseException as e:   # noqa
                err.append(f"{names[i]} {step}: {type(e).__name__}: {e}")
            done.release()
    ths = [threading.Thread(target=work, args=(i,), name=names[i]) for i in range(nthreads)]
    for t in ths:
        t.start()
    for i in schedule:
        turn[i].release()
        done.acquire()
    for t in ths:
        t.join()
    bad = list(err)
    cur = {}          # scope key -> current session
    closes = {}       # id(session) -> expected close count
    allsess = {}
    for (tn, step, s) in log:
        k = key[tn]
        if step == "call":
            allsess[id(s)] = s
            if k in cur:
                if cur[k] is not s:
                    bad.append(f"{tn}: repeated call in scope {k!r} returned a different Session")
            else:
                for k2, s2 in cur.items():
                    if s2 is s:
                        bad.append(f"{tn}: scope {k!r} was handed the Session of scope {k2!r}")
                if id(s) in closes and closes[id(s)] > 0:
                    bad.append(f"{tn}: scope {k!r} was handed a Session that was removed before")
                cur[k] = s
                closes.setdefault(id(s), 0)
        else:
            if k in cur:
                if s is not cur[k]:
                    bad.append(f"{tn}: remove() saw another Session than the scope's current one")
                closes[id(cur[k])] += 1
                del cur[k]
    for i, s in allsess.items():
        if s.closed != closes.get(i, 0):
            bad.append(f"Session #{s.serial} of {s.owner}: close() called {s.closed} times, expected {closes.get(i, 0)} (remove() must close only the current scope's Session)")
    return bad


def schedules(nthreads, limit):
    steps = len(SCRIPT)
    base = [i for i in range(nthreads) for _ in range(steps)]
    seen = 0
    for p in _distinct_perms(base):
        yield p
        seen += 1
        if limit and seen >= limit:
            return


def _distinct_perms(items):
    items = sorted(items)
    n = len(items)
    while True:
        yield list(items)
        i = n - 2
        while i >= 0 and items[i] >= items[i + 1]:
            i -= 1
        if i < 0:
            return
        j = n - 1
        while items[j] <= items[i]:
            j -= 1
        items[i], items[j] = items[j], items[i]
        items[i + 1:] = reversed(items[i + 1:])


def cases(tier):
    ns = [2, 3, 8] if tier == "quick" else [2, 3, 8, 40]
    for n in ns:
        for rm in (False, True):
            for real in (False, True):
                yield dict(kind="S1", n=n, remove=rm, real=real)
    # 2 threads x 4 steps: 70 interleavings (all); 3 threads x 4 steps: 34650 (thorough: all, quick: first 600)
    for sch in schedules(2, None):
        yield dict(kind="S2", n=2, schedule=sch)
        yield dict(kind="S3", n=2, schedule=sch, keys=[0, 0])
        yield dict(kind="S3", n=2, schedule=sch, keys=[0, 1])
    for sch in schedules(3, 600 if tier == "quick" else 6000):
        yield dict(kind="S2", n=3, schedule=sch)
        yield dict(kind="S3", n=3, schedule=sch, keys=[0, 1, 0])


def run_case(c):
    if c["kind"] == "S1":
        bad, reused = s1(c["n"], c["remove"], c["real"])
        return bad, reused
    keys = c.get("keys")
    return s23(c["schedule"], c["n"], (lambda i: ("k", keys[i])) if keys else None), False


def bounded(run, tier, seed):
    t0 = time.time()
    n = 0
    fails = 0
    reuse = 0
    seen = set()
    for c in cases(tier):
        bad, reused = run_case(c)
        n += 1
        reuse += bool(reused)
        if bad:
            fails += 1
            cls = (c["kind"], bad[0].split(":")[-1][:40])
            if cls in seen or len(seen) >= 4:
                continue
            seen.add(cls)
            run.violation(f"scoped_session-{c['kind']}-{n}", dict(function=FN, input=c, expected="one Session per scope; remove() closes and discards only the caller's",
                                                                  actual=bad[:4], reason="bounded run-time check on real threads (C52_bounded)", bounded_module="C52_bounded"))
    blk = dict(scope="real scoped_session; S1: 2..8 (thorough ..40) sequential short-lived threads, with/without remove(), plain and sessionmaker() factories; "
                     "S2/S3: every interleaving of the script call,call,remove,call over 2 threads (70), the first 600 (thorough 6000) in lexicographic order over 3 threads; "
                     "thread scope and scopefunc scope with shared/distinct keys",
               evaluations=n, contract_failures=fails, s1_runs_with_recycled_thread_ident=reuse, exhaustive=False, label="bounded (not proof)",
               wall_s=round(time.time() - t0, 1))
    run.coverage.setdefault("bounded", []).append(blk)
    return blk


def replay(data):
    bad, _ = run_case(data["input"])
    if bad:
        print(f"REPLAY-FAILS {FN} {data['input'].get('kind')} {bad[:2]}")
        return 1
    print(f"REPLAY-PASSES {FN}")
    return 0
