"""C24 — bounded complement (run-time contracts over the fake DBAPI, NOT proof): pooled connections carry no state from a
previous checkout.

``bounded(run, tier, seed)`` drives a REAL ``Engine`` (``create_engine`` over the fake driver of rtc/fakedbapi.py, which tracks
``txn_open``, isolation level and autocommit per DBAPI connection) with ``QueuePool(2, max_overflow=1)``, ``NullPool``,
``StaticPool``, ``SingletonThreadPool`` × ``pool_reset_on_return`` ∈ {rollback, commit, None}.  A history starts with one open
``Connection`` and applies operations to the most recently opened live one:

  co     ``engine.connect()`` (a second holder; QueuePool / NullPool only — the one-connection pools share by design)
  ex     execute an INSERT (autobegin; the driver opens a transaction)      raw   use the DBAPI connection directly
  begin / commit / rollback                                                  err   execute a statement the server rejects
  iso    ``execution_options(isolation_level="SERIALIZABLE")``             ac    ``execution_options(isolation_level="AUTOCOMMIT")``
  inv    ``Connection.invalidate()``         close  ``Connection.close()``   gc    drop the last reference + ``gc.collect()``

Scope (2), "option histories" (same runner, same clauses, the driver's dialect additionally has a dialect-specific connection
characteristic ``fakeverif_readonly`` shaped like ``postgresql_readonly`` — rtc/fakedbapi.py::FakeDialectRO): the first holder
connects through an ENGINE FACADE ``engine.execution_options(**E)`` with engine-level options E ∈ FACADES (none / logging_token
/ isolation_level / fakeverif_readonly / AUTOCOMMIT + logging_token; the facade shares the pool), then every history over OPS2:

  tok    ``execution_options(logging_token="job")``      ro   ``execution_options(fakeverif_readonly=True)``
  ac+tok ``execution_options(isolation_level="AUTOCOMMIT", logging_token="job")``  (several characteristics in ONE call)
  co / ex / rollback / iso / ac / inv / close / gc as above  (co: a second holder through the plain engine)

i.e. every order and repetition of connection-level execution options — each connection characteristic of the dialect alone,
several in one call, several calls in a row, on top of engine-level ones — x every way of giving the connection back.
The re-checkouts after the history always go through the plain engine.

Contract = ``ensures`` of ``Engine.connect()`` / ``Pool.connect()``, evaluated on the ghost ledger at EVERY checkout inside
the history and, after the history released every holder (close), at as many simultaneous re-checkouts as the pool has slots:

  H1  the DBAPI connection handed out is open (not ledger-closed)
  H2  it has no open transaction / uncommitted work                  — unless pool_reset_on_return=None
  H3  its isolation level is the default and autocommit is off       — whatever reset_on_return is: the isolation_level
      execution option is documented to be restored when the connection is returned to the pool
      (a checkout through an engine facade has exactly the facade's characteristics instead of the defaults); in scope (2)
      also: the driver-level read-only flag set by the ``fakeverif_readonly`` execution option is off
  H4  no DBAPI call reached a closed connection
  H5  the Connection handed out carries no connection-level execution option of an earlier user: its ``logging_token``
      is the engine's (none for the plain engine)

It appends exactly one block to ``run.coverage["bounded"]`` and reports failures through ``run``.
"""
import gc
import json

from rtc import fakedbapi as F
from rtc.shard import default_procs, shard_map

FUNCTION = "sqlalchemy.pool.base._ConnectionFairy._reset/_finalize_fairy/_ConnectionRecord.checkin + Connection.close"
OPS = ["co", "ex", "raw", "begin", "commit", "rollback", "err", "iso", "ac", "inv", "close", "gc"]
POOLS = ["queue", "null", "static", "singleton"]
RESETS = ["rollback", "commit", None]
CONFIGS = [dict(name=f"{p}/reset={r}", pool=p, reset=r) for p in POOLS for r in RESETS]
OPS2 = ["co", "ex", "rollback", "iso", "ac", "tok", "ro", "ac+tok", "inv", "close", "gc"]
OPTION_OPS = ("iso", "ac", "tok", "ro", "ac+tok")
FACADES = {"plain": None, "tok": dict(logging_token="w"), "iso": dict(isolation_level="SERIALIZABLE"),
           "ro": dict(fakeverif_readonly=True), "ac+tok": dict(isolation_level="AUTOCOMMIT", logging_token="w")}


class Fail(Exception):
    def __init__(self, clause, detail):
        self.clause, self.detail = clause, detail


def make_engine(cfg, L, ro=False):
    from sqlalchemy import pool as sapool
    kw = dict(pool_reset_on_return=cfg["reset"])
    mk = F.make_engine_ro if ro else F.make_engine
    if cfg["pool"] == "queue":
        return mk(L, poolclass=sapool.QueuePool, pool_size=2, max_overflow=1, pool_timeout=0, **kw)
    cls = dict(null=sapool.NullPool, static=sapool.StaticPool, singleton=sapool.SingletonThreadPool)[cfg["pool"]]
    return mk(L, poolclass=cls, **kw)


def run_history(cfg, ops, trace=False, facade=None):
    """facade=None: scope (1) (FakeDialect, first holder through the plain engine); facade=<key of FACADES>: scope (2)"""
    L = F.Ledger(trace=trace)
    F.install_clock(L.clock)
    e = make_engine(cfg, L, ro=facade is not None)
    fopts = FACADES[facade] if facade is not None else None
    e_first = e.execution_options(**fopts) if fopts else e
    shared = cfg["pool"] in ("static", "singleton")
    maxlive = 1 if shared else 2
    slots = dict(queue=3, null=2, static=1, singleton=1)[cfg["pool"]]
    conns = []
    steps = []
    failure = None
    na = False
    stats = dict(checkouts=0, dirty_returns=0, option_calls=0, max_option_calls_one_checkout=0)
    at = dict(op=None)
    ocount = []          # option-setting calls made on each live Connection (parallel to conns)

    def check(conn, where, opts):
        dc = conn.connection.dbapi_connection
        opts = opts or {}
        lvl = opts.get("isolation_level")
        want_ac = lvl == "AUTOCOMMIT"
        want_iso = F.DEFAULT_ISOLATION if lvl in (None, "AUTOCOMMIT") else lvl
        want_ro = bool(opts.get("fakeverif_readonly"))
        stats["checkouts"] += 1
        if dc.closed:
            raise Fail("H1-handed-out-closed", f"{where}: {dc!r} is ledger-closed")
        if cfg["reset"] is not None and dc.txn_open:
            raise Fail("H2-handed-out-in-transaction", f"{where}: {dc!r} still has the previous holder's transaction open")
        if dc.isolation != want_iso or dc.autocommit != want_ac:
            raise Fail("H3-handed-out-with-isolation", f"{where}: {dc!r} isolation={dc.isolation} autocommit={dc.autocommit}"
                       + (f" (engine-level options {opts})" if opts else ""))
        if dc.readonly != want_ro:
            raise Fail("H3-handed-out-read-only", f"{where}: {dc!r} readonly={dc.readonly}" + (f" (engine-level options {opts})" if opts else ""))
        if L.use_after_close:
            raise Fail("H4-call-on-closed-connection", f"{where}: {L.use_after_close}")
        tok = conn.get_execution_options().get("logging_token")
        if tok != opts.get("logging_token"):
            raise Fail("H5-handed-out-with-execution-option", f"{where}: logging_token={tok!r}, the engine's is {opts.get('logging_token')!r}")

    def connect(where, first=False):
        conns.append((e_first if first else e).connect())
        ocount.append(0)
        check(conns[-1], where, fopts if first else None)

    def dirty():
        return any((c.txn_open or c.autocommit or c.isolation != F.DEFAULT_ISOLATION or c.readonly) for c in L.open)

    try:
        connect("initial connect", first=True)
        for i, op in enumerate(ops):
            at["op"] = op
            err = None
            if op == "co":
                if len(conns) >= maxlive:
                    na = True
                    break
                connect(f"step {i} co")
            else:
                if not conns:
                    na = True
                    break
                if op in ("close", "gc") and dirty():
                    stats["dirty_returns"] += 1
                if op in OPTION_OPS:
                    stats["option_calls"] += 1
                    ocount[-1] += 1
                    stats["max_option_calls_one_checkout"] = max(stats["max_option_calls_one_checkout"], ocount[-1])
                try:
                    c = conns[-1]
                    if op == "ex":
                        c.exec_driver_sql("insert into t values (1)")
                    elif op == "raw":
                        c.connection.cursor().execute("insert into t values (2)")
                    elif op == "begin":
                        c.begin()
                    elif op == "commit":
                        c.commit()
                    elif op == "rollback":
                        c.rollback()
                    elif op == "err":
                        c.exec_driver_sql("RAISE rejected")
                    elif op == "iso":
                        c.execution_options(isolation_level="SERIALIZABLE")
                    elif op == "ac":
                        c.execution_options(isolation_level="AUTOCOMMIT")
                    elif op == "tok":
                        c.execution_options(logging_token="job")
                    elif op == "ro":
                        c.execution_options(fakeverif_readonly=True)
                    elif op == "ac+tok":
                        c.execution_options(isolation_level="AUTOCOMMIT", logging_token="job")
                    elif op == "inv":
                        c.invalidate()
                    elif op == "close":
                        del c
                        ocount.pop()
                        conns.pop().close()
                    elif op == "gc":
                        del c
                        ocount.pop()
                        conns.pop()
                        gc.collect()
                    c = None
                except BaseException as ex:  # noqa — classified here, not kept
                    err = type(ex).__name__
                    c = None
            if trace:
                steps.append(dict(op=op, raised=err, ledger=[(repr(d), "closed" if d.closed else "open", dict(
                    txn_open=d.txn_open, isolation=d.isolation, autocommit=d.autocommit, readonly=d.readonly)) for d in L.conns]))
        if not na:
            at["op"] = "release-all"
            while conns:
                if dirty():
                    stats["dirty_returns"] += 1
                try:
                    conns.pop().close()
                except BaseException:  # noqa
                    pass
            gc.collect()
            at["op"] = "re-checkout"
            for j in range(slots):
                connect(f"re-checkout {j + 1} of {slots} after the history")
                if shared:
                    conns.pop().close()
            if trace:
                steps.append(dict(op="re-checkout", held=[repr(c.connection.dbapi_connection) for c in conns],
                                  ledger=[(repr(d), "closed" if d.closed else "open", dict(
                                      txn_open=d.txn_open, isolation=d.isolation, autocommit=d.autocommit, readonly=d.readonly)) for d in L.conns]))
    except Fail as fl:
        failure = dict(clause=fl.clause, detail=fl.detail, at_op=at["op"])
    finally:
        while conns:
            try:
                conns.pop().close()
            except BaseException:  # noqa
                pass
        e.dispose()
        F.install_clock(None)
    return dict(failure=failure, na=na, steps=steps, checkouts=stats["checkouts"], dirty_returns=stats["dirty_returns"],
                option_calls=stats["option_calls"], max_option_calls_one_checkout=stats["max_option_calls_one_checkout"])


def histories(maxlen, alphabet=None):
    alphabet = alphabet or OPS

    def ok(prefix, op):
        live = 1 + sum(1 for o in prefix if o == "co") - sum(1 for o in prefix if o in ("close", "gc"))
        if op == "co":
            return live < 2
        return live > 0

    def rec(prefix):
        yield prefix
        if len(prefix) == maxlen:
            return
        for op in alphabet:
            if ok(prefix, op):
                yield from rec(prefix + (op,))
    yield from rec(())


def cases(maxlen, maxlen2):
    """(facade | None, ops): scope (1) then scope (2)"""
    for ops in histories(maxlen):
        yield None, ops
    for ops in histories(maxlen2, OPS2):
        for fac in FACADES:
            yield fac, ops


def worker(shard, nshards, maxlen, maxlen2=0):
    F.quiet()
    gc.collect()
    gc.freeze()
    out = dict(runs=0, evaluated=0, na=0, nontrivial=0, checkouts=0, failures=[], samples=[],
               option_histories=0, option_nontrivial=0, option_multi_call=0, option_engine_level=0)
    idx = 0
    for fac, ops in cases(maxlen, maxlen2):
        for cfg in CONFIGS:
            idx += 1
            if idx % nshards != shard:
                continue
            out["runs"] += 1
            r = run_history(cfg, ops, facade=fac)
            if r["na"]:
                out["na"] += 1
                continue
            out["evaluated"] += 1
            out["checkouts"] += r["checkouts"]
            if r["dirty_returns"]:
                out["nontrivial"] += 1
            if fac is not None:
                out["option_histories"] += 1
                if r["dirty_returns"]:
                    out["option_nontrivial"] += 1
                if r["max_option_calls_one_checkout"] >= 2:
                    out["option_multi_call"] += 1
                if fac != "plain":
                    out["option_engine_level"] += 1
            if r["failure"]:
                d = dict(config=cfg["name"], ops=list(ops), **r["failure"])
                if fac is not None:
                    d["engine_options"] = fac
                out["failures"].append(d)
            elif r["dirty_returns"] and len(ops) == (maxlen2 if fac else maxlen) and len(out["samples"]) < 1:
                out["samples"].append(dict(config=cfg["name"], ops=list(ops), dirty_returns=r["dirty_returns"], checkouts=r["checkouts"],
                                           **({"engine_options": fac} if fac else {})))
    return out


def cfg_by_name(name):
    return next(c for c in CONFIGS if c["name"] == name)


def bounded(run, tier, seed):
    F.quiet()
    maxlen = 4 if tier == "quick" else 5
    maxlen2 = 3 if tier == "quick" else 4
    procs = default_procs(tier)
    res = shard_map(worker, procs, procs, maxlen, maxlen2)
    tot = dict(runs=0, evaluated=0, na=0, nontrivial=0, checkouts=0,
               option_histories=0, option_nontrivial=0, option_multi_call=0, option_engine_level=0)
    failures, samples = [], []
    for r in res:
        if r is None or "crash" in r:
            run.crashes.append("C24 bounded: " + (r or {}).get("crash", "shard returned nothing"))
            continue
        for k in tot:
            tot[k] += r[k]
        failures += r["failures"]
        samples += r["samples"]
    tr = run_history(cfg_by_name("queue/reset=rollback"), ("ac", "ex", "gc"), trace=True)
    samples = samples[:2] + [dict(config="queue/reset=rollback", ops=["ac", "ex", "gc"], trace=tr["steps"], failure=tr["failure"])]
    tr = run_history(cfg_by_name("queue/reset=rollback"), ("ro", "ac+tok", "close"), trace=True, facade="tok")
    samples.append(dict(config="queue/reset=rollback", engine_options="tok", ops=["ro", "ac+tok", "close"], trace=tr["steps"], failure=tr["failure"]))
    blk = dict(
        label="bounded (not proof)", property="C24",
        scope=f"every history of length <= {maxlen} over {OPS} applied to the most recent of <= 2 live Connections of a real "
              f"Engine on the fake DBAPI, x pools {POOLS} x pool_reset_on_return {RESETS} ({len(CONFIGS)} configurations; "
              f"one holder at a time for StaticPool / SingletonThreadPool); contract judged at every checkout and at "
              f"slot-many simultaneous re-checkouts after every holder released; PLUS (2) option histories: every history of "
              f"length <= {maxlen2} over {OPS2} (tok = logging_token, ro = the dialect-specific characteristic fakeverif_readonly, "
              f"ac+tok = two characteristics in one execution_options() call) x first holder connecting through an engine facade "
              f"engine.execution_options(E), E in {FACADES} x the same {len(CONFIGS)} configurations, re-checkouts through the plain "
              f"engine; single thread",
        evaluations=tot["evaluated"], distinct_nontrivial=tot["nontrivial"],
        rule="histories are enumerated depth-first (operations without a live Connection and a third simultaneous holder are "
             "cut); every (configuration, history) pair is distinct; it is non-trivial (counted) when, according to the ledger, "
             "at least one connection went back to the pool DIRTY (open transaction, non-default isolation or autocommit at the "
             "moment of close / gc); for scope (2) the same rule gives option_histories_nontrivial, a read-only flag left on "
             "counting as dirty; option_histories_multi_call counts those with >= 2 option-setting calls on one checkout, "
             "option_histories_engine_level those whose first holder came through a facade with engine-level options",
        samples=samples, exhaustive=True, pruned=tot["na"], checkouts_judged=tot["checkouts"],
        option_histories=tot["option_histories"], option_histories_nontrivial=tot["option_nontrivial"],
        option_histories_multi_call=tot["option_multi_call"], option_histories_engine_level=tot["option_engine_level"])
    run.coverage.setdefault("bounded", []).append(blk)
    if tot["nontrivial"] < 2 or tot["option_nontrivial"] < 2 or tot["option_multi_call"] < 2:
        run.crashes.append("C24 bounded: vacuity guard: no connection was ever returned dirty")
    report(run, failures)


def report(run, failures):
    seen = {}
    for d in sorted(failures, key=lambda d: (len(d["ops"]), d["config"], d["ops"])):
        desc = dict(config=d["config"], ops=d["ops"], clause=d["clause"], at_op=d["at_op"])
        if d.get("engine_options"):
            desc["engine_options"] = d["engine_options"]
        dj = json.dumps(desc, sort_keys=True)
        k = run.match_known(function=FUNCTION, input=dj)
        if k is not None:
            run.known_finding(k, "bounded exploration on the real Engine/Pool over the fake DBAPI")
            continue
        sig = (d["clause"], d["config"]) + (("option-history",) if d.get("engine_options") else ())
        seen[sig] = seen.get(sig, 0) + 1
        if seen[sig] > 1 or len(seen) > 12:
            continue
        run.violation(f"C24-bounded-{d['clause']}-{abs(hash(dj)) % 10**8}",
                      dict(function=FUNCTION, bounded_module="checks.C24_bounded", input=desc,
                           expected="contract clause " + d["clause"] + " (checks/C24_bounded.py)", actual=d["detail"],
                           reason="bounded run-time contract check (C24_bounded)"))
    if seen:
        run.coverage.setdefault("bounded_violation_classes", {}).update({" | ".join(k): v for k, v in seen.items()})


def replay(data):
    F.quiet()
    inp = data["input"]
    r = run_history(cfg_by_name(inp["config"]), tuple(inp["ops"]), trace=True, facade=inp.get("engine_options"))
    if r["failure"]:
        print(f"REPLAY-FAILS {FUNCTION} input={json.dumps(inp, sort_keys=True)} clause={r['failure']['clause']} {r['failure']['detail']}")
        for s in r["steps"]:
            print("   ", json.dumps(s, default=repr))
        return 1
    print(f"REPLAY-PASSES {FUNCTION} input={json.dumps(inp, sort_keys=True)}")
    return 0
