"""C48 — pending changes survive the application dropping its references (bounded run-time contract check, class B).

Functions driven (real, tree under test): `InstanceState._modified_event` (strong reference `_strong_obj`, membership in
`_WeakInstanceDict._modified`), `InstanceState._cleanup` (weakref callback), `Session._flush`, `InstanceState._commit_all_states`
(release of `_strong_obj`), reached through attribute sets, collection mutations, backrefs, `Session.flush / commit /
rollback / get / add` on the shared ORM harness mappings (rtc/ormharness.py: P.x, P.children <-> C.parent, C.y), SQLite :memory:.

Contract clauses
  K1  ensures of `_modified_event(state, dict_, attr, ...)` (attr sends modified events, call returned normally):
        state.session_id  =>  state._strong_obj is state.obj()  (and that is not None)
        state.session_id and state has an identity map  =>  state in identity_map._modified
  K2  requires at `Session._flush` entry: every state in identity_map._modified has a live obj().
  K3  ensures of `Session._flush` (normal return, whole-session flush): every state that was in `_modified` at entry has
        `_strong_obj is None`, `modified` False, and `_modified` is empty.
  S   survival (the property): a history of modifications, reference drops and garbage collections, then "drop every
        reference, gc.collect(), commit": the SQLite tables equal a plain ghost model of the values last assigned
        (rollback restores the ghost's committed snapshot).
  R   release: at each gc.collect() with the application holding no path to it, a persistent object the ghost says is
        untouched since its last flush, and that nothing touched / pending / held reaches through loaded relationship values or
        captured original values, is gone from `session.identity_map`; every ghost-touched object is still present.

  T   (Session(autobegin=False) only) the Session never begins a transaction on its own: an operation that needs one while
        none was begun explicitly is refused with InvalidRequestError and changes nothing (the harness then calls begin() and
        repeats it, as an application would); after every operation `in_transaction()` == "begin() / begin_nested() was called
        and no commit() / rollback() since".

The ghost model is plain dict arithmetic on the operation names; it never reads SQLAlchemy state except (R) to follow
references out of objects known to be retained.  Transactions in the ghost: commit() makes the current values the committed
snapshot and ends every savepoint; rollback() restores the committed snapshot and ends every savepoint; begin_nested()
remembers the current values, rollback of that savepoint restores them, commit of it keeps them.
Discarding operations (Session.expire(obj, [names]) / expire(obj) / expire_all() / refresh(obj[, names])): the ghost also keeps
the values as of the last flush it observed (after_flush event: flushed := current); expiring or refreshing an attribute throws its
pending change away, so the ghost's current value of every expired column goes back to the flushed one (refresh expires first,
THEN autoflushes the rest of the session, then loads: the ghost is updated before the real call).  Expiring a collection does not
change any row (the child's own many-to-one attribute carries the foreign key).  An object some of whose attributes were expired
since the last flush may or may not still count as modified: clause R demands neither its presence nor its release until the
next flush.

Scope (exact text in coverage.scope): (1) default Session, ALL sequences over OPS (lengths 1..4 quick / 1..5 thorough);
(2) Session-configuration scope: autobegin x autoflush x expire_on_commit (8 Sessions), ALL sequences over OPS + explicit
begin(), begin_nested(), commit / rollback of the innermost savepoint (lengths 1..3 quick / 1..4 thorough); sequences with
an operation that cannot act (no reference to modify through, begin() inside a transaction, no savepoint) are pruned;
(3) discard scope: default Session, ALL sequences over OPS + DISCARD_OPS (partial expire / partial refresh of a scalar, partial
expire of a collection, full expire / refresh of the parent, partial expire of a child's scalar, expire_all), lengths 1..3 quick /
1..4 thorough, pruned the same way.
Every history ends with: drop every reference, gc.collect(), commit, compare the tables with the ghost.
"""
import copy
import gc
import json
import time

from rtc import ormharness as H

LEVEL = "exploration"
FN = "orm/state.py::InstanceState._modified_event"

OPS = ["mod_x1", "mod_x2", "append_child", "remove_child", "mod_child", "reparent", "replace_children", "drop_refs", "gc", "flush",
       "commit", "rollback", "load", "add_new"]
# transaction-control operations of the Session-configuration scope (appended, so the indices of OPS stay valid)
TX_OPS = ["begin", "begin_nested", "commit_nested", "rollback_nested"]
OPS2 = OPS + TX_OPS
# operations that throw pending changes away without a rollback (discard scope)
DISCARD_OPS = ["expire_x1", "refresh_x1", "expire_children1", "expire_p1", "refresh_p1", "expire_child_y", "expire_all"]
OPS3 = OPS + DISCARD_OPS
DEFAULT_CFG = dict(autobegin=True, autoflush=True, expire_on_commit=True)
CONFIGS = [dict(autobegin=ab, autoflush=af, expire_on_commit=eoc) for ab in (True, False) for af in (True, False) for eoc in (True, False)]

_G = dict(installed=False, engine=None, kfail=[], touched=None, flushes=0, ghost=None)


# ------------------------------------------------------------------------------------------ run-time contracts (K1-K3)
def install():
    """wrap the real methods in THIS process (the repository files are untouched)"""
    if _G["installed"]:
        return
    from sqlalchemy import event
    from sqlalchemy.orm import Session
    from sqlalchemy.orm.state import InstanceState
    orig_me = InstanceState._modified_event
    orig_flush = Session._flush

    def _modified_event(self, dict_, attr, previous, collection=False, is_userland=False):
        r = orig_me(self, dict_, attr, previous, collection, is_userland)
        if attr is None or attr.send_modified_events:
            if self.session_id:
                inst = self.obj()
                if inst is None or self._strong_obj is not inst:
                    _G["kfail"].append("K1: after _modified_event of an attached state, _strong_obj is not the instance")
                idm = self._instance_dict()
                if idm is not None and self not in idm._modified:
                    _G["kfail"].append("K1: after _modified_event the state is not in identity_map._modified")
        return r

    def _flush(self, objects=None):
        before = list(self.identity_map._modified)
        for st in before:
            if st.obj() is None:
                _G["kfail"].append("K2: at Session._flush entry a state in identity_map._modified has no live object")
        r = orig_flush(self, objects)
        if not objects:
            for st in before:
                if st._strong_obj is not None or st.modified:
                    _G["kfail"].append("K3: after Session._flush a flushed state still has _strong_obj / modified set")
            if self.identity_map._modified:
                _G["kfail"].append("K3: identity_map._modified not empty after a whole-session flush")
        return r

    InstanceState._modified_event = _modified_event
    Session._flush = _flush

    @event.listens_for(Session, "after_flush")
    def _after_flush(session, ctx):
        _G["flushes"] += 1
        if _G["touched"] is not None:
            _G["touched"].clear()
        if _G["ghost"] is not None:
            _G["ghost"].flushed = copy.deepcopy(_G["ghost"].cur)
            _G["ghost"].maybe.clear()
    _G["installed"] = True


# ------------------------------------------------------------------------------------------ ghost model + operations
class Ghost:
    def __init__(self):
        self.cur = {"p": {1: 10, 2: 20}, "c": {1: (1, 100), 2: (1, 200)}}
        self.committed = copy.deepcopy(self.cur)
        self.next_c = 11
        self.next_p = 50
        self.touched = set()        # identity names ("p",1) / ("c",2) mutated since the last observed flush
        self.in_tx = False          # a transaction was begun EXPLICITLY (begin / begin_nested) and not ended since (autobegin=False only)
        self.nested = []            # [(SessionTransaction of begin_nested(), snapshot of cur taken there)]
        self.flushed = copy.deepcopy(self.cur)      # values as of the last observed flush (= what an expired attribute reloads)
        self.maybe = set()          # touched identity names some of whose attributes were expired since: modified or not is open
        self.discards = 0           # discarding operations that actually threw a pending change away


def reset_db(engine):
    with engine.begin() as c:
        c.exec_driver_sql("delete from c")
        c.exec_driver_sql("delete from p")
        c.exec_driver_sql("insert into p (id, x) values (1, 10), (2, 20)")
        c.exec_driver_sql("insert into c (id, pid, y) values (1, 1, 100), (2, 1, 200)")


def read_db(engine):
    with engine.connect() as c:
        return {"p": dict(tuple(r) for r in c.exec_driver_sql("select id, x from p")),
                "c": {r[0]: (r[1], r[2]) for r in c.exec_driver_sql("select id, pid, y from c")}}


def new_engine():
    """SQLite :memory: in the sqlite3 driver's autocommit=False mode (PEP-249 transaction control: SAVEPOINT takes part in the
    enclosing transaction, which the driver's legacy mode is documented not to guarantee), tables of the shared mappings"""
    from sqlalchemy import create_engine
    e = create_engine("sqlite://", connect_args={"autocommit": False})
    H.mappings().Base.metadata.create_all(e)
    return e


# each operation in its own frame, so no local variable keeps an object alive after it returns
def _mod_x(refs, name):
    p = refs.get(name)
    if p is None:
        return None
    p.x = p.x + 1
    return p.x


def _append_child(refs, cid, C):
    p = refs.get("p1")
    if p is None:
        return False
    p.children.append(C(id=cid, y=cid))
    return True


def _remove_child(refs):
    p = refs.get("p1")
    if p is None or not p.children:
        return None
    ch = p.children[0]
    p.children.remove(ch)
    return ch.id


def _mod_child(refs):
    p = refs.get("p1")
    if p is None or not p.children:
        return None
    ch = p.children[-1]
    ch.y = ch.y + 1
    return ch.id, ch.y


def _reparent(refs):
    p, q = refs.get("p1"), refs.get("p2")
    if p is None or q is None or not p.children:
        return None
    ch = p.children[0]
    ch.parent = q
    return ch.id


def _replace_children(refs, cid, C):
    p = refs.get("p1")
    if p is None:
        return None
    old = [c.id for c in p.children]
    p.children = [C(id=cid, y=cid)]
    return old


def _load(s, refs, P):
    refs["p1"] = s.get(P, 1)
    refs["p2"] = s.get(P, 2)


def _expire(s, refs, name, attrs):
    p = refs.get(name)
    if p is None:
        return False
    s.expire(p, attrs)
    return True


def _refresh(s, refs, name, attrs):
    p = refs.get(name)
    if p is None:
        return False
    s.refresh(p, attrs)
    return True


def _expire_child_y(s, refs, g):
    """partial expire of the scalar of p1's last child, if that child is persistent (its row was flushed)"""
    p = refs.get("p1")
    if p is None or not p.children:
        return None
    ch = p.children[-1]
    if ch.id not in g.flushed["c"]:
        return None
    s.expire(ch, ["y"])
    return ch.id


def _mark_discarded(g, name):
    if name in g.touched:
        g.touched.discard(name)
        g.maybe.add(name)


def _names_reachable(s, refs, touched, m):
    """identity names that something retained may keep alive: closure over loaded relationship values, captured
    original values (committed_state) and pending mutations, from application refs + ghost-touched + new + deleted"""
    from sqlalchemy import inspect
    roots = [o for o in refs.values() if o is not None]
    for kind, i in touched:
        o = s.identity_map.get(inspect(m.P if kind == "p" else m.C).identity_key_from_primary_key((i,)))
        if o is not None:
            roots.append(o)
    roots += list(s.new) + list(s.deleted)
    seen, out, todo = set(), set(), list(roots)
    while todo:
        o = todo.pop()
        if id(o) in seen:
            continue
        seen.add(id(o))
        if isinstance(o, (m.P, m.C)):
            st = inspect(o)
            out.add(("p" if isinstance(o, m.P) else "c", st.identity[0] if st.identity else o.__dict__.get("id")))
            vals = list(o.__dict__.values()) + list(st.committed_state.values()) + list(getattr(st, "_pending_mutations", {}).values())
            for v in vals:
                if isinstance(v, (m.P, m.C)):
                    todo.append(v)
                elif isinstance(v, (list, tuple, set, frozenset)):
                    todo.extend(x for x in v if isinstance(x, (m.P, m.C)))
                elif hasattr(v, "added_items"):       # PendingCollection
                    todo.extend(list(v.added_items) + list(v.deleted_items))
    return out


def _idmap_names(s, m):
    return {("p" if k[0] is m.P else "c", k[1][0]) for k in list(s.identity_map.keys())}


def _gc_clause(s, refs, g, m, fails, where):
    """clause R at a gc.collect(); returns True when a ghost-touched object was unreachable from the application"""
    app = _names_reachable_app(refs, m)
    may_live = _names_reachable(s, refs, g.touched | g.maybe, m)
    before = _idmap_names(s, m)
    gc.collect()
    after = _idmap_names(s, m)
    should_go = before - may_live
    for n in sorted(should_go & after, key=str):
        fails.append(f"R: {n[0]}{n[1]} is untouched and unreferenced but still in the identity map after gc.collect() ({where})")
    for n in sorted((g.touched & before) - after, key=str):
        fails.append(f"R: {n[0]}{n[1]} has unflushed changes but left the identity map at gc.collect() ({where})")
    return bool((g.touched & before) - app)


def _names_reachable_app(refs, m):
    """identity names the application itself can still reach (through loaded relationship values only)"""
    out, seen, todo = set(), set(), [o for o in refs.values() if o is not None]
    while todo:
        o = todo.pop()
        if id(o) in seen:
            continue
        seen.add(id(o))
        out.add(("p" if isinstance(o, m.P) else "c", o.__dict__.get("id")))
        for v in o.__dict__.values():
            if isinstance(v, (m.P, m.C)):
                todo.append(v)
            elif isinstance(v, list):
                todo.extend(x for x in v if isinstance(x, (m.P, m.C)))
    return out


class Pruned(Exception):
    pass


def _apply(op, s, refs, g, m):
    """one operation on the real Session + the ghost's arithmetic; returns (applied, exercised_gc_hypothesis)."""
    applied, nontrivial = 0, False
    if op in ("mod_x1", "mod_x2"):
        i = 1 if op == "mod_x1" else 2
        v = _mod_x(refs, f"p{i}")
        if v is not None:
            g.cur["p"][i] = g.cur["p"][i] + 1
            g.touched.add(("p", i))
            applied = 1
    elif op == "append_child":
        if _append_child(refs, g.next_c, m.C):
            g.cur["c"][g.next_c] = (1, g.next_c)
            g.touched.update({("p", 1), ("c", g.next_c)})
            g.next_c += 1
            applied = 1
    elif op == "remove_child":
        cid = _remove_child(refs)
        if cid is not None:
            g.cur["c"][cid] = (None, g.cur["c"][cid][1])
            g.touched.update({("p", 1), ("c", cid)})
            applied = 1
    elif op == "mod_child":
        r = _mod_child(refs)
        if r is not None:
            g.cur["c"][r[0]] = (g.cur["c"][r[0]][0], g.cur["c"][r[0]][1] + 1)
            g.touched.add(("c", r[0]))
            applied = 1
    elif op == "reparent":
        cid = _reparent(refs)
        if cid is not None:
            g.cur["c"][cid] = (2, g.cur["c"][cid][1])
            g.touched.update({("p", 1), ("p", 2), ("c", cid)})
            applied = 1
    elif op == "replace_children":
        old = _replace_children(refs, g.next_c, m.C)
        if old is not None:
            for cid in old:
                g.cur["c"][cid] = (None, g.cur["c"][cid][1])
                g.touched.add(("c", cid))
            g.cur["c"][g.next_c] = (1, g.next_c)
            g.touched.update({("p", 1), ("c", g.next_c)})
            g.next_c += 1
            applied = 1
    elif op == "drop_refs":
        refs.clear()
    elif op == "flush":
        s.flush()
    elif op == "commit":
        s.commit()          # documented: commits the outermost transaction, releasing every SAVEPOINT in effect
        g.committed = copy.deepcopy(g.cur)
        g.flushed = copy.deepcopy(g.cur)
        g.in_tx, g.nested = False, []
    elif op == "rollback":
        s.rollback()        # documented: rolls back the outermost transaction, discarding nested ones
        g.cur = copy.deepcopy(g.committed)
        g.flushed = copy.deepcopy(g.committed)
        g.touched.clear()
        g.maybe.clear()
        g.in_tx, g.nested = False, []
    elif op == "load":
        _load(s, refs, m.P)
    elif op == "add_new":
        s.add(m.P(id=g.next_p, x=7))
        g.cur["p"][g.next_p] = 7
        g.next_p += 1
        applied = 1
    elif op == "begin":
        s.begin()
        g.in_tx = True
    elif op == "begin_nested":
        g.nested.append((s.begin_nested(), copy.deepcopy(g.cur)))       # flushes, then SAVEPOINT
        g.in_tx = True
    elif op == "commit_nested":
        g.nested.pop()[0].commit()                                      # flushes, then RELEASE
    elif op == "rollback_nested":
        h, snap = g.nested.pop()
        h.rollback()                                                    # ROLLBACK TO; changes since begin_nested() are discarded
        g.cur = snap
        g.flushed = copy.deepcopy(snap)          # begin_nested() flushed before the SAVEPOINT
        g.touched.clear()
        g.maybe.clear()
    elif op in ("expire_x1", "refresh_x1", "expire_p1", "refresh_p1"):
        if refs.get("p1") is not None:
            # ghost first: refresh() expires, THEN autoflushes (after_flush takes the ghost's snapshot), then loads
            g.discards += g.cur["p"][1] != g.flushed["p"][1]
            g.cur["p"][1] = g.flushed["p"][1]
            _mark_discarded(g, ("p", 1))
            (_refresh if op.startswith("refresh") else _expire)(s, refs, "p1", ["x"] if op.endswith("x1") else None)
            applied = 1
    elif op == "expire_children1":
        if refs.get("p1") is not None:
            _mark_discarded(g, ("p", 1))
            _expire(s, refs, "p1", ["children"])
            applied = 1
    elif op == "expire_child_y":
        cid = _expire_child_y(s, refs, g)
        if cid is not None:
            g.discards += g.cur["c"][cid][1] != g.flushed["c"][cid][1]
            g.cur["c"][cid] = (g.cur["c"][cid][0], g.flushed["c"][cid][1])
            _mark_discarded(g, ("c", cid))
            applied = 1
    elif op == "expire_all":
        s.expire_all()      # every persistent object: all pending attribute changes are discarded (pending new objects are not expired)
        for kind in ("p", "c"):
            for i, v in g.flushed[kind].items():
                g.discards += g.cur[kind][i] != v
                g.cur[kind][i] = v
        for name in list(g.touched):
            _mark_discarded(g, name)
        applied = 1
    return applied, nontrivial


def _inapplicable(op, refs, g, cfg):
    """operations that cannot act in the current ghost state; a history containing one equals a shorter enumerated
    history (Session-configuration scope only: the history is pruned)"""
    if op in ("mod_x1", "mod_x2", "append_child", "remove_child", "mod_child", "reparent", "replace_children"):
        need = ("p2" if op == "mod_x2" else "p1",) + (("p2",) if op == "reparent" else ())
        return any(refs.get(n) is None for n in need)
    if op in DISCARD_OPS and op != "expire_all":
        return refs.get("p1") is None
    if op == "begin":
        return cfg["autobegin"] or g.in_tx           # autobegin session: a transaction may already be in progress implicitly
    if op in ("commit_nested", "rollback_nested"):
        return not g.nested
    return False


def run_history(names, engine=None, cfg=None, prune=False):
    """-> dict(fails=[...], nontrivial=bool, applied=int, model=..., db=...) ; cfg = Session configuration (None = defaults)"""
    install()
    m = H.mappings()
    from sqlalchemy import exc as sa_exc
    from sqlalchemy.orm import Session
    engine = engine or _G["engine"]
    reset_db(engine)
    g = Ghost()
    _G["touched"] = g.touched
    _G["ghost"] = g
    del _G["kfail"][:]
    fails = []
    nontrivial = False
    applied = 0
    retried = 0
    cfg = dict(DEFAULT_CFG, **(cfg or {}))
    s = Session(engine, **cfg)
    refs = {}
    strict = not cfg["autobegin"]

    def step(op):
        """autobegin=False: an operation that needs a transaction while none was begun explicitly is REFUSED with
        InvalidRequestError (no effect); the application then calls begin() and repeats the operation."""
        nonlocal applied, nontrivial, retried
        try:
            a, n = _apply(op, s, refs, g, m)
        except sa_exc.InvalidRequestError as ex:
            if not strict or g.in_tx or "Autobegin is disabled" not in str(ex):
                raise
            if s.in_transaction():
                fails.append(f"T: '{op}' was refused for lack of a transaction, yet it left the Session in a transaction")
            s.begin()
            g.in_tx = True
            retried += 1
            a, n = _apply(op, s, refs, g, m)
        applied += a
        nontrivial |= n
        if strict and s.in_transaction() != g.in_tx:
            fails.append(f"T: after '{op}' Session(autobegin=False).in_transaction() is {s.in_transaction()}, "
                         f"explicitly begun and not ended: {g.in_tx}")

    pruned = False
    try:
        step("load")
        for op in names:
            if prune and _inapplicable(op, refs, g, cfg):
                raise Pruned()
            if op == "gc":
                nontrivial |= _gc_clause(s, refs, g, m, fails, "gc operation")
            elif op in ("commit_nested", "rollback_nested") and not g.nested:
                pass
            elif op == "begin" and (cfg["autobegin"] or g.in_tx):
                pass
            else:
                step(op)
        refs.clear()
        nontrivial |= _gc_clause(s, refs, g, m, fails, "final drop of every reference")
        step("commit")
    except Pruned:
        pruned = True
    except Exception as ex:
        fails.append(f"harness operation raised {type(ex).__name__}: {str(ex)[:200]}")
    finally:
        g.nested = []
        try:
            s.close()
        except Exception as ex:  # pragma: no cover
            fails.append(f"close raised {type(ex).__name__}")
    _G["ghost"] = None
    if pruned:
        _G["touched"] = None
        return dict(pruned=True, fails=[], nontrivial=False, applied=0, retried=0, discards=0, model=g.cur, db=g.cur)
    db = read_db(engine)
    if db != g.cur:
        for kind in ("p", "c"):
            for i in sorted(set(db[kind]) | set(g.cur[kind])):
                if db[kind].get(i, "<no row>") != g.cur[kind].get(i, "<no row>"):
                    fails.append(f"S: row {kind}{i} is {db[kind].get(i, '<no row>')} in the database, last assigned {g.cur[kind].get(i, '<no row>')}")
    fails += sorted(set(_G["kfail"]))
    _G["touched"] = None
    return dict(fails=fails, nontrivial=nontrivial, applied=applied, retried=retried, discards=g.discards, model=g.cur, db=db)


# ------------------------------------------------------------------------------------------ worker / entry points
def _worker(job):
    H.quiet()
    if _G["engine"] is None:
        _G["engine"] = new_engine()
        install()
        run_history(["mod_x1", "flush"])      # warm every lazy import / memoized attribute, then take the process's
        gc.collect()                           # long-lived objects out of the collector's sight: gc.collect() inside a
        gc.freeze()                            # history then only walks the objects the history created (10x faster)
    res = dict(evaluations=0, nontrivial=0, applied_ops=0, failures=[], samples=[], flushes=0,
               cfg_evaluations=0, cfg_pruned=0, cfg_nontrivial=0, cfg_refused_then_begun=0, cfg_samples=[], cfg_per_config={},
               disc_evaluations=0, disc_pruned=0, disc_nontrivial=0, disc_effective=0, disc_effective_nontrivial=0, disc_samples=[])
    f0 = _G["flushes"]
    cfg = job.get("cfg")
    disc = job.get("discard", False)
    ops = OPS3 if disc else OPS2 if cfg else OPS
    for idxs in H.job_sequences(len(ops), job):
        names = [ops[k] for k in idxs]
        if disc:
            if not any(o in DISCARD_OPS for o in names):
                continue                                    # a history of scope (1)
            r = run_history(names, prune=True)
            if r.get("pruned"):
                res["disc_pruned"] += 1
                continue
            res["disc_evaluations"] += 1
            res["disc_nontrivial"] += bool(r["nontrivial"])
            res["disc_effective"] += bool(r["discards"])
            if r["nontrivial"] and r["discards"]:
                res["disc_effective_nontrivial"] += 1
                if not res["disc_samples"] and len(names) == job["length"]:
                    res["disc_samples"].append(dict(ops=names, then="drop refs; gc.collect(); commit", database=_jsonable(r["db"])))
        elif cfg:
            r = run_history(names, cfg=cfg, prune=True)
            if r.get("pruned"):
                res["cfg_pruned"] += 1
                continue
            res["cfg_evaluations"] += 1
            key = ",".join(f"{k}={v}" for k, v in sorted(cfg.items()))
            res["cfg_per_config"][key] = res["cfg_per_config"].get(key, 0) + 1
            if r["nontrivial"]:
                res["cfg_nontrivial"] += 1
                if r["retried"]:
                    res["cfg_refused_then_begun"] += 1
                if not res["cfg_samples"] and r["applied"] >= 1 and (r["retried"] or any(o in TX_OPS for o in names)) \
                        and len(names) == job["length"]:
                    res["cfg_samples"].append(dict(session=cfg, ops=names, then="drop refs; gc.collect(); commit", database=_jsonable(r["db"])))
        else:
            r = run_history(names)
            res["evaluations"] += 1
            if r["nontrivial"]:
                res["nontrivial"] += 1
                if not res["samples"] and r["applied"] >= 2:
                    res["samples"].append(dict(ops=names, then="drop refs; gc.collect(); commit", database=_jsonable(r["db"])))
        res["applied_ops"] += r["applied"]
        if r["fails"]:
            d = dict(ops=names, broken=r["fails"], model=_jsonable(r["model"]), database=_jsonable(r["db"]))
            if cfg:
                d["session"] = cfg
            res["failures"].append(d)
    res["flushes"] = _G["flushes"] - f0
    return res


def _jsonable(d):
    return {k: {str(i): v for i, v in rows.items()} for k, rows in d.items()}


def lengths_for(tier):
    return (1, 2, 3, 4) if tier == "quick" else (1, 2, 3, 4, 5)


def cfg_lengths_for(tier):
    return (1, 2, 3) if tier == "quick" else (1, 2, 3, 4)


def disc_lengths_for(tier):
    return (1, 2, 3) if tier == "quick" else (1, 2, 3, 4)


def run(run, tier, seed, args):
    t0 = time.time()
    lengths = lengths_for(tier)
    joblist = H.jobs(len(OPS), lengths, min_jobs=150)
    cfg_lengths = cfg_lengths_for(tier)
    for cfg in CONFIGS:
        joblist += H.jobs(len(OPS2), cfg_lengths, min_jobs=18, cfg=cfg)
    disc_lengths = disc_lengths_for(tier)
    joblist += H.jobs(len(OPS3), disc_lengths, min_jobs=100, discard=True)
    if seed:
        import random
        random.Random(seed).shuffle(joblist)
    agg = H.Agg()
    for r in H.run_sharded(_worker, joblist):
        agg.add(r)
    failures = agg.get("failures", [])
    seen = 0
    for d in sorted(failures, key=lambda d: (len(d["ops"]), d["ops"])):
        dj = json.dumps(d, sort_keys=True, default=repr)
        k = run.match_known(function=FN, input=dj)
        if k is not None:
            run.known_finding(k, "bounded replay on the real functions")
            continue
        if seen < 5:
            seen += 1
            tag = "".join({"autobegin": "ab", "autoflush": "af", "expire_on_commit": "eoc"}[k] + str(int(v))
                          for k, v in sorted(d["session"].items())) + "-" if "session" in d else ""
            run.violation("history-" + tag + "-".join(d["ops"]), dict(function=FN, input=d, expected="database equals the values last assigned; K1-K3, R hold",
                                                               actual=d["broken"], reason="bounded run-time contract check"))
    samples = sorted(agg.get("samples", []), key=lambda x: (-len(x["ops"]), x["ops"]))
    run.coverage.update(
        evaluations=agg["evaluations"] + agg["cfg_evaluations"] + agg["disc_evaluations"],
        distinct_nontrivial=agg["nontrivial"] + agg["cfg_nontrivial"] + agg["disc_nontrivial"],
        rule="every operation sequence of the scope is enumerated once (itertools.product: all distinct); a history is non-trivial when, at "
             "some gc.collect() (a `gc` operation or the final one), an object with unflushed changes according to the ghost model was "
             "not reachable from any reference the application still held — i.e. the hypothesis of the property was exercised; counted per history. "
             "Session-configuration scope: every (configuration, sequence) pair is enumerated once; a sequence containing an operation that "
             "cannot act in the ghost's state (modification without a reference, begin() inside a transaction or on an autobegin session, "
             "commit_nested / rollback_nested without a savepoint) equals a shorter sequence and is pruned (cfg_pruned); non-trivial as above; "
             "cfg_refused_then_begun counts the non-trivial histories in which an autobegin=False session refused an operation outside a "
             "transaction and the operation was repeated after begin().  Discard scope: every sequence containing at least one discarding operation "
             "is enumerated once (the others belong to scope 1), pruned the same way; non-trivial as above; disc_effective counts the histories in which "
             "a discarding operation threw away a pending change the ghost knew of (expired value != value as of the last flush), "
             "disc_effective_nontrivial those among them that are also non-trivial",
        samples=samples[:3] + samples[-2:] + sorted(agg.get("cfg_samples", []), key=lambda x: json.dumps(x, sort_keys=True))[:3]
        + sorted(agg.get("disc_samples", []), key=lambda x: json.dumps(x, sort_keys=True))[:2],
        exhaustive=True,
        scope=f"2 parent rows (p1 with 2 children, p2), SQLite :memory:, one Session per history; ALL sequences of length in {list(lengths)} "
              f"over the {len(OPS)} operations {OPS} (scalar modify on either parent, append / remove / modify / re-parent a child, replace the "
              f"collection, drop all application references, gc.collect(), flush, commit, rollback, re-load, add a pending object nobody "
              f"references), each followed by: drop every reference, gc.collect(), commit, compare tables with the ghost model.  "
              f"SESSION-CONFIGURATION scope: for each of the {len(CONFIGS)} Sessions autobegin x autoflush x expire_on_commit in (True, False), ALL "
              f"sequences of length in {list(cfg_lengths)} over the {len(OPS2)} operations OPS + {TX_OPS} (explicit begin(), begin_nested(), commit / "
              f"rollback of the innermost savepoint), same ending; with autobegin=False an operation refused outside a transaction "
              f"(InvalidRequestError) is repeated after begin(), and in_transaction() must equal 'explicitly begun and not ended' after every operation.  "
              f"DISCARD scope: default Session, ALL sequences of length in {list(disc_lengths)} over the {len(OPS3)} operations OPS + {DISCARD_OPS} that contain a "
              f"discarding operation (Session.expire(p1, ['x']), refresh(p1, ['x']), expire(p1, ['children']), expire(p1), refresh(p1), expire(last child of p1, ['y']), "
              f"expire_all()), same ending",
        cfg_evaluations=agg["cfg_evaluations"], cfg_pruned=agg["cfg_pruned"], cfg_nontrivial=agg["cfg_nontrivial"],
        cfg_refused_then_begun=agg["cfg_refused_then_begun"], cfg_evaluations_per_config=agg.get("cfg_per_config", {}),
        disc_evaluations=agg["disc_evaluations"], disc_pruned=agg["disc_pruned"], disc_nontrivial=agg["disc_nontrivial"], disc_effective=agg["disc_effective"],
        disc_effective_nontrivial=agg["disc_effective_nontrivial"],
        operations_applied=agg["applied_ops"],
        flushes_observed=agg["flushes"],
        contract_failures=len(failures),
        enumeration_wall_s=round(time.time() - t0, 1),
    )
    run.assumptions += [
        "CPython reference counting + gc.collect() semantics: an object with no strong reference is finalised at gc.collect() at the latest",
        "the harness holds application references only in one dict; every operation runs in its own frame so no local variable keeps an object alive",
        "clause R (release) reads __dict__ / committed_state / pending mutations of retained objects only to over-approximate what they keep alive",
        "SQLite :memory: (sqlite3 autocommit=False mode, so that SAVEPOINT is transactional) only; no delete-orphan cascade (a removed child keeps its row with a NULL parent)",
        "Session.commit() / rollback() end the outermost transaction and every savepoint (documented 2.0 behaviour); begin_nested() and a savepoint commit flush first",
        "an expired attribute reloads the value as of the last flush of the same transaction (the ghost's `flushed` snapshot, taken at the after_flush event)",
        "bounded: histories longer than the stated length, more objects, join_transaction_mode / external connections, two-phase and pickled/merged objects are outside",
    ]


def replay(data):
    H.quiet()
    d = data["input"]
    eng = new_engine()
    r = run_history(d["ops"], eng, cfg=d.get("session"), prune=False)
    if r["fails"]:
        print(f"REPLAY-FAILS {FN} session={d.get('session', DEFAULT_CFG)} ops={d['ops']} broken={r['fails']}")
        return 1
    print(f"REPLAY-PASSES {FN} ops={d['ops']}")
    return 0
