"""C34 — the identity map holds at most one object per row: the _WeakInstanceDict container, the registration of flushed states
incl. primary-key switches (Session._register_persistent) and the hand-over of a released SAVEPOINT's bookkeeping (new / dirty /
deleted / primary-key switches) to the enclosing transaction under proof."""
import importlib
import contracts.identity  # noqa: F401
import contracts.session_snapshot  # noqa: F401
import contracts.session_register  # noqa: F401
import contracts.session_restore  # noqa: F401
from pyvc.contract import FUNCS
from vlib.proof import run_proofs
from vlib.bounded import run_bounded

LEVEL = "proof"
KEYS = [k for k, c in FUNCS.items() if "C34" in c.props and c.proof and not c.abstract]


def run(run, tier, seed, args):
    run_proofs(run, KEYS, tier, update_baseline=args.update_baseline, source_root=args.source_root)
    if not args.source_root:
        run_bounded(run, KEYS, tier)
        try:
            m = importlib.import_module("checks.C34_bounded")
        except ModuleNotFoundError:
            m = None
        if m is not None:
            m.bounded(run, tier, seed)
    run.assumptions += [
        "liveness of a weakly referenced object (state.obj() is None) does not change during one container call: the `except KeyError` GC-race arms are proved unreachable sequentially",
        "dictionary keys compare by value identity of the modelled key (identity keys are tuples of hashable values)",
        "SessionTransaction._remove_snapshot: only the SAVEPOINT-release arm is under proof (precondition self.nested)",
        "SessionTransaction._restore_snapshot (rollback): Session._expunge_states is under proof itself (the given states lose their binding, nothing else leaves the identity "
        "map; InstanceState._detach_states enters as a summary: keys dropped exactly when to_transient, proved under C35 in its own vocabulary); Session._update_impl is an "
        "ASSUMED summary (the state leaves Session._deleted, no identity key is written), all_states() is a havocked "
        "sequence and InstanceState._expire a no-op on the modelled fields; precondition: every bound state carries the key it is bound under (clause A of the bounded "
        "complement), no pending state is bound, the session has a current transaction, the bookkeeping dictionaries are distinct objects (evaluated at every real call, calls where it is false are counted in the evidence); the identity-map postconditions hold right after the key-switch "
        "loop (loop invariant), the function's own postcondition speaks about identity keys only",
        "Session._register_persistent: mapper._identity_key_from_state(state) is an uninterpreted pure function of the state (the identity key its current primary key gives), "
        "_state_mapper / state_str / _none_set tests are havocked values, util.warn / _register_altered / the pending_to_persistent event / self._new.pop are no-ops on the "
        "modelled fields; InstanceState._commit_all_states is an ASSUMED summary here (touches neither the flushed-states set, the key switches, the identity map's mapping nor "
        "any identity key; its own contract is proved under C48); the assumed precondition (no stale binding of a flushed state, keys None or non-empty tuples, containers not "
        "aliased) is evaluated at every real call in the bounded complement (clause P)",
        "outside the proof: loading._instance_processor lookup-before-create, Session.get's no-SQL path (bounded complement only), the database",
    ]
