"""C49 — mutable column values propagate in-place changes: every in-place mutator of MutableDict / MutableList / MutableSet under
proof (the builtin's effect on the contents, and a change event whenever the contents may have changed: ghost counter of
`changed()` calls); propagation from `changed()` to the parent's modified flag and to the database, MutableComposite, pickling and
coercion in the exploration module (checks/C49_explore.py) as the bounded complement."""
import contracts.mutable  # noqa: F401
from vlib.wrap import run_proof_and_explore
from checks import C49_explore

LEVEL = "proof"
replay = C49_explore.replay


def run(run, tier, seed, args):
    run_proof_and_explore(run, "C49", C49_explore, tier, seed, args, [
        "Mutable.changed() is an assumed contract (ghost counter): its effect -- flag_modified on every parent -- is checked end to end by the bounded complement",
        "the builtin dict / list / set methods called unbound (dict.pop(self, ...)) follow the engine's builtin models; *arg methods are verified per arity (1 and 2 arguments)",
        "not under proof (bounded complement only): update(**kw), sort(**kw), __imul__, __ior__ of MutableDict, slice forms of MutableList.__setitem__/__delitem__, __setstate__, coerce, MutableComposite",
    ])
