"""C24 — bounded run-time contract check (see checks/C24_bounded.py for the contract and scope); proof kernel: see DESIGN §5 C24."""
from vlib.thin import run_bounded_only

LEVEL = "exploration"


def run(run, tier, seed, args):
    run_bounded_only(run, "C24", tier, seed)
