"""C24 — pooled connections carry no state from a previous checkout: the reset path under proof
(_ConnectionFairy._reset, DefaultDialect.reset_isolation_level), histories on a fake DBAPI as the bounded complement."""
import importlib
import contracts.pool_reset  # noqa: F401
import contracts.finalize_fairy  # noqa: F401  (_finalize_fairy: shared by C24 and C26)
from pyvc.contract import FUNCS
from vlib.proof import run_proofs
from vlib.bounded import run_bounded

LEVEL = "proof"
KEYS = [k for k, c in FUNCS.items() if "C24" in c.props and c.proof and not c.abstract]


def run(run, tier, seed, args):
    run_proofs(run, KEYS, tier, update_baseline=args.update_baseline, source_root=args.source_root)
    if not args.source_root:
        run_bounded(run, [k for k in KEYS if FUNCS[k].harness], tier)
        importlib.import_module("checks.C24_bounded").bounded(run, tier, seed)
    run.assumptions += [
        "assumed driver contracts: do_rollback / do_commit end the transaction or raise; _assert_and_set_isolation_level sets the level or raises",
        "event listeners (pool.dispatch.reset) and logging do not touch the ghost state",
        "_finalize_fairy is under proof for sync dialects, non-detached case (reset runs; on an Exception the record is invalidated; the record is checked in exactly once; a stale gc callback does nothing) -- exceptional exits and the detach / async arms are not claimed; Connection.close (the call site that passes transaction_reset=True) is covered by the bounded complement only; _ConnectionRecord.checkin (runs and empties finalize_callback) is under proof in C26",
        "DefaultDialect._set_connection_characteristics: the two list comprehensions are over-approximated (same length, arbitrary tuples, may raise); characteristic.set_connection_characteristic is a no-op on the modelled state; functools.partial is an uninterpreted pure function of its arguments",
        "server-side session state on real backends and GC timing are outside",
    ]
