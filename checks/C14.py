"""C14 — DDL is emitted in dependency order for any foreign-key graph (bounded run-time contract check, class P stand-in).

Functions driven (real, from the tree under test): `sqlalchemy.sql.ddl.sort_tables_and_constraints`,
`sqlalchemy.sql.ddl.sort_tables`, and end to end `MetaData.create_all` / `MetaData.drop_all`
(`SchemaGenerator.visit_metadata` / `SchemaDropper.visit_metadata`, which pass their own real `filter_fn`).

Contract of `sort_tables_and_constraints(tables, filter_fn, extra_dependencies)` — with `R = result[:-1]`,
`rest = result[-1][1]`, `fv(f) = filter_fn(f)` (None when no filter_fn):
  (1) `result[-1][0] is None` and `[t for t, _ in R]` is a permutation of `tables`;
  (2) every ForeignKeyConstraint of every input table occurs exactly once: in its own table's inline collection or in
      `rest`; nothing else occurs anywhere;
  (3) for every inline constraint f of the table at index i: `f.referred_table` is that table, or is not an input table,
      or stands at an index < i (referenced tables are created before referencing ones); every explicit dependency
      (`extra_dependencies` / `Table.add_is_dependent_on`) `(p, t)` has p before t;
  (4) `use_alter` constraints and constraints with `fv(f) is True` are in `rest`; constraints with `fv(f) is False`
      (and no use_alter) are inline;
  (5) a constraint that is neither use_alter nor `fv(f) is True` is deferred to `rest` only when its table lies on a
      cycle of the dependency graph (documented: "included in the table-based result unless it is detected as part of
      a dependency cycle");
  raises: `CircularDependencyError` only when the edges that can not be removed (constraints with `fv(f) is False`,
      explicit dependencies) form a cycle by themselves; nothing else is raised.
Contract of `sort_tables(tables, skip_fn, extra_dependencies)`: the result is a permutation of `tables`; explicit
dependencies are respected; every dependency `(referred, t)` of a constraint that is neither use_alter nor skipped, whose
table `t` does not lie on a cycle, has `referred` before `t` ("tables which are not part of the cycle will still be
returned in dependency order"); foreign-key cycles never raise.

End to end (string DDL through `create_mock_engine`, judged by a small catalog that enforces what PostgreSQL enforces):
  create_all / postgresql: every REFERENCES target of a CREATE TABLE exists already (or is the table itself); every
      ALTER .. ADD .. FOREIGN KEY comes after all CREATE TABLEs; afterwards every table and every constraint exists once;
  drop_all / postgresql: ALTER .. DROP CONSTRAINT come before all DROP TABLEs and name a live constraint; a DROP TABLE is
      never issued while a live constraint of another table references it; afterwards nothing is left;
      `CircularDependencyError` only when the unnamed (not droppable) constraints + explicit dependencies form a cycle;
  create_all / drop_all / sqlite (no ALTER): every constraint is rendered inline exactly once, no ALTER is emitted;
      dependencies of tables that are not on a cycle are created first / dropped last (drop order only when the whole
      graph is acyclic — otherwise the documented warning says the order is unsorted);
  real SQLite `:memory:` with `PRAGMA foreign_keys=ON`: create_all and drop_all (checkfirst on) succeed; when the graph is
      acyclic one row per table referencing its parents is inserted first, so that SQLite's implicit DELETE of DROP TABLE
      rejects a wrong drop order.

End to end with checkfirst on and a server that is not empty (families `cf*`; the property quantifies over "checkfirst on and off").
The real `SchemaGenerator` / `SchemaDropper` run with `checkfirst=True` against a catalog double (`catalog_engine`: the dialect's
has_table / has_multi_table answer from a set of table names that CREATE / DROP TABLE statements update; create_mock_engine itself
forces checkfirst off).  For every graph and every subset E of its tables that such a server can hold (E closed under references,
from none to all; a table on the server has all its constraints), three calls, each judged by the clauses above relative to the
server state before the call:
  A  create_all(tables=E) on an empty server: exactly the tables of E and their constraints exist afterwards, once each;
  B  drop_all() with E on the server: only tables of E are dropped, ALTER .. DROP CONSTRAINT names live constraints of tables on the
     server, nothing of the MetaData is left; CircularDependencyError only for a cycle of unnamed constraints within E;
  C  create_all() with E on the server: no CREATE TABLE for a table of E, no ALTER .. ADD of a constraint that a table of E has
     already (a server answers "already exists" for a named one and silently doubles an unnamed one); REFERENCES targets exist
     (before the call or created earlier in it); afterwards every table and every constraint exists exactly once.

Scope: see coverage.scope.
"""
import itertools
import json
import re
import time

from rtc import ormharness as H

LEVEL = "exploration"
FN_STC = "sql/ddl.py::sort_tables_and_constraints"
FN_ST = "sql/ddl.py::sort_tables"
FN_E2E = "sql/ddl.py::SchemaGenerator/SchemaDropper.visit_metadata"

KINDS = {"N": (True, False), "A": (False, False), "U": (True, True), "V": (False, True)}  # kind -> (named, use_alter)


def _multisets(kinds, upto=2):
    out = [()]
    for k in range(1, upto + 1):
        out += list(itertools.combinations_with_replacement(kinds, k))
    return out


ALPHABETS = {
    "a15": _multisets("NAUV"),                                             # 0, 1 or 2 constraints of any of the 4 kinds
    "a10": _multisets("NAU"),                                              # same without unnamed use_alter
    "a7": [(), ("N",), ("A",), ("U",), ("N", "A"), ("N", "U"), ("A", "U")],  # two constraints only of different kinds
    "a6": [(), ("N",), ("A",), ("U",), ("N", "A"), ("A", "U")],
    "a5": [(), ("N",), ("A",), ("U",), ("N", "A")],
    "a4": [(), ("N",), ("A",), ("U",)],
    "a4na": [(), ("N",), ("A",), ("N", "A")],
    "a3": [(), ("N",), ("A",)],
    "a1": [()],
}

FILTERS = {
    "none": None,
    "const_none": lambda f: None,
    "dropper_alter": lambda f: False if f.name is None else None,     # what SchemaDropper passes when the dialect has ALTER
    "dropper_noalter": lambda f: False,                               # what SchemaDropper passes when it has not
    "named_true": lambda f: True if f.name is not None else None,     # what sort_tables derives from a skip_fn
    "named_true_unnamed_false": lambda f: True if f.name is not None else False,
}
SKIPS = {
    "none": None,
    "named": lambda fk: fk.constraint.name is not None,
    "const_false": lambda fk: False,
}


# ----------------------------------------------------------------------------------------------- families (the scope)
def families(tier):
    """each family: a finite set of labelled FK graphs (product of per-ordered-pair alphabets) + what is run on each"""
    q = tier == "quick"
    F_ALL = ["none", "const_none", "dropper_alter", "dropper_noalter", "named_true", "named_true_unnamed_false"]
    F_MAIN = ["none", "dropper_alter", "dropper_noalter", "named_true", "named_true_unnamed_false"]
    F_3 = ["none", "dropper_alter", "named_true_unnamed_false"]
    F_2 = ["none", "dropper_alter"]
    fams = [
        dict(name="fn1", mode="fn", n=1, off="a1", self_="a15", filters=F_ALL, skips=["none", "named"], extras="none"),
        dict(name="fn2", mode="fn", n=2, off="a15", self_="a5" if q else "a15", filters=F_ALL, skips=["none", "named"], extras="param1", extra_filters=F_2),
        dict(name="fn3", mode="fn", n=3, off="a6" if q else "a7", self_="a1", filters=F_3 if q else F_MAIN, skips=["none"] if q else ["none", "named"], extras="none",
             subsets=True, subset_filters=F_2),
        dict(name="fn3self", mode="fn", n=3, off="a3" if q else "a4na", self_="a3", max_self=1, filters=F_3 if q else F_MAIN, skips=["none"], extras="none"),
        dict(name="ext3", mode="ext", n=3, off="a4", self_="a1", filters=F_2 if q else F_3),
        dict(name="dep3", mode="dep", n=3, off="a3", self_="a1", max_pairs=4 if q else None, filters=F_2),
        dict(name="e2e2", mode="e2e", n=2, off="a10", self_="a5" if q else "a10"),
        dict(name="e2e3", mode="e2e", n=3, off="a5", self_="a1", max_pairs=4 if q else None),
        dict(name="cf2", mode="cf", n=2, off="a10", self_="a4" if q else "a10"),
        dict(name="cf3", mode="cf", n=3, off="a4" if q else "a5", self_="a1", max_pairs=4 if q else None),
    ]
    if not q:
        fams += [
            dict(name="fn3wide", mode="fn", n=3, off="a10", self_="a1", filters=F_2, skips=["none"], extras="none"),
            dict(name="fn3selfwide", mode="fn", n=3, off="a7", self_="a3", max_self=1, filters=F_3, skips=["none"], extras="none"),
            dict(name="fn4", mode="fn", n=4, off="a3", self_="a1", filters=F_2, skips=["none"], extras="none"),
            dict(name="fn4u", mode="fn", n=4, off="a5", self_="a1", max_pairs=4, filters=F_3, skips=["none"], extras="none"),
            dict(name="e2e3wide", mode="e2e", n=3, off="a6", self_="a1"),
            dict(name="e2e3self", mode="e2e", n=3, off="a4na", self_="a3", max_self=1),
            dict(name="e2e4", mode="e2e", n=4, off="a3", self_="a1", max_pairs=5),
            dict(name="cf3self", mode="cf", n=3, off="a4", self_="a3", max_self=1, max_pairs=4),
            dict(name="cf4", mode="cf", n=4, off="a4", self_="a1", max_pairs=4),
        ]
    return fams


def positions(n):
    return [(i, j) for i in range(n) for j in range(n) if i != j] + [(i, i) for i in range(n)]


def fam_alphabets(fam):
    n = fam["n"]
    return [ALPHABETS[fam["off"]] if i != j else ALPHABETS[fam["self_"]] for i, j in positions(n)]


_PERMIDX = {}


def perm_index_maps(n):
    """for every relabelling pi of the tables: the position permutation it induces on the spec vector"""
    if n not in _PERMIDX:
        pos = positions(n)
        at = {p: k for k, p in enumerate(pos)}
        maps = []
        for pi in itertools.permutations(range(n)):
            if pi == tuple(range(n)):
                continue
            # new vector w with w[(pi(i),pi(j))] = v[(i,j)]  <=>  w[k] = v[src[k]]
            src = [0] * len(pos)
            for (i, j), k in at.items():
                src[at[(pi[i], pi[j])]] = k
            maps.append(src)
        _PERMIDX[n] = maps
    return _PERMIDX[n]


def is_canonical(n, vec):
    """vec (option indices per position) is the least among its relabellings -> one representative per isomorphism class"""
    for src in perm_index_maps(n):
        for k in range(len(vec)):
            a, b = vec[src[k]], vec[k]
            if a != b:
                if a < b:
                    return False
                break
    return True


def fam_jobs(fam, min_jobs=48):
    alph = fam_alphabets(fam)
    k, size = 0, 1
    while k < len(alph) and size < min_jobs:
        size *= len(alph[k])
        k += 1
    return [dict(family=fam["name"], prefix=list(p), length=len(alph) - k) for p in itertools.product(*[range(len(a)) for a in alph[:k]])]


def job_specs(fam, job):
    """the labelled specs (vectors of option indices) of one job, after the family's own restrictions"""
    n = fam["n"]
    alph = fam_alphabets(fam)
    pre = tuple(job["prefix"])
    noff = n * (n - 1)
    max_pairs, max_self = fam.get("max_pairs"), fam.get("max_self")
    for rest in itertools.product(*[range(len(a)) for a in alph[len(pre):]]):
        vec = pre + rest
        if max_pairs is not None and sum(1 for x in vec[:noff] if x) > max_pairs:
            continue
        if max_self is not None and sum(1 for x in vec[noff:] if x) > max_self:
            continue
        yield vec


def spec_fks(fam, vec):
    """[[i, j, slot, kind], ...] — table i has a constraint on its column r{j}_{slot} referencing t{j}.id"""
    alph = fam_alphabets(fam)
    out = []
    for (i, j), a, x in zip(positions(fam["n"]), alph, vec):
        for slot, kind in enumerate(a[x]):
            out.append([i, j, slot, kind])
    return out


# ----------------------------------------------------------------------------------------------- real objects
def build(n, fks, decl=None, deps=()):
    """real MetaData / Table / ForeignKeyConstraint objects for a spec.  deps: [(p, t)] -> t.add_is_dependent_on(p)"""
    from sqlalchemy import Column, ForeignKeyConstraint, Integer, MetaData, Table
    m = MetaData()
    per = {i: [] for i in range(n)}
    for i, j, slot, kind in fks:
        per[i].append((j, slot, kind))
    tabs = {}
    for i in (decl if decl is not None else range(n)):
        cols = [Column("id", Integer, primary_key=True)]
        cons = []
        for j, slot, kind in per[i]:
            named, alter = KINDS[kind]
            cols.append(Column(f"r{j}_{slot}", Integer))
            cons.append(ForeignKeyConstraint([f"r{j}_{slot}"], [f"t{j}.id"], name=f"fk_{i}_{j}_{slot}" if named else None, use_alter=alter))
        tabs[i] = Table(f"t{i}", m, *cols, *cons)
    for p, t in deps:
        tabs[t].add_is_dependent_on(tabs[p])
    tabs = [tabs[i] for i in range(n)]
    lab = {}
    for i, j, slot, kind in fks:
        (fk,) = tabs[i].c[f"r{j}_{slot}"].foreign_keys
        lab[fk.constraint] = (i, j, slot, kind)
    return m, tabs, lab


def fname(l):
    i, j, slot, kind = l
    return f"t{i}.r{j}_{slot}->t{j}[{kind}]"


# ----------------------------------------------------------------------------------------------- oracle helpers
def on_cycle(nodes, edges):
    """nodes that lie on a directed cycle of `edges` (pairs), by transitive closure — small graphs"""
    reach = {a: set() for a in nodes}
    for a, b in edges:
        if a in reach and b in reach:
            reach[a].add(b)
    changed = True
    while changed:
        changed = False
        for a in nodes:
            new = set()
            for b in reach[a]:
                new |= reach[b]
            if not new <= reach[a]:
                reach[a] |= new
                changed = True
    return {a for a in nodes if a in reach[a]}


def fvalue(filt, fkc):
    f = FILTERS[filt]
    return None if f is None else f(fkc)


def judge_stc(tabs, lab, order, filt, extras, result, exc):
    """contract of sort_tables_and_constraints on one real call.  order: input table indices; extras: [(p, t)] indices.
    -> (broken sentences, broken kinds, info)"""
    from sqlalchemy.exc import CircularDependencyError
    S = list(order)
    inS = set(S)
    tindex = {id(t): i for i, t in enumerate(tabs)}
    own = {i: [f for f, l in lab.items() if l[0] == i] for i in S}
    cls = {}
    for i in S:
        for f in own[i]:
            v = fvalue(filt, f)
            cls[f] = "rest" if (lab[f][3] in "UV" or v is True) else ("inline" if v is False else "free")
    hard = [(lab[f][1], lab[f][0]) for f in cls if cls[f] == "inline" and lab[f][1] != lab[f][0] and lab[f][1] in inS] + \
           [(p, t) for p, t in extras if p in inS and t in inS]
    g0 = hard + [(lab[f][1], lab[f][0]) for f in cls if cls[f] == "free" and lab[f][1] != lab[f][0] and lab[f][1] in inS]
    cyc0 = on_cycle(S, g0)
    info = dict(cyclic=bool(cyc0), hard_cyclic=bool(on_cycle(S, hard)))
    broken, kinds = [], []

    def bad(kind, text):
        broken.append(text)
        kinds.append(kind)   # parallel to `broken`
    if exc is not None:
        if isinstance(exc, CircularDependencyError):
            info["raised"] = True
            if not info["hard_cyclic"]:
                bad("raise:CircularDependencyError-although-removable", "CircularDependencyError although the constraints that must stay inline + explicit "
                    "dependencies are acyclic: " + str(sorted(hard)))
        else:
            bad("raise:" + type(exc).__name__, f"raised {type(exc).__name__}: {str(exc)[:160]}")
        return broken, kinds, info
    # (1)
    if not result or result[-1][0] is not None:
        bad("1:last-entry", "last entry is not (None, rest)")
        return broken, kinds, info
    R, rest = result[:-1], list(result[-1][1])
    got = [tindex.get(id(t), -1) for t, _ in R]
    if sorted(got) != sorted(S):
        bad("1:not-a-permutation", f"(1) tables returned {got} are not a permutation of the input {S}")
        return broken, kinds, info
    at = {i: k for k, i in enumerate(got)}
    info["order"] = got
    # (2)
    count = {}
    for t, fkcs in R:
        i = tindex[id(t)]
        for f in fkcs:
            if f not in lab or lab[f][0] != i:
                bad("2:foreign-constraint-inline", f"(2) inline collection of t{i} holds a constraint that is not its own")
            count[f] = count.get(f, 0) + 1
    for f in rest:
        if f not in cls:
            bad("2:foreign-constraint-in-rest", "(2) rest holds a constraint of no input table")
        count[f] = count.get(f, 0) + 1
    for f in cls:
        if count.get(f, 0) != 1:
            bad("2:fkc-count", f"(2) {fname(lab[f])} occurs {count.get(f, 0)} times (inline + rest)")
    restset = set(rest)
    info["rest"] = sorted(fname(lab[f]) for f in rest if f in lab)
    # (3)
    for t, fkcs in R:
        i = tindex[id(t)]
        for f in fkcs:
            if f not in lab:
                continue
            j = lab[f][1]
            if j == i or j not in inS or at[j] < at[i]:
                continue
            sib = [g for g in own[i] if g is not f and lab[g][1] == j and g in restset and fvalue(filt, g) is not False]
            if cls.get(f) == "inline" and sib:
                bad("3:unremovable-inline-fk-to-later-table-with-removable-sibling-deferred",
                    f"(3) {fname(lab[f])} (filter_fn False) is inline in t{i} at index {at[i]} but t{j} is at index {at[j]}; "
                    f"its sibling {fname(lab[sib[0]])} (filter_fn not False) is deferred and the ordering edge was discarded with it")
            else:
                bad("3:inline-fk-to-later-table", f"(3) {fname(lab[f])} is inline in t{i} at index {at[i]} but t{j} is at index {at[j]}")
    for p, t in extras:
        if p in inS and t in inS and p != t and not at[p] < at[t]:
            bad("3:explicit-dependency-order", f"(3) explicit dependency t{t} depends on t{p}, but t{p} is at index {at[p]}, t{t} at {at[t]}")
    # (4)
    for f, c in cls.items():
        if c == "rest" and f not in restset:
            bad("4:alter-or-filter-true-not-in-rest", f"(4) {fname(lab[f])} (use_alter or filter_fn True) is not in rest")
        if c == "inline" and f in restset:
            bad("4:filter-false-not-inline", f"(4) {fname(lab[f])} (filter_fn False) is in rest")
    # (5)
    for f, c in cls.items():
        if c == "free" and f in restset and lab[f][0] not in cyc0:
            bad("5:deferred-without-cycle", f"(5) {fname(lab[f])} deferred to rest although t{lab[f][0]} is on no dependency cycle")
    return broken, kinds, info


def judge_st(tabs, lab, order, skip, extras, result, exc):
    S = list(order)
    inS = set(S)
    tindex = {id(t): i for i, t in enumerate(tabs)}
    broken, kinds = [], []

    def bad(kind, text):
        broken.append(text)
        kinds.append(kind)   # parallel to `broken`
    sk = SKIPS[skip]
    deps = []
    for f, l in lab.items():
        if l[0] not in inS or l[1] not in inS or l[0] == l[1] or l[3] in "UV":
            continue
        if sk is not None and any(sk(fk) for fk in f.elements):
            continue
        deps.append((l[1], l[0]))
    ex = [(p, t) for p, t in extras if p in inS and t in inS]
    cyc = on_cycle(S, deps + ex)
    info = dict(cyclic=bool(cyc))
    if exc is not None:
        from sqlalchemy.exc import CircularDependencyError
        if isinstance(exc, CircularDependencyError) and on_cycle(S, ex):
            info["raised"] = True
        else:
            bad("raise:" + type(exc).__name__, f"raised {type(exc).__name__}: {str(exc)[:160]}")
        return broken, kinds, info
    got = [tindex.get(id(t), -1) for t in result]
    if sorted(got) != sorted(S):
        bad("1:not-a-permutation", f"(1) tables returned {got} are not a permutation of the input {S}")
        return broken, kinds, info
    at = {i: k for k, i in enumerate(got)}
    info["order"] = got
    for p, t in ex:
        if not at[p] < at[t]:
            bad("3:explicit-dependency-order", f"explicit dependency t{t} depends on t{p}, but order is {got}")
    for p, t in deps:
        if t not in cyc and not at[p] < at[t]:
            bad("3:dependency-of-acyclic-table", f"t{t} (on no cycle) references t{p}, but order is {got}")
    return broken, kinds, info


def call_stc(tabs, order, filt, extras, via):
    from sqlalchemy.sql.ddl import sort_tables_and_constraints
    kw = {}
    if FILTERS[filt] is not None:
        kw["filter_fn"] = FILTERS[filt]
    if extras and via == "param":
        kw["extra_dependencies"] = [(tabs[p], tabs[t]) for p, t in extras]
    try:
        return sort_tables_and_constraints([tabs[i] for i in order], **kw), None
    except Exception as e:  # judged by the contract
        return None, e


def call_st(tabs, order, skip, extras, via):
    from sqlalchemy.sql.ddl import sort_tables
    kw = {}
    if SKIPS[skip] is not None:
        kw["skip_fn"] = SKIPS[skip]
    if extras and via == "param":
        kw["extra_dependencies"] = [(tabs[p], tabs[t]) for p, t in extras]
    try:
        return sort_tables([tabs[i] for i in order], **kw), None
    except Exception as e:
        return None, e


def by_kind(broken, kinds):
    """one (sentences, [kind]) pair per kind of broken clause: every kind is reported / matched against known findings on its own"""
    out = []
    for kind in sorted(set(kinds)):
        out.append(([b for b, k in zip(broken, kinds) if k == kind], [kind]))
    return out


def desc_fn(call, n, fks, order, flt, extras, via, broken, kinds, info):
    d = dict(call=call, n=n, fks=fks, order=list(order), extra=[list(e) for e in extras], extra_via=via, broken=broken, broken_kinds=kinds,
             result_order=info.get("order"), rest=info.get("rest"))
    d["skip_fn" if call == "sort_tables" else "filter"] = flt
    return d


# ----------------------------------------------------------------------------------------------- end to end
_ENG = {}
_LOG = []


def mock_engine(name):
    if name not in _ENG:
        from sqlalchemy import create_mock_engine
        url = {"postgresql": "postgresql+psycopg2://", "sqlite": "sqlite://"}[name]
        box = {}

        def ex(sql, *a, **k):
            _LOG.append(str(sql.compile(dialect=box["e"].dialect)))
        box["e"] = create_mock_engine(url, ex)
        _ENG[name] = box["e"]
    return _ENG[name]


def real_sqlite(reset=False):
    if reset and "real" in _ENG:
        _ENG.pop("real").dispose()
    if "real" not in _ENG:
        from sqlalchemy import create_engine, event
        from sqlalchemy.pool import StaticPool
        e = create_engine("sqlite://", poolclass=StaticPool)

        @event.listens_for(e, "connect")
        def _fk(dbapi_conn, rec):
            dbapi_conn.execute("PRAGMA foreign_keys=ON")
        _ENG["real"] = e
    return _ENG["real"]


_CATALOG = set()   # names of the tables that "exist on the server" for catalog_engine()


def catalog_engine(name):
    """a mock connection whose DDL visitors run with the caller's `checkfirst` (create_mock_engine forces it off): the
    dialect instance answers has_table / has_multi_table from _CATALOG, and CREATE TABLE / DROP TABLE statements that
    are "executed" update _CATALOG.  Only the server is doubled; SchemaGenerator / SchemaDropper are the real ones."""
    key = name + "+catalog"
    if key not in _ENG:
        from sqlalchemy import create_mock_engine
        from sqlalchemy.engine.mock import MockConnection
        url = {"postgresql": "postgresql+psycopg2://", "sqlite": "sqlite://"}[name]
        dialect = create_mock_engine(url, None).dialect     # a dialect instance of its own

        class CatalogConnection(MockConnection):
            def _run_ddl_visitor(self, visitorcallable, element, **kwargs):
                visitorcallable(dialect=self.dialect, connection=self, **kwargs).traverse_single(element)

        def ex(sql, *a, **k):
            text = str(sql.compile(dialect=dialect))
            _LOG.append(text)
            m = RX_CT.match(text)
            if m:
                _CATALOG.add(m.group(1))
            m = RX_DT.match(text)
            if m:
                _CATALOG.discard(m.group(1))
        dialect.has_table = lambda connection, table_name, schema=None, **kw: table_name in _CATALOG
        dialect.has_multi_table = lambda connection, table_names, schema=None, **kw: [((schema, t), t in _CATALOG) for t in table_names]
        _ENG[key] = CatalogConnection(dialect, ex)
    return _ENG[key]


def closed_subsets(n, fks, deps=()):
    """the subsets E of the tables that can exist on a server that enforces referenced-table existence: every table
    referenced by (or an explicit dependency of) a member of E is in E.  Includes () and all tables."""
    out = []
    for k in range(n + 1):
        for E in itertools.combinations(range(n), k):
            inE = set(E)
            if all(j in inE for i, j, slot, kind in fks if i in inE) and all(p in inE for p, t in deps if t in inE):
                out.append(E)
    return out


RX_CT = re.compile(r"^\s*CREATE TABLE (\w+)")
RX_FK = re.compile(r"(?:CONSTRAINT (\w+) )?FOREIGN KEY\((\w+)\) REFERENCES (\w+)")
RX_ADD = re.compile(r"^\s*ALTER TABLE (\w+) ADD (?:CONSTRAINT (\w+) )?FOREIGN KEY\((\w+)\) REFERENCES (\w+)")
RX_DROPC = re.compile(r"^\s*ALTER TABLE (\w+) DROP CONSTRAINT (\w+)")
RX_DT = re.compile(r"^\s*DROP TABLE (\w+)")


def e2e_graph(n, fks, deps):
    """oracle view of the spec: dependency edges by kind"""
    nodes = list(range(n))
    fk_edges = [(j, i) for i, j, slot, kind in fks if i != j and kind in "NA"]       # not use_alter
    unnamed_edges = [(j, i) for i, j, slot, kind in fks if i != j and kind == "A"]
    dep = [tuple(d) for d in deps]
    return nodes, fk_edges, unnamed_edges, dep


def judge_create(dialect, n, fks, deps, log, exc, existing=(), target=None):
    """existing: indices of the tables (with all their constraints) that are on the server before the call;
    target: indices passed as `tables=` (None: the whole MetaData)"""
    broken, kinds = [], []

    def bad(kind, text):
        broken.append(text)
        kinds.append(kind)   # parallel to `broken`
    nodes, fk_edges, unnamed_edges, dep = e2e_graph(n, fks, deps)
    if exc is not None:
        bad("create:raise:" + type(exc).__name__, f"create_all raised {type(exc).__name__}: {str(exc)[:160]}")
        return broken, kinds, {}
    before = [f"t{i}" for i in existing]
    want = sorted(set(existing) | set(nodes if target is None else target))
    tables, made, order = list(before), {}, []
    for i, j, slot, kind in fks:
        if i in existing:
            made[(f"t{i}", f"r{j}_{slot}")] = 1
    seen_alter = False
    for sql in log:
        m = RX_CT.match(sql)
        if m:
            name = m.group(1)
            if seen_alter:
                bad("create:create-after-alter", f"CREATE TABLE {name} after an ALTER TABLE .. ADD")
            if name in before:
                bad("create:table-exists", f"CREATE TABLE {name}, which exists already (checkfirst on)")
            elif name in tables:
                bad("create:table-twice", f"CREATE TABLE {name} twice")
            for cname, col, ref in RX_FK.findall(sql):
                if dialect == "postgresql" and ref != name and ref not in tables:
                    bad("create:references-missing-table", f"CREATE TABLE {name}: FOREIGN KEY({col}) REFERENCES {ref}, which does not exist yet "
                        f"(created so far: {tables})")
                made[(name, col)] = made.get((name, col), 0) + 1
            tables.append(name)
            order.append(name)
            continue
        m = RX_ADD.match(sql)
        if m:
            seen_alter = True
            name, cname, col, ref = m.groups()
            if dialect != "postgresql":
                bad("create:alter-on-dialect-without-alter", f"ALTER emitted on {dialect}: {sql.strip()[:80]}")
            if name not in tables or ref not in tables:
                bad("create:alter-missing-table", f"ALTER TABLE {name} ADD FOREIGN KEY({col}) REFERENCES {ref}: table missing (have {tables})")
            if made.get((name, col), 0) and name in before:
                bad("create:constraint-of-existing-table-added-again", f"ALTER TABLE {name} ADD {'CONSTRAINT ' + cname + ' ' if cname else ''}FOREIGN KEY({col}) "
                    f"REFERENCES {ref}: {name} existed before the call (checkfirst on) and has this constraint already")
            made[(name, col)] = made.get((name, col), 0) + 1
            continue
        bad("create:unexpected-statement", f"unexpected statement {sql.strip()[:80]}")
    if sorted(tables) != [f"t{i}" for i in want]:
        bad("create:tables", f"tables on the server {tables} (before the call: {before}), expected each of {[f't{i}' for i in want]} once")
    for i, j, slot, kind in fks:
        c = made.get((f"t{i}", f"r{j}_{slot}"), 0)
        exp = 1 if i in want else 0
        if c != exp and not (c > 1 and f"t{i}" in before and "create:constraint-of-existing-table-added-again" in kinds):
            bad("create:constraint-count", f"constraint {fname((i, j, slot, kind))} exists {c} times after the call, expected {exp}")
    at = {int(t[1:]): k for k, t in enumerate(order) if re.fullmatch(r"t\d", t)}
    at.update({i: -1 for i in existing})
    if sorted(at) == want and len(order) == len(set(order)):
        sub = [i for i in want]
        cyc = on_cycle(sub, [e for e in fk_edges + dep if e[0] in at and e[1] in at])
        for p, t in dep:
            if p in at and t in at and at[t] >= 0 and not at[p] < at[t]:
                bad("create:explicit-dependency-order", f"t{t} depends on t{p} (add_is_dependent_on) but creation order is {order}")
        for p, t in fk_edges:
            if p in at and t in at and at[t] >= 0 and t not in cyc and not at[p] < at[t]:
                bad("create:dependency-of-acyclic-table", f"t{t} (on no cycle) references t{p} but creation order is {order}")
    return broken, kinds, dict(order=order, alters=sum(1 for s in log if RX_ADD.match(s)))


def judge_drop(dialect, n, fks, deps, log, exc, existing=None):
    """existing: indices of the tables (with all their constraints) on the server before the call (None: all)"""
    from sqlalchemy.exc import CircularDependencyError
    broken, kinds = [], []

    def bad(kind, text):
        broken.append(text)
        kinds.append(kind)   # parallel to `broken`
    nodes, fk_edges, unnamed_edges, dep = e2e_graph(n, fks, deps)
    have = set(nodes if existing is None else existing)
    inh = lambda edges: [e for e in edges if e[0] in have and e[1] in have]   # noqa: E731
    info = {}
    if exc is not None:
        if dialect == "postgresql" and isinstance(exc, CircularDependencyError) and on_cycle(nodes, inh(unnamed_edges + dep)):
            info["raised"] = True
        else:
            bad("drop:raise:" + type(exc).__name__, f"drop_all raised {type(exc).__name__}: {str(exc)[:160]}")
        return broken, kinds, info
    live = {(f"t{i}", f"r{j}_{slot}"): (f"t{j}", kind, (i, j, slot, kind)) for i, j, slot, kind in fks if i in have}
    byname = {f"fk_{i}_{j}_{slot}": (f"t{i}", f"r{j}_{slot}") for i, j, slot, kind in fks if KINDS[kind][0]}
    tables = [f"t{i}" for i in nodes if i in have]
    dropped = []
    for sql in log:
        m = RX_DROPC.match(sql)
        if m:
            name, cname = m.groups()
            if dialect != "postgresql":
                bad("drop:alter-on-dialect-without-alter", f"ALTER emitted on {dialect}: {sql.strip()[:80]}")
            if dropped:
                bad("drop:alter-after-drop-table", f"ALTER TABLE {name} DROP CONSTRAINT {cname} after DROP TABLE {dropped}")
            key = byname.get(cname)
            if key is None or key not in live or key[0] != name or name not in tables:
                bad("drop:unknown-constraint", f"ALTER TABLE {name} DROP CONSTRAINT {cname}: no such live constraint (tables on the server: {tables})")
            else:
                del live[key]
            continue
        m = RX_DT.match(sql)
        if m:
            name = m.group(1)
            if name not in tables:
                bad("drop:table-missing", f"DROP TABLE {name}: does not exist")
                continue
            if dialect == "postgresql":
                for (owner, col), (ref, kind, l) in sorted(live.items()):
                    if ref == name and owner != name:
                        sib = [k for k in fks if k[0] == l[0] and k[1] == l[1] and k[3] in "NU"]
                        if kind == "A" and sib:
                            bad("drop:table-dropped-while-referenced-by-unnamed-fk-whose-named-sibling-was-dropped",
                                f"DROP TABLE {name} while {fname(l)} of {owner} still references it (its named sibling {fname(tuple(sib[0]))} was dropped by ALTER "
                                "and the ordering edge discarded with it)")
                        else:
                            bad("drop:table-dropped-while-referenced", f"DROP TABLE {name} while {fname(l)} of {owner} still references it")
            tables.remove(name)
            dropped.append(name)
            for key in [k for k in live if k[0] == name]:
                del live[key]
            continue
        bad("drop:unexpected-statement", f"unexpected statement {sql.strip()[:80]}")
    if tables:
        bad("drop:tables-left", f"tables left after drop_all: {tables}")
    info["order"] = dropped
    info["alters"] = sum(1 for s in log if RX_DROPC.match(s))
    at = {int(t[1:]): k for k, t in enumerate(dropped)}
    if sorted(at) == sorted(have) and len(dropped) == len(at):
        for p, t in inh(dep):
            if dialect == "postgresql" or not on_cycle(nodes, inh(fk_edges + dep)):
                if not at[t] < at[p]:
                    bad("drop:explicit-dependency-order", f"t{t} depends on t{p} (add_is_dependent_on) but drop order is {dropped}")
        if dialect != "postgresql" and not on_cycle(nodes, inh(fk_edges + dep)):
            for p, t in inh(fk_edges):
                if not at[t] < at[p]:
                    bad("drop:dependency-order", f"t{t} references t{p} (acyclic graph) but drop order is {dropped}")
    return broken, kinds, info


def run_mock(dialect, m):
    eng = mock_engine(dialect)
    del _LOG[:]
    exc = None
    try:
        m.create_all(eng, checkfirst=False)
    except Exception as e:
        exc = e
    clog = list(_LOG)
    del _LOG[:]
    dexc = None
    if exc is None:
        try:
            m.drop_all(eng, checkfirst=False)
        except Exception as e:
            dexc = e
    dlog = list(_LOG)
    del _LOG[:]
    return clog, exc, dlog, dexc


def run_real_sqlite(n, fks, deps, m, tabs):
    """-> (broken, kinds, info)"""
    broken, kinds = [], []
    nodes, fk_edges, unnamed_edges, dep = e2e_graph(n, fks, deps)
    acyclic = not on_cycle(nodes, fk_edges + dep)
    eng = real_sqlite()
    stage = "create_all"
    try:
        m.create_all(eng)
        if acyclic:
            stage = "insert"
            done = []
            with eng.begin() as conn:
                while len(done) < n:
                    for i in nodes:
                        if i not in done and all(p in done for p, t in fk_edges if t == i):
                            vals = {"id": 1}
                            for a, j, slot, kind in fks:
                                if a == i and j != i and kind in "NA":
                                    vals[f"r{j}_{slot}"] = 1
                            conn.execute(tabs[i].insert().values(**vals))
                            done.append(i)
        stage = "drop_all"
        m.drop_all(eng)
        stage = "inspect"
        with eng.connect() as conn:
            left = [r[0] for r in conn.exec_driver_sql("select name from sqlite_master where type='table'")]
        if left:
            broken.append(f"real SQLite: tables left after drop_all: {left}")
            kinds.append("sqlite:tables-left")
            real_sqlite(reset=True)
    except Exception as e:
        broken.append(f"real SQLite (foreign_keys=ON, rows={'yes' if acyclic else 'no'}): {stage} raised {type(e).__name__}: {str(e)[:160]}")
        kinds.append(f"sqlite:{stage}:{type(e).__name__}")
        real_sqlite(reset=True)
    return broken, kinds, dict(rows=acyclic)


def e2e_case(n, fks, deps):
    """all end-to-end clauses for one spec -> list of failure descriptors, info"""
    fails = []
    m, tabs, lab = build(n, fks, deps=deps)
    info = {}
    for dialect in ("sqlite", "postgresql"):          # sqlite first: AddConstraint on postgresql marks constraints as isolated
        clog, cexc, dlog, dexc = run_mock(dialect, m)
        b, k, ci = judge_create(dialect, n, fks, deps, clog, cexc)
        for b1, k1 in by_kind(b, k):
            fails.append(dict(call="create_all", dialect=dialect, n=n, fks=fks, deps=[list(d) for d in deps], broken=b1, broken_kinds=k1,
                              statements=[s.strip() for s in clog]))
        if b:
            pass
        elif cexc is None:
            b, k, di = judge_drop(dialect, n, fks, deps, dlog, dexc)
            for b1, k1 in by_kind(b, k):
                fails.append(dict(call="drop_all", dialect=dialect, n=n, fks=fks, deps=[list(d) for d in deps], broken=b1, broken_kinds=k1,
                                  statements=[s.strip() for s in dlog]))
            info[dialect] = dict(alters=ci.get("alters", 0), drop_raised=bool(di.get("raised")))
        if dialect == "sqlite":
            b, k, ri = run_real_sqlite(n, fks, deps, m, tabs)
            for b1, k1 in by_kind(b, k):
                fails.append(dict(call="real", dialect="sqlite", n=n, fks=fks, deps=[list(d) for d in deps], broken=b1, broken_kinds=k1))
            info["rows"] = ri.get("rows")
    return fails, info


def run_catalog(dialect, m, call, existing_names, tables=None):
    """one real MetaData.create_all / drop_all with checkfirst=True against the catalog double -> (statements, exception)"""
    eng = catalog_engine(dialect)
    _CATALOG.clear()
    _CATALOG.update(existing_names)
    del _LOG[:]
    exc = None
    try:
        if tables is None:
            getattr(m, call)(eng, checkfirst=True)
        else:
            getattr(m, call)(eng, checkfirst=True, tables=tables)
    except Exception as e:
        exc = e
    log = list(_LOG)
    del _LOG[:]
    return log, exc


CF_STEPS = ("A:create_all(tables=E) on an empty server", "B:drop_all() with E on the server", "C:create_all() with E on the server")


def e2e_cf_case(n, fks, deps, E):
    """checkfirst on, server holds the tables E (closed under references): all clauses -> failure descriptors, info"""
    fails = []
    m, tabs, lab = build(n, fks, deps=deps)
    E = list(E)
    info = {}
    for dialect in ("sqlite", "postgresql"):          # sqlite first: AddConstraint on postgresql marks constraints as isolated
        alters = 0
        steps = [("create_all", (), E), ("drop_all", E, None), ("create_all", E, None)]
        for step, (call, existing, target) in zip(CF_STEPS, steps):
            log, exc = run_catalog(dialect, m, call, [f"t{i}" for i in existing], None if target is None else [tabs[i] for i in target])
            if call == "create_all":
                b, k, ji = judge_create(dialect, n, fks, deps, log, exc, existing=existing, target=target)
            else:
                b, k, ji = judge_drop(dialect, n, fks, deps, log, exc, existing=existing)
            alters += ji.get("alters", 0)
            for b1, k1 in by_kind(b, k):
                fails.append(dict(call=call, dialect=dialect, n=n, fks=fks, deps=[list(d) for d in deps], checkfirst=True, step=step,
                                  server_before=[f"t{i}" for i in existing], tables_arg=None if target is None else [f"t{i}" for i in target],
                                  E=E, broken=b1, broken_kinds=k1, statements=[s.strip() for s in log]))
            if b:
                break      # later steps start from the state this one should have reached
        info[dialect] = dict(alters=alters)
    return fails, info


# ----------------------------------------------------------------------------------------------- worker
def _worker(job):
    H.quiet()
    t_job = time.time()
    fam = job["fam"]
    n = fam["n"]
    mode = fam["mode"]
    res = dict(evaluations=0, nontrivial=0, graphs=0, failures=[], samples=[], legit_circular=0, per_family={fam["name"]: 0},
               graphs_per_family={fam["name"]: 0})
    perms = list(itertools.permutations(range(n)))
    pairs = [(p, t) for p in range(n) for t in range(n) if p != t]

    def account(call, fks, order, flt, extras, via, broken, kinds, info, fn):
        res["evaluations"] += 1
        res["per_family"][fam["name"]] += 1
        if broken:
            for b1, k1 in by_kind(broken, kinds):
                res["failures"].append(dict(function=fn, desc=desc_fn(call, n, fks, order, flt, extras, via, b1, k1, info)))
            return
        nt = info.get("cyclic") or info.get("rest") or info.get("raised")
        if nt:
            res["nontrivial"] += 1
        if info.get("raised"):
            res["legit_circular"] += 1
        if nt and info.get("rest") and len(res["samples"]) < 1 and len(fks) >= n:
            res["samples"].append(dict(family=fam["name"], call=call, fks=[fname(f) for f in fks], input_order=list(order), filter=flt,
                                       extra=[list(e) for e in extras], result_order=info.get("order"), rest=info.get("rest")))

    for vec in job_specs(fam, job):
        if mode == "fn" and not is_canonical(n, vec):
            continue
        fks = spec_fks(fam, vec)
        res["graphs"] += 1
        res["graphs_per_family"][fam["name"]] += 1
        if mode == "e2e":
            fails, info = e2e_case(n, fks, ())
            res["evaluations"] += 1
            res["per_family"][fam["name"]] += 1
            for f in fails:
                res["failures"].append(dict(function=FN_E2E + f"/{f['call']}/{f['dialect']}", desc=f))
            if not fails:
                pg = info.get("postgresql", {})
                if pg.get("alters") or pg.get("drop_raised"):
                    res["nontrivial"] += 1
                    if len(res["samples"]) < 1 and len(fks) >= n:
                        res["samples"].append(dict(family=fam["name"], call="create_all+drop_all", fks=[fname(f) for f in fks],
                                                   postgresql_alter_statements=pg.get("alters"), drop_all_circular_error=pg.get("drop_raised"),
                                                   sqlite_rows_inserted=info.get("rows")))
            continue
        if mode == "cf":
            for E in closed_subsets(n, fks):
                fails, info = e2e_cf_case(n, fks, (), E)
                res["evaluations"] += 1
                res["per_family"][fam["name"]] += 1
                for f in fails:
                    res["failures"].append(dict(function=FN_E2E + f"/{f['call']}/{f['dialect']}", desc=f))
                if not fails and (0 < len(E) < n or info["postgresql"]["alters"]):
                    res["nontrivial"] += 1
                    if len(res["samples"]) < 1 and 0 < len(E) < n and info["postgresql"]["alters"]:
                        res["samples"].append(dict(family=fam["name"], call="checkfirst=True: " + "; ".join(CF_STEPS), fks=[fname(f) for f in fks],
                                                   E=[f"t{i}" for i in E], postgresql_alter_statements=info["postgresql"]["alters"]))
            continue
        if mode == "dep":
            # explicit dependencies through Table.add_is_dependent_on: every single edge, tables rebuilt; also end to end
            for e in pairs:
                m, tabs, lab = build(n, fks, deps=[e])
                for order in perms:
                    for flt in fam["filters"]:
                        result, exc = call_stc(tabs, order, flt, [e], "add_is_dependent_on")
                        b, k, info = judge_stc(tabs, lab, order, flt, [e], result, exc)
                        account("sort_tables_and_constraints", fks, order, flt, [e], "add_is_dependent_on", b, k, info, FN_STC)
                    result, exc = call_st(tabs, order, "none", [e], "add_is_dependent_on")
                    b, k, info = judge_st(tabs, lab, order, "none", [e], result, exc)
                    account("sort_tables", fks, order, "none", [e], "add_is_dependent_on", b, k, info, FN_ST)
                fails, info = e2e_case(n, fks, [e])
                res["evaluations"] += 1
                res["per_family"][fam["name"]] += 1
                for f in fails:
                    res["failures"].append(dict(function=FN_E2E + f"/{f['call']}/{f['dialect']}", desc=f))
            continue
        m, tabs, lab = build(n, fks)
        if mode == "ext":
            extra_sets = [[e] for e in pairs] + [list(c) for c in itertools.combinations(pairs, 2)]
            for extras in extra_sets:
                for order in ((perms[0], perms[-1]) if len(extras) == 1 else (perms[0],)):
                    for flt in (fam["filters"] if len(extras) == 1 else fam["filters"][:1]):
                        result, exc = call_stc(tabs, order, flt, extras, "param")
                        b, k, info = judge_stc(tabs, lab, order, flt, extras, result, exc)
                        account("sort_tables_and_constraints", fks, order, flt, extras, "param", b, k, info, FN_STC)
                    if len(extras) == 1:
                        result, exc = call_st(tabs, order, "named", extras, "param")
                        b, k, info = judge_st(tabs, lab, order, "named", extras, result, exc)
                        account("sort_tables", fks, order, "named", extras, "param", b, k, info, FN_ST)
            continue
        # mode fn
        plans = [([], list(perms), fam["filters"], fam["skips"])]
        if fam.get("subsets") and n >= 3:
            plans.append(([], list(itertools.combinations(range(n), n - 1)), fam["subset_filters"], ["none"]))
        if fam.get("extras") == "param1":
            plans += [([e], list(perms), fam["extra_filters"], ["none"]) for e in pairs]
        for extras, orders, filters, skips in plans:
            for order in orders:
                for flt in filters:
                    result, exc = call_stc(tabs, order, flt, extras, "param")
                    b, k, info = judge_stc(tabs, lab, order, flt, extras, result, exc)
                    account("sort_tables_and_constraints", fks, order, flt, extras, "param", b, k, info, FN_STC)
                for skip in skips:
                    result, exc = call_st(tabs, order, skip, extras, "param")
                    b, k, info = judge_st(tabs, lab, order, skip, extras, result, exc)
                    account("sort_tables", fks, order, skip, extras, "param", b, k, info, FN_ST)
    # keep the failure list of one job small: the smallest per (function, kinds)
    best = {}
    for f in res["failures"]:
        key = (f["function"], tuple(f["desc"]["broken_kinds"]), f["desc"].get("filter"), f["desc"].get("dialect"))
        if key not in best or _size(f) < _size(best[key][0]):
            best[key] = [f, 0]
        best[key][1] += 1
    res["failure_count"] = len(res["failures"])
    res["cpu_s_per_family"] = {fam["name"]: time.time() - t_job}
    res["failures"] = [dict(b[0], same_class_in_job=b[1]) for b in best.values()]
    return res


def _size(f):
    d = f["desc"]
    return (d["n"], len(d["fks"]), len(d.get("extra") or d.get("deps") or ()), json.dumps(d, sort_keys=True, default=repr))


# ----------------------------------------------------------------------------------------------- entry points
def run(run, tier, seed, args):
    t0 = time.time()
    fams = families(tier)
    joblist = []
    for fam in fams:
        for j in fam_jobs(fam, min_jobs=64 if fam["n"] >= 3 else 16):
            j["fam"] = fam
            joblist.append(j)
    if seed:
        import random
        random.Random(seed).shuffle(joblist)
    import sqlalchemy.sql.ddl  # noqa: F401  (imported before forking: workers share the loaded modules, nothing mapped or connected)
    import sqlalchemy.dialects.postgresql  # noqa: F401
    import sqlalchemy.dialects.sqlite  # noqa: F401
    import gc
    gc.collect()
    gc.freeze()   # the forked workers do not re-traverse (and copy) the parent's heap
    agg = H.Agg()
    for r in H.run_sharded(_worker, joblist):
        agg.add(r)
    report(run, agg.get("failures", []))
    scope = []
    for fam in fams:
        g = agg["graphs_per_family"].get(fam["name"], 0)
        off, self_ = ALPHABETS[fam["off"]], ALPHABETS[fam["self_"]]
        what = {"fn": f"sort_tables_and_constraints x ALL input orders x filter_fn in {fam.get('filters')}; sort_tables x ALL input orders x skip_fn in {fam.get('skips')}"
                      + (f"; both functions on every (n-1)-subset of the tables x filter_fn in {fam.get('subset_filters')}" if fam.get("subsets") else "")
                      + (f"; both functions x ALL input orders x extra_dependencies = every single edge x filter_fn in {fam.get('extra_filters')}"
                         if fam.get("extras") == "param1" else "") + "; "
                      "one representative per isomorphism class (relabelling of tables), which together with all input orders covers every labelled graph",
                "ext": f"every labelled graph x extra_dependencies = every single explicit edge x input order (declared, reversed) x filter_fn in {fam.get('filters')} "
                       f"(+ sort_tables with skip_fn named), and every set of 2 explicit edges x declared order x filter_fn {fam.get('filters', ['none'])[0]}",
                "dep": f"every labelled graph x every single Table.add_is_dependent_on edge (tables rebuilt) x ALL input orders x filter_fn in {fam.get('filters')}, + end to end",
                "e2e": "every labelled graph, tables declared t0..tn: create_all + drop_all (checkfirst=False) through create_mock_engine for sqlite and postgresql, "
                       "and create_all / insert / drop_all on real SQLite :memory: with foreign_keys=ON",
                "cf": "every labelled graph, tables declared t0..tn, x every subset E of the tables that is closed under references (the states a server that "
                      "enforces referenced-table existence can be in; includes none and all), checkfirst=True, for sqlite and postgresql DDL against a catalog "
                      "double that answers has_table: " + "; ".join(CF_STEPS)}[fam["mode"]]
        lim = "".join([f", at most {fam['max_pairs']} ordered pairs with a constraint" if fam.get("max_pairs") is not None else "",
                       f", at most {fam['max_self']} self-referential table" if fam.get("max_self") is not None else ""])
        scope.append(f"[{fam['name']}] {fam['n']} table(s); per ordered pair of distinct tables the constraints are one of {['+'.join(o) or '-' for o in off]}; "
                     f"self reference one of {['+'.join(o) or '-' for o in self_]}{lim}: {g} graphs; {what}")
    run.coverage.update(
        evaluations=agg["evaluations"],
        distinct_nontrivial=agg["nontrivial"],
        rule="every (graph, call, input order, filter, explicit dependencies) combination of the scope is enumerated once, so all evaluations are distinct; "
             "one is non-trivial when the dependency graph seen by the call has a cycle (the cycle-resolution branch runs), or at least one constraint "
             "was deferred to the ALTER list, or CircularDependencyError was (legitimately) raised; for end-to-end cases when PostgreSQL DDL contained "
             "ALTER statements or drop_all legitimately raised; for checkfirst cases (one evaluation = one (graph, server state E) pair, 3 calls x 2 "
             "dialects) when E is a proper non-empty subset of the tables or PostgreSQL DDL contained ALTER statements; acyclic graphs without "
             "use_alter count as trivial",
        samples=pick_samples(agg.get("samples", [])),
        exhaustive=True,
        scope="kinds: N named, A unnamed, U named use_alter, V unnamed use_alter; every constraint has its own column.  " + "  ".join(scope),
        graphs=agg["graphs"],
        graphs_per_family=agg["graphs_per_family"],
        evaluations_per_family=agg["per_family"],
        legitimate_CircularDependencyError=agg["legit_circular"],
        contract_failures=agg.get("failure_count", 0),
        worker_s_per_family={k: round(v, 1) for k, v in agg["cpu_s_per_family"].items()},
        enumeration_wall_s=round(time.time() - t0, 1),
    )
    run.assumptions += [
        "the catalog that judges PostgreSQL DDL enforces only existence of referenced tables at CREATE / ALTER time and absence of referencing "
        "constraints at DROP TABLE time (no CASCADE); a real PostgreSQL server is not contacted",
        "end-to-end cases use use_alter only on named constraints (DROP CONSTRAINT of an unnamed constraint is a documented CompileError)",
        "checkfirst=True is explored against a catalog double (table existence only; no indexes, sequences or types to check); the server "
        "states explored are the reference-closed subsets of the MetaData's tables, each table with all of its constraints",
        "SQLite does not enforce table existence at CREATE time; its drop order is only judged with rows present on acyclic graphs (on a cycle the "
        "documented SAWarning says tables are dropped unsorted)",
        "single-column foreign keys to the primary key, no schemas, no Table-via-select dependencies, no indexes / sequences",
        "bounded: more tables or more constraints per pair than stated are not covered",
    ]


def pick_samples(samples, per=1):
    out, cnt = [], {}
    for smp in sorted(samples, key=lambda x: (-len(x["fks"]), json.dumps(x, sort_keys=True))):
        if cnt.get(smp["family"], 0) < per:
            cnt[smp["family"]] = cnt.get(smp["family"], 0) + 1
            out.append(smp)
    return out


def report(run, failures):
    seen = {}
    for f in sorted(failures, key=_size):
        d = f["desc"]
        k = run.match_known(function=f["function"], input=json.dumps(d, sort_keys=True, default=repr))
        if k is not None:
            run.known_finding(k, "bounded replay on the real functions")
            continue
        cls = (f["function"], tuple(d["broken_kinds"]))
        if cls in seen or len(seen) >= 10:   # one replay file (the smallest case) per class of broken clauses
            continue
        seen[cls] = True
        name = f"{d['call']}-{d.get('dialect') or d.get('filter') or d.get('skip_fn')}-n{d['n']}-" + "_".join(fname(x) for x in d["fks"]) + \
               "-o" + "".join(str(i) for i in d.get("order", ())) + "-x" + "".join(f"{p}{t}" for p, t in (d.get("extra") or d.get("deps") or ()))
        if d.get("checkfirst"):
            name += f"-checkfirst-step{d['step'][0]}-E" + "".join(str(i) for i in d["E"])
        run.violation(name, dict(function=f["function"], input=d, expected="every contract clause of the module docstring holds",
                                 actual=d["broken"], reason="bounded run-time contract check"))


def replay(data):
    H.quiet()
    d = data["input"]
    n, fks = d["n"], [list(x) for x in d["fks"]]
    call = d["call"]
    if call in ("sort_tables_and_constraints", "sort_tables"):
        extras = [tuple(e) for e in d.get("extra", [])]
        via = d.get("extra_via", "param")
        m, tabs, lab = build(n, fks, deps=extras if via == "add_is_dependent_on" else ())
        if call == "sort_tables":
            result, exc = call_st(tabs, d["order"], d["skip_fn"], extras, via)
            broken, kinds, info = judge_st(tabs, lab, d["order"], d["skip_fn"], extras, result, exc)
        else:
            result, exc = call_stc(tabs, d["order"], d["filter"], extras, via)
            broken, kinds, info = judge_stc(tabs, lab, d["order"], d["filter"], extras, result, exc)
    else:
        if d.get("checkfirst"):
            fails, info = e2e_cf_case(n, fks, [tuple(e) for e in d.get("deps", [])], d["E"])
            fails = [f for f in fails if f["step"] == d["step"]]
        else:
            fails, info = e2e_case(n, fks, [tuple(e) for e in d.get("deps", [])])
        broken, kinds = [], []
        for f in fails:
            if f["call"] == call and f["dialect"] == d["dialect"]:
                broken += f["broken"]
                kinds += f["broken_kinds"] * len(f["broken"])
    if d.get("broken_kinds"):   # the replay file is about these kinds of broken clause only
        broken = [b for b, k in zip(broken, kinds) if k in d["broken_kinds"]]
    what = f"{call} n={n} fks={[fname(x) for x in fks]} " + " ".join(f"{k}={d[k]}" for k in ("order", "filter", "skip_fn", "extra", "deps", "dialect", "checkfirst", "E", "step") if d.get(k))
    if broken:
        print(f"REPLAY-FAILS {data.get('function')} {what} broken={broken}")
        return 1
    print(f"REPLAY-PASSES {data.get('function')} {what}")
    return 0
