"""C48 — pending changes survive the application dropping its references: InstanceState._modified_event under proof (a state
attached to a session and marked modified holds a strong reference to its object on every exit, including the autobegin
raising), histories with dropped references + gc on SQLite (checks/C48_explore.py) as the bounded complement."""
import contracts.state_modified  # noqa: F401
from vlib.wrap import run_proof_and_explore
from checks import C48_explore

LEVEL = "proof"
replay = C48_explore.replay


def run(run, tier, seed, args):
    run_proof_and_explore(run, "C48", C48_explore, tier, seed, args, [
        "quick tier proves the paths with attr is None (21 paths); the thorough tier proves all 317 paths including the committed_state capture (first write wins)",
        "state.obj (weak reference) and state._instance_dict are pure callables during the call; Session._autobegin_t is an abstract callee that may raise",
        "_commit / _commit_all (release of the strong reference) and the identity map's weak dictionary are in the bounded complement; CPython refcount/GC semantics assumed",
    ])
