"""C48 — pending changes survive the application dropping its references: every writer of `_strong_obj` / `modified` in
orm/state.py and orm/session.py under proof -- _modified_event (a state attached to a session and marked modified holds a strong
reference to its object on every exit, including the autobegin raising), _expire_attributes / _commit (neither field in their
frame), _detach / _detach_states / _commit_all_states / _expire (released only together with the flag or the attachment),
Session._after_attach (a modified object gets its strong reference when attached); histories with dropped references + gc on SQLite (checks/C48_explore.py) as the bounded complement."""
import contracts.state_modified  # noqa: F401
import contracts.state_strong  # noqa: F401
from vlib.wrap import run_proof_and_explore
from checks import C48_explore

LEVEL = "proof"
replay = C48_explore.replay


def run(run, tier, seed, args):
    run_proof_and_explore(run, "C48", C48_explore, tier, seed, args, [
        "quick tier proves the paths with attr is None (21 paths); the thorough tier proves all 317 paths including the committed_state capture (first write wins)",
        "state.obj (weak reference) and state._instance_dict are pure callables during the call; Session._autobegin_t is an abstract callee that may raise",
        "the identity map's weak dictionary and the flush itself are in the bounded complement; CPython refcount/GC semantics assumed",
        "state.__dict__.get('_pending_mutations') is modelled as a may-be-None field; event hooks (dispatch.*) and _invalidate_collection are no-ops on the modelled state; calls taking comprehensions (expired_attributes.update, _last_known_values.update) clobber the contents of their receiver",
        "InstanceState._expire (134 paths) is verified in the thorough tier only",
    ])
