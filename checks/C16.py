"""C16 — schema_translate_map renders the mapped schemas regardless of cache state (bounded run-time contract check).

Functions under contract (real code in /repo): `IdentifierPreparer._with_schema_translate` (symbol_getter),
`IdentifierPreparer._render_schema_translates`, reached the way the engine reaches them:
statements through `ClauseElement._compile_w_cache(dialect, compiled_cache=cache, schema_translate_map=m1)` and the real
`DefaultExecutionContext._init_compiled(execution_options={"schema_translate_map": m_i})`; DDL through
`ddl.compile(dialect=d, schema_translate_map=m)` and the real `_init_ddl`.

Contract.  T(W, m) = the same descriptor built over the world whose tables carry the schemas m.get(schema, schema)
(only keys of m are replaced), compiled with no map; the empty map {} and "no map at all" (no schema_translate_map option,
written "absent") translate nothing: T(W, {}) = T(W, absent) = W.  For every sequence m1..mk (k <= 4) of maps applied to ONE
cache (every execution passes its own map to `_compile_w_cache` and to `_init_compiled`, exactly as
`Connection._execute_clauseelement` does):
  (K1)  rendered_i == T(W, m_i).string                      (SQL text; parameters are untouched by translation)
  (K2)  the documented InvalidRequestError exactly when the None-key presence of m_i differs from that of the first
        NON-EMPTY map of the sequence (the map the cached placeholder-carrying object was compiled with): None newly
        present -> always; None dropped -> iff the compiled text holds a placeholder for the None schema; never for an
        empty / absent map
  (K3)  documented CompileError only for: a schema name containing '[' or ']' (while a non-empty map is in effect), or a
        map target None on a dialect without default_schema_name (unconnected)
  (K4)  the caller's map object is not modified
  any other exception, or any other text, violates the contract.
  Map objects with a history (CARRIERS).  The map of an execution is what the caller's dictionary says at that moment; how
  the dictionary object came about is immaterial.  m_i above is the *intended* map of step i; the object handed to the
  engine is, per sequence, produced in one of three ways:  "fresh" a new dict per execution;  "reuse" one and the same
  dict object for all executions, re-pointed in between (the keys of the previous intended map that are not in the new one
  are deleted, the new items stored — whatever else the object holds is left alone, a caller does not know of it);
  "derived" a copy dict(previous object) updated the same way.  K1-K4 are demanded of every step exactly as for fresh
  dicts.  DDL takes part in this dimension (a DDL execution shares no compiled object with the previous one, but it may
  share the map object).

Scope: worlds = the fixed schema a/b/sch.c with the schemas of a and b (and c, thorough) drawn from a small alphabet of
names incl. quoting-needing ones; all total maps of the used schemas into {t1, "T 2"}, single-key partial maps, identity,
unrelated key, None target; 2-3 map sequences over one cache; and every one of these sequences again with the empty map {}
resp. "absent" inserted at every position (before, between, after: the cache is first populated / later hit by an
execution that translates nothing), plus the sequences made of {} / absent only; Core / ORM statements and world DDL from
the corpus; six dialects.  Carrier dimension: every multi-map sequence (before the insertion of the neutral maps), the
re-pointing sequences [{k: t1}] -> [{k: "T 2"}] for every used schema k and [total map -> other total map] (also with {}
in between), each as "reuse" and as "derived" (the re-pointing sequences also "fresh"), for statements and DDL.
"""
import hashlib
import itertools
import json
import warnings

from rtc import corpus as C

LEVEL = "exploration"
DIALECTS = C.SIX
QUICK_NAMES = [None, "s1", "S 2", 'q"x']
THOROUGH_NAMES = [None, "s1", "S 2", 'q"x', "_none", "x]y", "sch"]
TARGETS = ["t1", "T 2"]

AX, AID, BX, BID, BAID, CX, CBID = C.AX, C.AID, C.BX, C.BID, C.BAID, C.CX, C.CBID
SUB = {"k": "select", "cols": [BAID], "where": [["op", ">", BX, 1]]}
STATEMENTS = {
    "select_join": {"k": "select", "cols": [AX, BID], "joins": [["b", ["op", "==", AID, BAID]]], "where": [["op", ">", AX, 1]]},
    "select_3": {"k": "select", "cols": [AID, BID, ["c", "c", "id"]], "joins": [["b", None], ["c", None, {"isouter": True}]], "order_by": [CX], "limit": 3},
    "select_alias": {"k": "select", "cols": [["c", "a:a_1", "id"], AID], "joins": [["a:a_1", ["op", "==", ["c", "a", "parent_id"], ["c", "a:a_1", "id"]]]]},
    "select_star": {"k": "select", "cols": [["tbl", "c"], ["tbl", "a"]], "from": ["c", "a"]},
    "subquery": {"k": "select", "cols": [["c", "sq", "a_id"], AID], "joins": [[["subq", SUB, "sq"], ["op", "==", ["c", "sq", "a_id"], AID]]]},
    "cte": {"k": "select", "cols": [["c", "w", "a_id"], CX], "from": [["cte", SUB, "w"], "c"]},
    "exists": {"k": "select", "cols": [AID], "where": [["exists", {"k": "select", "cols": [CX], "where": [["op", "==", CBID, AID]]}]]},
    "union": {"k": "union", "selects": [{"k": "select", "cols": [AID]}, {"k": "select", "cols": [BID]}, {"k": "select", "cols": [["c", "c", "id"]]}]},
    "for_update_of": {"k": "select", "cols": [AID, BID], "joins": [["b", None]], "for_update": {"of": [BID]}},
    "insert": {"k": "insert", "t": "a", "values": {"x": 1}}, "insert_c_returning": {"k": "insert", "t": "c", "values": {"x": 1}, "returning": [["c", "c", "id"]]},
    "insert_from": {"k": "insert", "t": "a", "from_select": [["x"], {"k": "select", "cols": [CX]}]},
    "upsert_pg": {"k": "insert", "t": "b", "fam": "pg", "values": {"id": 1, "x": 2}, "on_conflict": {"do": "update", "index_elements": [BID], "set": {"x": ["excluded", "x"]}, "where": ["op", ">", BX, 0]}},
    "upsert_sqlite": {"k": "insert", "t": "b", "fam": "sqlite", "values": {"id": 1, "x": 2}, "on_conflict": {"do": "update", "index_elements": [BID], "set": {"x": ["excluded", "x"]}}},
    "upsert_mysql": {"k": "insert", "t": "b", "fam": "mysql", "values": {"id": 1, "x": 2}, "on_dup": {"x": ["inserted", "x"]}},
    "update_ssq": {"k": "update", "t": "b", "values": {"a_id": ["ssq", {"k": "select", "cols": [["fn", "max", [AID]]]}]}, "where": [["op", ">", BX, 1]]},
    "update_from": {"k": "update", "t": "a", "where": [["op", "==", AID, BAID]], "values": {"x": BID}},
    "update_returning": {"k": "update", "t": "c", "values": {"x": ["op", "+", CX, 1]}, "returning": [CX]},
    "delete_in": {"k": "delete", "t": "a", "where": [["in_sub", AID, SUB]]}, "delete_using": {"k": "delete", "t": "a", "where": [["op", "==", AID, BAID]]},
    "orm_join": {"k": "select", "cols": [["ent", "A"], ["ent", "B"]], "joins": [[["rel", "A", "bs"]]], "where": [["op", ">", ["attr", "A", "x"], 1]]},
    "orm_joinedload": {"k": "select", "cols": [["ent", "B"]], "options": [["joinedload", "B", "cs"], ["joinedload", "B", "a"]]},
    "orm_any": {"k": "select", "cols": [["attr", "A", "id"]], "where": [["rel_any", "A", "bs", ["op", ">", ["attr", "B", "x"], 2]]]},
    "orm_update": {"k": "update", "t": "ent:C", "values": {"x": 2}, "where": [["op", ">", ["attr", "C", "x"], 1]]},
    "text_mix": {"k": "select", "cols": [AID, ["litc", "'__[SCHEMA_x]'"]], "where": [["op", "==", C.AS_, "__[SCHEMA_s1]"]]},
}
DDL = {}
for _t in ("a", "b", "c"):
    DDL["create_" + _t] = {"k": "ddl", "op": "create_table", "target": _t}
    DDL["drop_" + _t] = {"k": "ddl", "op": "drop_table", "target": _t, "o": {"if_exists": True}}
DDL.update({"index_a": {"k": "ddl", "op": "create_index", "target": ["a", 0]}, "index_b": {"k": "ddl", "op": "create_index", "target": ["b", 0]}, "drop_index_b": {"k": "ddl", "op": "drop_index", "target": ["b", 0]},
            "add_fk_b": {"k": "ddl", "op": "add_constraint", "target": ["b", ["fk", 0]]}, "add_fk_c": {"k": "ddl", "op": "add_constraint", "target": ["c", ["fk", 0]]},
            "add_fk_a": {"k": "ddl", "op": "add_constraint", "target": ["a", ["fk", 0]]}, "drop_pk_c": {"k": "ddl", "op": "add_constraint", "target": ["c", ["pk"]]}})


def worlds(tier):
    names = QUICK_NAMES if tier == "quick" else THOROUGH_NAMES
    out = [(sa, sb, "sch") for sa in names for sb in names if not (tier == "quick" and sa == 'q"x' and sb == 'q"x')]
    if tier == "quick":
        out += [("_none", None, "sch"), (None, "x]y", "sch")]
    else:
        out += [(sa, sb, None) for sa in names[:4] for sb in names[:4]] + [(sa, sb, sb) for sa in names[:3] for sb in names[1:4]]
    return out


def maps_for(w, tier):
    """map sequences (lists of <= 4 maps; a map is a [[key, value], ...] pair list so that None keys stay JSON-able, [] = the empty map, "absent" = no map)"""
    seqs = base_sequences(w, tier)
    # the maps that translate nothing — {} and "no schema_translate_map option" — as elements of every sequence, in every
    # position, over the same cache; and on their own
    out, seen = [], set()
    neutral_only = [[EMPTY], [ABSENT], [EMPTY, ABSENT], [ABSENT, EMPTY]]
    inserted = [seq[:p] + [e] + seq[p:] for seq in seqs for e in (EMPTY, ABSENT) for p in range(len(seq) + 1)]
    for seq in seqs + neutral_only + inserted:
        k = json.dumps(seq)
        if k not in seen:
            seen.add(k)
            out.append(seq)
    return out


def base_sequences(w, tier):
    """the map sequences before the neutral maps are inserted"""
    keys = sorted(set(w), key=lambda k: (k is not None, str(k)))
    total = [list(zip(keys, tv)) for tv in itertools.product(TARGETS, repeat=len(keys))]
    singles = [[(k, "t1")] for k in keys]
    nonone = [k for k in keys if k is not None]
    extra = [[(k, k) for k in nonone] or [("zz", "t1")], [("unrelated", "t1")] + [(keys[-1], "T 2")], [(keys[0], None)] + [(k, "t1") for k in keys[1:]]]
    seqs = [[m] for m in total + singles + extra]
    # one cache, several maps: same keys / other values ; None key appearing / disappearing ; partial after total
    seqs += [[total[0], total[-1], total[0]], [total[-1], singles[-1], total[0]]]
    if None in keys and nonone:
        with_none, without = total[0], [(k, "t1") for k in nonone]
        seqs += [[with_none, without], [without, with_none], [without, with_none, without]]
    if tier != "quick":
        seqs += [[a, b] for a in total[:3] for b in (singles + extra)[:4]]
    return [[[list(p) for p in m] for m in seq] for seq in seqs]


EMPTY = []            # schema_translate_map={}
ABSENT = "absent"     # no schema_translate_map option at all (None reaches _compile_w_cache)


def as_map(pairs):
    """the map object of one execution: a fresh dict, or None for 'absent'"""
    if pairs == ABSENT:
        return None
    return {k: v for k, v in pairs}


CARRIERS = ("fresh", "reuse", "derived")


def carried_maps(seq, carrier):
    """generator of the map object handed to the engine at each step (None for 'absent'); consumed step by step, so that
    what an execution did to the object is there when the next object is made from it"""
    prev, prev_keys = None, set()
    for pairs in seq:
        if pairs == ABSENT:
            yield None
            continue
        intended = {k: v for k, v in pairs}
        if carrier in (None, "fresh") or prev is None:
            obj = dict(intended)
        else:
            obj = prev if carrier == "reuse" else dict(prev)
            for k in prev_keys - set(intended):
                obj.pop(k, None)
            obj.update(intended)
        prev, prev_keys = obj, set(intended)
        yield obj


def carrier_sequences(w, tier):
    """[(sequence, carrier)] of the carrier dimension for world w"""
    keys = sorted(set(w), key=lambda k: (k is not None, str(k)))
    multi = [seq for seq in base_sequences(w, tier) if len(seq) > 1]
    total = [list(zip(keys, tv)) for tv in itertools.product(TARGETS, repeat=len(keys))]
    repoint = [[[(k, "t1")], [(k, "T 2")]] for k in keys] + [[total[0], total[-1]], [total[0], EMPTY, total[-1]], [total[-1], total[0], total[-1]]]
    repoint = [[m if m == EMPTY else [list(p) for p in m] for m in seq] for seq in repoint]
    out, seen = [], set()
    for seq, carriers in [(s_, CARRIERS[1:]) for s_ in multi] + [(s_, CARRIERS) for s_ in repoint]:
        for c_ in carriers:
            k = json.dumps([seq, c_])
            if k not in seen and not (c_ == "fresh" and seq in multi):
                seen.add(k)
                out.append((seq, c_))
    return out


def opts_for(m):
    """the execution options of one execution"""
    return {} if m is None else {"schema_translate_map": m}


def translated_world(w, m):
    m = m or {}
    return tuple(m[s] if s in m else s for s in w)


def _exc(e):
    return ("EXC", type(e).__name__, str(e)[:100])


def render_sequence(desc, w, seq, dn, cache_size=50, carrier=None):
    """[(rendered text | ('EXC', type, msg), compiled-with-none-placeholder?, map-mutated?)] for each map of the sequence, one cache"""
    from sqlalchemy.util import LRUCache
    d = C.get_dialect(dn)
    stmt = C.build(desc, C.world(w))
    cache = LRUCache(cache_size)
    out = []
    for pairs, m in zip(seq, carried_maps(seq, carrier)):
        before = dict(m or {})
        intended = as_map(pairs) or {}
        stale = bool(m) and "_none" in m and "_none" not in intended and None not in intended
        has_none_ph = None
        try:
            with warnings.catch_warnings():
                warnings.simplefilter("ignore")
                if desc["k"] == "ddl":
                    comp = stmt.compile(dialect=d, schema_translate_map=m)
                    has_none_ph = "__[SCHEMA__none]" in comp.string
                    text = C.ddl_call(d, comp, opts_for(m))
                else:
                    ck = sorted(desc["values"]) if False else []
                    comp, ext, pd, hit = stmt._compile_w_cache(d, compiled_cache=cache, column_keys=ck, schema_translate_map=m)
                    has_none_ph = "__[SCHEMA__none]" in comp.string
                    text, _ = C.dbapi_call(d, comp, stmt, None, ext, pd, hit, opts_for(m))
        except Exception as e:  # noqa: BLE001
            text = _exc(e)
        mutated = {k: v for k, v in (m or {}).items() if k not in before or before[k] != v} or None
        out.append((text, has_none_ph, mutated, stale))
    return out


_REF = {}


def reference(desc, w, m, dn):
    """the same descriptor over the translated world, no map, no cache (memoised per process on the translated world)"""
    tw = translated_world(w, m)
    k = (json.dumps(desc, sort_keys=True), tw, dn)
    if k not in _REF:
        _REF[k] = _reference(desc, tw, dn)
    return _REF[k]


def _reference(desc, tw, dn):
    d = C.get_dialect(dn)
    try:
        with warnings.catch_warnings():
            warnings.simplefilter("ignore")
            stmt = C.build(desc, C.world(tw))
            if desc["k"] == "ddl":
                return str(stmt.compile(dialect=d))
            comp = stmt._compiler(d, cache_key=None, column_keys=[], for_executemany=False, schema_translate_map=None)
            return C.dbapi_call(d, comp, stmt)[0]
    except Exception as e:  # noqa: BLE001
        return _exc(e)


def judge(name, desc, w, seq, dn, carrier=None):
    """contract clauses for one (statement, world, map sequence, dialect[, carrier]); returns (n evaluations, failures, texts)"""
    fails, texts = [], set()
    rendered = render_sequence(desc, w, seq, dn, carrier=carrier)
    isddl = desc["k"] == "ddl"
    for i, (pairs, (got, has_none_ph, mutated, stale)) in enumerate(zip(seq, rendered)):
        m = as_map(pairs) or {}
        # the placeholder-carrying compiled object was built at the first execution with a non-empty map
        m1 = next((as_map(p) for p in seq[:i + 1] if as_map(p)), {})
        inp = dict(statement=name, stmt=desc, world=list(w), maps=seq, step=i, dialect=dn)
        if carrier is not None:
            inp["carrier"] = carrier
        if stale:                   # observation: the carried object holds a '_none' item that is not the caller's, and no None key
            inp["map_object_has_stale__none"] = True

        def fail(clause, expected, actual):
            fails.append(dict(function="%s:%s:%s" % (clause, "ddl" if isddl else desc["k"], dn), input=inp, expected=expected, actual=actual))
        if mutated:
            fail("K4_map_modified[%s]" % ",".join(sorted(map(str, mutated))), "the caller's map unchanged", "keys written: %r" % (mutated,))
        exp = reference(desc, w, m, dn)
        if isinstance(exp, tuple):
            # the construct does not compile on this dialect even with the target schemas: any documented error is fine, no text is not
            if not isinstance(got, tuple):
                fail("K1_text", "reference raises %s" % (exp[1],), got[:300])
            elif got[1] != exp[1] and got[1] not in ("CompileError", "UnsupportedCompilationError", "InvalidRequestError"):
                fail("K3_exception", exp[1], "%s: %s" % got[1:])
            continue
        none_now, none_then = None in m, bool(m) and None in (m1 if not isddl else m)
        bracket = any(s is not None and ("[" in s or "]" in s) for s in w)
        none_target = any(v is None for k, v in m.items() if k in w)
        if isinstance(got, tuple):
            ok = False
            if got[1] == "InvalidRequestError" and none_now != none_then and (none_now or has_none_ph):
                ok = True                                            # K2
            elif got[1] == "CompileError" and m and (bracket or none_target):
                ok = True                                            # K3
            if not ok:
                fail("K3_exception", exp[:300], "%s: %s" % got[1:])
            continue
        if none_now and not none_then:
            fail("K2_missing_error", "InvalidRequestError (None key newly present)", got[:300])
            continue
        if not none_now and none_then and has_none_ph:
            fail("K2_missing_error", "InvalidRequestError (None key dropped, statement has a None-schema placeholder)", got[:300])
            continue
        if m:
            texts.add(hashlib.md5((dn + got).encode()).digest()[:8])
        if got != exp:
            fail("K1_text", exp[:600], got[:600])
    return len(seq), fails, texts


def _cases(tier):
    out = []
    for w in worlds(tier):
        for seq in maps_for(w, tier):
            out.append((w, seq, None))
        for seq, carrier in carrier_sequences(w, tier):
            out.append((w, seq, carrier))
    return out


def _units():
    return [(name, desc, dn) for name, desc in list(STATEMENTS.items()) + list(DDL.items()) for dn in DIALECTS]


def _worker(shard, nshards, tier, seed):
    """one shard = one (statement, dialect) unit over every (world, map sequence) case: the reference renderings of a unit
    are shared between the cases that translate to the same world"""
    import random
    cases = _cases(tier)
    if seed:
        random.Random(seed).shuffle(cases)
    out = dict(evals=0, failures=[], texts=set(), ncases=len(cases), samples=[], nworlds=len(worlds(tier)), neutral=0, carried=0, ncarried=sum(1 for c_ in cases if c_[2] is not None))
    name, desc, dn = _units()[shard]
    _REF.clear()
    for w, seq, carrier in cases:
        if desc["k"] == "ddl" and len(seq) > 1 and carrier in (None, "fresh"):
            continue                                   # DDL is compiled per execution: no shared compiled object (it may share the map object: carriers)
        n, fails, texts = judge(name, desc, w, seq, dn, carrier)
        out["evals"] += n
        out["carried"] += n if carrier is not None else 0
        out["neutral"] += sum(1 for m in seq if not as_map(m))
        out["failures"] += fails
        out["texts"].update(texts)
        if (name, dn) == ("select_join", "postgresql") and len(out["samples"]) < 2 and len(seq) > 2 and EMPTY in seq[:1 + len(out["samples"])]:
            r = render_sequence(desc, w, seq, dn)
            out["samples"].append(dict(world=list(w), maps=seq, statement=name, dialect=dn, rendered=[x[0] if isinstance(x[0], str) else list(x[0]) for x in r]))
    out["texts"] = list(out["texts"])
    return out


def run(run, tier, seed, args):
    res = C.shard_run(_worker, len(_units()), (tier, seed))
    texts, failures, samples = set(), [], []
    evals = neutral = carried = 0
    for r in res:
        carried += r["carried"]
        texts.update(r["texts"])
        failures += r["failures"]
        samples += r["samples"]
        evals += r["evals"]
        neutral += r["neutral"]
    C.report(run, failures, max_new=12)
    run.coverage.update(
        evaluations=evals,
        distinct_nontrivial=len(texts),
        rule="every (world, map sequence) x statement x dialect: the statement is compiled once through _compile_w_cache with the first map and rendered through the real "
             "_init_compiled / _init_ddl for every map of the sequence (one shared cache), and compared with the same descriptor built over the translated schemas; "
             "evaluations = renderings judged (%d of them executions with the empty map / without a map inside a sequence; %d of them in sequences whose map object is carried over "
             "from the previous execution — the same dict re-pointed, or a copy of it updated); distinct_nontrivial = distinct (dialect, rendered SQL) that contain a translated schema, counted by hash" % (neutral, carried),
        samples=samples[:2],
        exhaustive=True,
        scope="%d worlds (schemas of a, b%s from %s) x their map sequences (all total maps into %s, single-key maps, identity, unrelated key, None target, and 2-3 map sequences over one "
              "cache incl. None key appearing/disappearing; each of these also with {} resp. no map inserted at every position of the sequence, and the sequences of {} / no map only; "
              "carrier dimension: the multi-map sequences and the re-pointing sequences ({k: t1} -> {k: 'T 2'} per schema k, total -> other total, also via {}) with the map object reused / "
              "derived from the previous one: %d of the cases) = %d (world, sequence[, carrier]) cases x %d statements %s + %d DDL constructs %s (single maps, and the carrier sequences) x dialects %s"
              % (res[0]["nworlds"], "" if tier == "quick" else ", c", QUICK_NAMES + ["_none", "x]y"] if tier == "quick" else THOROUGH_NAMES, TARGETS, res[0]["ncarried"], res[0]["ncases"], len(STATEMENTS),
                 sorted(STATEMENTS), len(DDL), sorted(DDL), list(DIALECTS)))
    run.assumptions += [
        "dialects are unconnected: default_schema_name is None, so a None target is a documented CompileError where the dialect has no default schema",
        "execution on the translated schemas (the backend) is outside; the observation is the text handed to cursor.execute",
        "column labels derived from schema names (LABEL_STYLE_TABLENAME_PLUS_COL: `sch_c_x`) are client-side names and keep the untranslated schema; such statements are not in scope",
        "bounded exploration, not a proof",
    ]


def replay(data):
    inp = data["input"]
    n, fails, _ = judge(inp["statement"], inp["stmt"], tuple(inp["world"]), inp["maps"], inp["dialect"], inp.get("carrier"))
    mine = [f for f in fails if f["function"] == data.get("function")] if data.get("function") else fails
    others = sorted({f["function"] for f in fails if f not in mine})
    if mine:
        f = mine[0]
        print("REPLAY-FAILS C16 %s world=%s maps=%s%s step=%d\n  expected: %s\n  actual:   %s" % (f["function"], inp["world"], json.dumps(inp["maps"]), " carrier=%s" % inp["carrier"] if inp.get("carrier") else "", f["input"]["step"], str(f["expected"])[:500], str(f["actual"])[:500]))
        return 1
    if others:
        print("REPLAY-PASSES C16 %s world=%s: clause %s holds at every step; other clause classes firing on this case (see known findings): %s" % (inp["statement"], inp["world"], data.get("function"), others))
        return 0
    print("REPLAY-PASSES C16 %s world=%s: every rendering equals the construct built with the target schemas" % (inp["statement"], inp["world"]))
    return 0
