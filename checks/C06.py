"""C06 - identifier quoting round-trips every representable name.

Functions under contract (real code): sql/compiler.py IdentifierPreparer._escape_identifier, _unescape_identifier,
  quote_identifier, _requires_quotes, quote, quote_schema, format_table, unformat_identifiers / _r_identifiers, and the
  overrides / parameterisations of the dialect subclasses (SQLite, PostgreSQL psycopg / psycopg2 / asyncpg, MySQL mysqldb,
  MariaDB, MySQL ANSI_QUOTES, mysqlconnector, MSSQL pyodbc / pymssql, Oracle) = 12 preparers; on SQLite additionally the
  DDL / DML compilers (CreateTable, CreateIndex, insert, update, select, DropTable) and Inspector reflection.

Contract K, for a preparer P, a non-empty NUL-free name s, non-empty component lists comps:
  wire(x) = the text the server receives / sends for x: the DBAPIs that run statements through %-formatting (psycopg,
          psycopg2, mysqldb) turn %% into % and fail on a lone %; all other drivers pass x through.  (_unescape_identifier /
          unformat_identifiers are applied by the code base to *server* text - SHOW CREATE TABLE - hence wire().)
  (i-a) inverse pair    P._unescape_identifier(wire(P._escape_identifier(s))) == s
  (i-b) lexer           wire(P.quote_identifier(s)) is exactly ONE delimited identifier of the dialect (initial quote ...
                        final quote, the final quote character only doubled inside) and decodes to s
  (ii)  dotted names    P.unformat_identifiers(wire(".".join(P.quote_identifier(c) for c in comps))) == comps; the same with
                        P.quote(c) (bare where the preparer thinks that is legal)
  (iii) quote           P.quote(s) is either s itself - then s must be a legal bare identifier by an independent lexical
                        spec: fullmatch [a-z0-9_$]+, first character a letter or '_' (Oracle: a letter), and
                        not P._requires_quotes(s) - or exactly P.quote_identifier(s)
  (v)   format_table    P.format_table(Table(name, schema=sch)) == P.quote_schema(sch) + "." + P.quote(name) and
                        unformat_identifiers(wire(..)) of it gives [sch, name] (MSSQL: sch without . [ ] - dotted schemas mean
                        database.owner there by documentation)
  (vi)  SQLite backend  Table(s, Column(s, Integer)): the real CREATE TABLE / CREATE INDEX / INSERT / UPDATE / SELECT /
                        DROP texts execute on the in-process sqlite3; sqlite_master and pragma_table_info give back s for
                        table and column; the stored value comes back; (reflection) Inspector.get_table_names /
                        get_columns return s and Result.keys() is [s]
  (iv)  reserved words  finite domain W = union of every dialect's reserved_words, the SQLite keyword list, a few extras.
                        Measured on sqlite3: "w is unusable bare" = some statement with w bare as column / table / label
                        fails or returns a different value while the same statement with "w" quoted works.
                        ensures: unusable bare => SQLiteIdentifierPreparer._requires_quotes(w); and end to end the real
                        compiler's statements for a table, column and label named w execute and return the stored value.
  (vii) case normalization, for every dialect D in the tree with requires_name_normalize (the Oracle drivers) and for the
        DefaultDialect implementation with the default preparer (what third-party upper-folding dialects inherit); P = D's
        preparer; reads(tok) = the stored name an upper-case-folding backend resolves the token to (spec: delimited ->
        verbatim, regular identifier -> ASCII upper case, anything else illegal).  For a stored name S, n = D.normalize_name(S):
        (a) inverse      D.denormalize_name(n) == S
        (b) emission     reads(P.quote(n)) == S - the name handed out by reflection designates the same object again
        (c) agreement    n is S folded to lower case  <=>  S is all upper case and P.quote(S.lower()) is bare; otherwise
                         str(n) == S (normalize_name / _requires_quotes / quote agree on reserved words, illegal initial
                         characters, illegal characters, mixed case and names without case)
        For a user-side name u as str / quoted_name(u, None | True | False):
        (d) denormalize  reads(P.quote(u)) == D.denormalize_name(u) - what DDL creates is what reflection queries look for
        (e) statements   Table(normalize_name(St), Column(normalize_name(Sc))): the real SELECT / INSERT / UPDATE / DELETE /
                         CREATE TABLE / CREATE INDEX / DROP TABLE texts have exactly the expected token shape and every
                         identifier slot reads back as St / Sc

Scope Bd (exhaustive): alphabet { " ` [ ] . % space a A u-umlaut ' newline } (12 characters)
  names      all strings of length 1..4 (quick, 22 620) / 1..5 (thorough, 271 452), per preparer: (i-a) (i-b) (iii)
  dotted     pairs (c1, c2), c1 of length 1..2 (quick) / 1..3 (thorough), c2 of length 1..2; triples of 1-character
             components; per preparer: (ii) in both forms and (v) with (schema, name) = the pair
  sqlite     (vi) all names of length 1..3 (quick) / 1..4 (thorough); reflection through a real Engine for length 1..2 / 1..3
  words      (iv) every word of W (about 480), lower-case
  normalize  (vii) alphabet { a A Z _ $ 1 # space u-umlaut U-umlaut sharp-s CJK " . } (14 characters): all names of length 1..3
             (quick, 2 954) / 1..4 (thorough, 41 370) + a catalogue (every ASCII reserved word of every preparer in UPPER /
             lower / Capitalized form; 8 words decorated by 9 shapes (prefix digit, _, $, suffix #, space, dot ...) in 3 case
             forms; 21 names with irregular case mappings) x 3 dialects: (a)-(c) as stored name, (d) in 4 user forms;
             (e) every catalogue name as table and as column
"""
import json
import re
import sqlite3

from sqlalchemy import Column, Index, Integer, MetaData, Table, create_engine, delete, func, insert, inspect, select, update
from sqlalchemy.dialects import mssql, mysql, oracle, postgresql, sqlite
from sqlalchemy.dialects.mssql import pymssql
from sqlalchemy.dialects.mysql import mysqlconnector
from sqlalchemy.dialects.mysql import reserved_words as mysql_words
from sqlalchemy.dialects.mysql.base import MySQLIdentifierPreparer
from sqlalchemy.dialects.oracle import cx_oracle, oracledb
from sqlalchemy.dialects.postgresql import asyncpg, psycopg2
from sqlalchemy.engine import default
from sqlalchemy.pool import StaticPool
from sqlalchemy.schema import CreateIndex, CreateTable, DropTable
from sqlalchemy.sql.elements import quoted_name

from rtc import strspec as S

LEVEL = "exploration"

ALPHABET = "\"`[].% aAü'\n"

# label -> (preparer factory, does the DBAPI run the statement through %-formatting (spec, from the drivers' documentation))
PREPARERS = {
    "default": (lambda: default.DefaultDialect().identifier_preparer, False),
    "sqlite+pysqlite": (lambda: sqlite.dialect().identifier_preparer, False),
    "postgresql+psycopg": (lambda: postgresql.dialect().identifier_preparer, True),
    "postgresql+psycopg2": (lambda: psycopg2.dialect().identifier_preparer, True),
    "postgresql+asyncpg": (lambda: asyncpg.dialect().identifier_preparer, False),
    "mysql+mysqldb": (lambda: mysql.dialect().identifier_preparer, True),
    "mariadb+mysqldb": (lambda: mysql.dialect(is_mariadb=True).identifier_preparer, True),
    "mysql+mysqldb/ansi_quotes": (lambda: MySQLIdentifierPreparer(mysql.dialect(), server_ansiquotes=True), True),
    "mysql+mysqlconnector": (lambda: mysqlconnector.dialect().identifier_preparer, False),
    "mssql+pyodbc": (lambda: mssql.dialect().identifier_preparer, False),
    "mssql+pymssql": (lambda: pymssql.dialect().identifier_preparer, False),
    "oracle+oracledb": (lambda: oracle.dialect().identifier_preparer, False),
}

# https://sqlite.org/lang_keywords.html (the 147 keywords) - only the *domain* of clause (iv); which of them SQLite
# refuses bare is measured on the in-process library, not taken from this list
SQLITE_KEYWORDS = """abort action add after all alter always analyze and as asc attach autoincrement before begin between by
cascade case cast check collate column commit conflict constraint create cross current current_date current_time
current_timestamp database default deferrable deferred delete desc detach distinct do drop each else end escape except
exclude exclusive exists explain fail filter first following for foreign from full generated glob group groups having if
ignore immediate in index indexed initially inner insert instead intersect into is isnull join key last left like limit
match materialized natural no not nothing notnull null nulls of offset on or order others outer over partition plan pragma
preceding primary query raise range recursive references regexp reindex release rename replace restrict returning right
rollback row rows savepoint select set table temp temporary then ties to transaction trigger unbounded union unique update
using vacuum values view virtual when where window with without""".split()
EXTRA_WORDS = "within stored strict rowid oid _rowid_ true false".split()

_BARE = re.compile(r"[a-z0-9_$]+")


def _fail(clause, function, label, inp, expected, actual, **extra):
    return dict(function=function, clause=clause, input=dict(inp, preparer=label), expected=expected, actual=actual, **extra)


# ------------------------------------------------------------------------------------------------ clauses on one preparer

def name_clauses(P, label, driver_pct, s):
    """(i-a) (i-b) (iii) for one name; returns (failures, escaped?, bare?)"""
    out = []
    cls = type(P).__name__
    style = "pyformat" if driver_pct else "qmark"
    e = P._escape_identifier(s)
    ew = S.driver_percent(e, style)
    u = None if ew is None else P._unescape_identifier(ew)
    if u != s:
        out.append(_fail("escape-unescape", cls + "._unescape_identifier(_escape_identifier)", label, dict(name=s), s, u, escaped=e, on_the_wire=ew))
    q = P.quote_identifier(s)
    wire = S.driver_percent(q, style)
    dec = None if wire is None else S.decode_quoted_identifier(wire, P.initial_quote, P.final_quote)
    if dec != s:
        out.append(_fail("quoted-identifier-lexer", cls + ".quote_identifier", label, dict(name=s), s, dec, rendered=q, on_the_wire=wire))
    r = P.quote(s)
    bare = r == s
    if bare:
        initial_ok = s[0].isalpha() if label.startswith("oracle") else (s[0].isalpha() or s[0] == "_")
        if not (_BARE.fullmatch(s) and initial_ok) or P._requires_quotes(s):
            out.append(_fail("quote-bare-legal", cls + ".quote", label, dict(name=s), q, r,
                             detail="rendered bare but not a legal bare identifier (spec: [a-z0-9_$]+, legal initial, not reserved)"))
    elif r != q:
        out.append(_fail("quote-form", cls + ".quote", label, dict(name=s), q, r))
    elif not P._requires_quotes(s):
        out.append(_fail("quote-consistency", cls + ".quote", label, dict(name=s), s, r, detail="quoted although _requires_quotes is False"))
    return out, e != s, bare


def _unformat(P, txt, driver_pct):
    w = S.driver_percent(txt, "pyformat" if driver_pct else "qmark")
    if w is None:
        return "the driver's %-formatting fails on " + repr(txt)
    try:
        return list(P.unformat_identifiers(w))
    except Exception as ex:
        return "%s: %s" % (type(ex).__name__, ex)


def dotted_clauses(P, label, driver_pct, comps, table=None):
    out = []
    cls = type(P).__name__
    want = list(comps)
    for form, fn in (("quote_identifier", P.quote_identifier), ("quote", P.quote)):
        txt = ".".join(fn(c) for c in comps)
        got = _unformat(P, txt, driver_pct)
        if got != want:
            out.append(_fail("unformat-" + form, cls + ".unformat_identifiers", label, dict(components=list(comps)), want, got, dotted=txt))
    if len(comps) == 2:
        sch, name = comps
        if not (label.startswith("mssql") and re.search(r"[.\[\]]", sch)):
            ft = P.format_table(table if table is not None else Table(name, MetaData(), schema=sch))
            exp = P.quote_schema(sch) + "." + P.quote(name)
            got = _unformat(P, ft, driver_pct)
            if ft != exp or got != want:
                out.append(_fail("format_table", cls + ".format_table", label, dict(components=list(comps)), [exp, want], [ft, got]))
    return out


# ------------------------------------------------------------------------------------------------ SQLite backend

_SQLITE = sqlite.dialect()


def _engine():
    return create_engine("sqlite://", poolclass=StaticPool)


def _cleanup(engine):
    with engine.begin() as conn:
        for kind, n in conn.exec_driver_sql("SELECT type, name FROM sqlite_master WHERE type IN ('table', 'view')").fetchall():
            conn.exec_driver_sql('DROP %s "%s"' % (kind, n.replace('"', '""')))


def sqlite_roundtrip(engine, name, reflect=False, clause="sqlite-roundtrip"):
    """(vi): Table(name, Column(name)) through the real Engine / compilers / SQLite dialect on the in-process sqlite3;
    returns a failure dict or None"""
    md = MetaData()
    t = Table(name, md, Column(name, Integer), Column("other", Integer))
    col = t.c[name]
    seen = {}
    step = "create"
    try:
        try:
            with engine.begin() as conn:
                md.create_all(conn)
                step = "index"
                Index("ix_1", col).create(conn)
                step = "insert"
                conn.execute(insert(t).values({name: 6, "other": 1}))
                step = "update"
                conn.execute(update(t).values({name: col + 1}).where(col == 6))
                step = "readback"
                seen["tables"] = [r[0] for r in conn.exec_driver_sql("SELECT name FROM sqlite_master WHERE type = 'table'")]
                seen["columns"] = [r[0] for r in conn.exec_driver_sql("SELECT name FROM pragma_table_info(?)", (name,))]
                step = "select"
                res = conn.execute(select(col).where(col == 7).order_by(col))
                seen["select_keys"] = list(res.keys())
                seen["select"] = [list(r) for r in res]
                step = "select-label"
                res = conn.execute(select(t.c.other.label(name)))
                seen["label_keys"] = list(res.keys())
                seen["label"] = [list(r) for r in res]
                step = "select-function"
                seen["max"] = [list(r) for r in conn.execute(select(func.max(col), (col + 0)))]
                step = "select-alias"
                al = t.alias(name)
                seen["alias"] = [list(r) for r in conn.execute(select(al.c[name]).where(al.c[name] == 7))]
                want = dict(tables=[name], columns=[name, "other"], select_keys=[name], select=[[7]], label_keys=[name],
                            label=[[1]], max=[[7, 7]], alias=[[7]])
                if reflect:
                    step = "reflect"
                    insp = inspect(conn)
                    seen["insp_tables"] = insp.get_table_names()
                    seen["insp_columns"] = [c["name"] for c in insp.get_columns(name)]
                    seen["insp_indexes"] = [i["column_names"] for i in insp.get_indexes(name)]
                    r2 = MetaData()
                    r2.reflect(conn)
                    seen["reflected"] = {k: [c.name for c in v.columns] for k, v in r2.tables.items()}
                    want.update(insp_tables=[name], insp_columns=[name, "other"], insp_indexes=[[name]],
                                reflected={name: [name, "other"]})
                step = "drop"
                md.drop_all(conn)
                seen["after_drop"] = [r[0] for r in conn.exec_driver_sql("SELECT name FROM sqlite_master")]
                want["after_drop"] = []
        except Exception as ex:
            return _fail(clause, "SQLite dialect: identifier preparer + DDL/DML compilers + reflection", "sqlite+pysqlite",
                         dict(name=name), "statements execute", "%s at step %s: %s" % (type(ex).__name__, step, str(ex)[:300]),
                         seen=seen)
        if seen != want:
            return _fail(clause, "SQLite dialect: identifier preparer + DDL/DML compilers + reflection", "sqlite+pysqlite",
                         dict(name=name), want, seen)
        return None
    finally:
        _cleanup(engine)


# ------------------------------------------------------------------------------------------------ (iv) reserved words

def word_catalogue():
    words = set(SQLITE_KEYWORDS) | set(EXTRA_WORDS)
    for label, (factory, _) in PREPARERS.items():
        words |= {w.lower() for w in factory().reserved_words}
    words |= {w.lower() for w in mysql_words.RESERVED_WORDS_MARIADB} | {w.lower() for w in mysql_words.RESERVED_WORDS_MYSQL}
    return sorted(w for w in words if _BARE.fullmatch(w) and not w[0].isdigit() and w[0] != "$")


_PROBES = (  # {w} = the word as written (bare or quoted); every probe stores 7 / reads 7 back where it reads
    ("column", ("CREATE TABLE t ({w} INTEGER)", "INSERT INTO t ({w}) VALUES (7)", "UPDATE t SET {w} = {w} + 0", "SELECT {w} FROM t",
                "SELECT t.{w} FROM t", "SELECT 1 FROM t WHERE {w} = 7 ORDER BY {w}", "SELECT ({w}) FROM t", "SELECT max({w}) FROM t",
                "UPDATE t SET {w} = ({w} + 0)", "SELECT x FROM (SELECT {w} AS x FROM t)")),
    ("table", ("CREATE TABLE {w} (x INTEGER)", "INSERT INTO {w} (x) VALUES (7)", "SELECT x FROM {w}", "SELECT {w}.x FROM {w}", "SELECT ({w}.x) FROM {w}",
               "UPDATE {w} SET x = 7", "DELETE FROM {w} WHERE x = 8", "DROP TABLE {w}")),
    ("label", ("CREATE TABLE t (x INTEGER)", "INSERT INTO t (x) VALUES (7)", "SELECT x AS {w} FROM t", "SELECT x AS {w} FROM t ORDER BY {w}", "SELECT ({w}) FROM (SELECT x AS {w} FROM t)",
               "SELECT zz9.x FROM t AS {w} JOIN t AS zz9 ON zz9.x = {w}.x")),
)


def _probe(w_text):
    """None if every probe statement works with the word written as w_text and reads back 7, else what failed"""
    for pos, stmts in _PROBES:
        con = sqlite3.connect(":memory:")
        try:
            for sql in stmts:
                sql = sql.format(w=w_text)
                try:
                    rows = con.execute(sql).fetchall()
                except sqlite3.Error as ex:
                    return "%s position, %r: %s" % (pos, sql, ex)
                if sql.startswith("SELECT") and rows not in ([(7,)], [(1,)]):
                    return "%s position, %r returns %r" % (pos, sql, rows)
        finally:
            con.close()
    return None


def word_clauses(P, w, engine):
    """returns (failures, unusable_bare?)"""
    out = []
    bare = _probe(w)
    quoted = _probe('"%s"' % w)
    unusable_bare = bare is not None and quoted is None
    if unusable_bare and not P._requires_quotes(w):
        out.append(_fail("reserved-word-adequacy", "SQLiteIdentifierPreparer._requires_quotes", "sqlite+pysqlite", dict(word=w),
                         "True (sqlite3 %s refuses the word bare: %s)" % (sqlite3.sqlite_version, bare), False))
    f = sqlite_roundtrip(engine, w, clause="reserved-word-roundtrip")
    if f is not None:
        f["input"] = dict(word=w, preparer="sqlite+pysqlite")
        out.append(f)
    return out, unusable_bare


# ------------------------------------------------------------------------------------------------ (vii) case normalization

class _UpperFoldingDialect(default.DefaultDialect):
    """what a third-party dialect for an upper-case-folding backend (Firebird, DB2, ...) is: the DefaultDialect
    normalize_name / denormalize_name with the default preparer, requires_name_normalize switched on"""
    name = "generic-upper-folding"
    requires_name_normalize = True


# every dialect class shipped in the tree is looked at; those that declare requires_name_normalize are under contract
_CANDIDATES = {
    "default": default.DefaultDialect, "sqlite+pysqlite": sqlite.dialect, "postgresql+psycopg": postgresql.dialect,
    "postgresql+psycopg2": psycopg2.dialect, "postgresql+asyncpg": asyncpg.dialect, "mysql+mysqldb": mysql.dialect,
    "mysql+mysqlconnector": mysqlconnector.dialect, "mssql+pyodbc": mssql.dialect, "mssql+pymssql": pymssql.dialect,
    "oracle+oracledb": oracledb.dialect, "oracle+cx_oracle": cx_oracle.dialect, "generic-upper-folding": _UpperFoldingDialect,
}
_NORM_CACHE = {}


def normalizing_dialects():
    if not _NORM_CACHE:
        for label, f in _CANDIDATES.items():
            d = f()
            if d.requires_name_normalize:
                _NORM_CACHE[label] = d
    return _NORM_CACHE


NORM_ALPHABET = "aA_$1# üÜß姓\".Z"
# names with remarkable case mappings: sharp s, dotted / dotless i, titlecase digraph, ligature, Greek final sigma, Cherokee
NORM_UNICODE = ["ß", "SS", "İ", "ı", "I", "ǅ", "Ǆ", "ﬁ", "Σ", "ς", "σ", "Ꭰ", "ſ", "\u212a", "ÉMILE",
                "Émile", "姓名", "姓A", "姓a", "2024", "___", "$$", "#"]
NORM_SHAPES = ["%s", "%s_X", "X_%s", "1%s", "_%s", "$%s", "%s#", "%s 1", "%s.%s"]


def norm_catalogue():
    """names as a data dictionary may hold them: every reserved word of every preparer in three case forms, the same decorated
    with illegal initial characters / other characters, and names whose case mapping is not one-to-one"""
    words = set()
    for label, (factory, _) in PREPARERS.items():
        words |= {w.lower() for w in factory().reserved_words}
    words = sorted(w for w in words if w.isascii())
    out = []
    for w in words:
        out += [w.upper(), w, w.capitalize()]
    for w in ("comment", "date", "order", "size", "quarter", "hidden", "amount", "x"):
        for shape in NORM_SHAPES:
            n = shape.replace("%s", w)
            out += [n.upper(), n, n.capitalize()]
    out += NORM_UNICODE
    seen = set()
    return [n for n in out if not (n in seen or seen.add(n))]


_ORACLE_BARE = re.compile(r"[A-Za-z][A-Za-z0-9_$#]*", re.ASCII)   # Oracle SQL Language Reference, Database Object Naming Rules
_GENERIC_BARE = re.compile(r"[A-Za-z_][A-Za-z0-9_$]*", re.ASCII)   # SQL regular identifier (+ leading underscore, $)


def backend_reads(label, P, token):
    """the stored name an upper-case-folding backend resolves an identifier token to: a delimited identifier verbatim, a
    regular identifier folded to upper case; None when the token is neither (spec; reserved words: see assumptions)"""
    if token.startswith(P.initial_quote):
        return S.decode_quoted_identifier(token, P.initial_quote, P.final_quote)
    bare = _ORACLE_BARE if label.startswith("oracle") else _GENERIC_BARE
    return token.upper() if bare.fullmatch(token) else None


QUOTE_FLAGS = {"str": None, "quoted_name(None)": None, "quoted_name(True)": True, "quoted_name(False)": False}


def _user_name(u, form):
    return u if form == "str" else quoted_name(u, QUOTE_FLAGS[form])


def _nrepr(n):
    return dict(text=str(n), quote=getattr(n, "quote", "plain str"))


def normalize_clauses(label, S_name):
    """(vii-a..c) for one stored name; returns (failures, folded?)"""
    D = normalizing_dialects()[label]
    P = D.identifier_preparer
    out = []
    fn = type(D).__name__ + ".normalize_name"
    inp = dict(stored=S_name)
    n = D.normalize_name(S_name)
    back = D.denormalize_name(n)
    if back != S_name or type(back) not in (str, quoted_name):
        out.append(_fail("normalize-inverse", fn, label, inp, S_name, str(back), normalized=_nrepr(n)))
    emitted = P.quote(n)
    got = backend_reads(label, P, emitted)
    if got != S_name:
        out.append(_fail("normalize-emitted", fn, label, inp, S_name, got, normalized=_nrepr(n), emitted=emitted))
    folded = str(n) != S_name
    lower = S_name.lower()
    may_fold = S_name.upper() == S_name and lower != S_name and P.quote(lower) == lower  # all upper case and its lower form renders bare
    if folded != may_fold or (folded and str(n) != lower):
        out.append(_fail("normalize-quote-agreement", fn, label, inp,
                         "folded to lower case iff all upper case and quote(lower) is bare: %s" % may_fold, _nrepr(n),
                         quote_of_lower=P.quote(lower), requires_quotes_of_lower=P._requires_quotes(lower)))
    return out, folded


def denormalize_clauses(label, u, form):
    """(vii-d) for one user-side name; returns (failures, folded?)"""
    D = normalizing_dialects()[label]
    P = D.identifier_preparer
    name = _user_name(u, form)
    emitted = P.quote(name)
    stored = backend_reads(label, P, emitted)
    inp = dict(user=u, form=form)
    fn = type(D).__name__ + ".denormalize_name"
    if stored is None:
        if QUOTE_FLAGS[form] is False:
            return [], False  # the user forbade quoting a name that needs it: precondition of quote=False not met
        return [_fail("denormalize-emitted", fn, label, inp, "a delimited or a legal regular identifier", emitted)], False
    d = D.denormalize_name(name)
    if d != stored:
        return [_fail("denormalize-agreement", fn, label, inp, stored, str(d), emitted=emitted)], False
    return [], stored != u


def _ident_tokens(P, sql):
    """identifier tokens of a statement text (delimited identifiers by the preparer's quote characters; words)"""
    out = []
    i = 0
    n = len(sql)
    iq, fq = P.initial_quote, P.final_quote
    while i < n:
        c = sql[i]
        if sql.startswith(iq, i):
            j = i + len(iq)
            while j < n:
                if sql.startswith(fq, j):
                    if sql.startswith(fq, j + len(fq)):
                        j += 2 * len(fq)
                        continue
                    break
                j += 1
            out.append(sql[i:j + len(fq)])
            i = j + len(fq)
        elif c.isspace() or c in ".,()=+?:":
            i += 1
        else:
            j = i
            while j < n and not (sql[j].isspace() or sql[j] in ".,()=+?:" or sql.startswith(iq, j)):
                j += 1
            out.append(sql[i:j])
            i = j
    return out


_T, _C, _I = "table", "column", "index"
# statement -> the token sequence of its text with literal_binds; _T / _C / _I mark the identifier slots
_TEMPLATES = {
    "select": ["SELECT", _T, _C, "FROM", _T, "WHERE", _T, _C, "1"],
    "insert": ["INSERT", "INTO", _T, _C, "VALUES", "1"],
    "update": ["UPDATE", _T, "SET", _C, "2", "WHERE", _T, _C, "1"],
    "delete": ["DELETE", "FROM", _T, "WHERE", _T, _C, "1"],
    "create-table": ["CREATE", "TABLE", _T, _C, "INTEGER"],
    "create-index": ["CREATE", "INDEX", _I, "ON", _T, _C],
    "drop-table": ["DROP", "TABLE", _T],
}


def statement_clauses(label, tname, cname):
    """(vii-e) a 'reflected' table: names come from normalize_name; every real statement must designate the stored names"""
    D = normalizing_dialects()[label]
    P = D.identifier_preparer
    t = Table(D.normalize_name(tname), MetaData(), Column(D.normalize_name(cname), Integer))
    col = t.c[0]
    ix = Index(D.normalize_name("IX1"), col)
    stored = {_T: tname, _C: cname, _I: "IX1"}
    out = []
    for form, stmt in (("select", select(col).where(col == 1)), ("insert", insert(t).values({col: 1})),
                       ("update", update(t).values({col: 2}).where(col == 1)), ("delete", delete(t).where(col == 1)),
                       ("create-table", CreateTable(t)), ("create-index", CreateIndex(ix)), ("drop-table", DropTable(t))):
        sql = str(stmt.compile(dialect=D, compile_kwargs={"literal_binds": True}))
        toks = _ident_tokens(P, sql)
        tpl = _TEMPLATES[form]
        want = [stored.get(x, x) for x in tpl]
        got = ([backend_reads(label, P, tok) if slot in stored else tok for slot, tok in zip(tpl, toks)]
               if len(toks) == len(tpl) else toks)
        if got != want:
            out.append(_fail("normalize-statement", type(D).__name__ + ".normalize_name + %s compiler" % form, label,
                             dict(table=tname, column=cname, statement=form), want, got, sql=sql))
    return out


# ------------------------------------------------------------------------------------------------ workers

def _work(task):
    kind = task[0]
    fails = []
    res = dict(kind=kind, evals=0, nontrivial=0, bare=0, fails=fails, samples=[], extra=0)
    if kind == "names":
        _, label, names = task
        P = PREPARERS[label][0]()
        for s in names:
            f, escaped, bare = name_clauses(P, label, PREPARERS[label][1], s)
            res["evals"] += 1
            res["nontrivial"] += escaped
            res["bare"] += bare
            fails.extend(f)
            if escaped and len(s) > 2 and len(res["samples"]) < 2 and res["nontrivial"] % 97 == 5 + list(PREPARERS).index(label):
                res["samples"].append(dict(preparer=label, name=s, escaped=P._escape_identifier(s), quoted=P.quote_identifier(s),
                                           quote=P.quote(s), requires_quotes=P._requires_quotes(s)))
    elif kind == "dotted":
        _, firsts, seconds, triples = task
        preps = [(label, f(), pct) for label, (f, pct) in PREPARERS.items()]
        for a in firsts:
            for b in seconds:
                table = Table(b, MetaData(), schema=a)  # one real Table per pair, formatted by every preparer
                for label, P, pct in preps:
                    fails.extend(dotted_clauses(P, label, pct, (a, b), table))
                    res["evals"] += 1
                    res["nontrivial"] += (P._escape_identifier(a) != a or P._escape_identifier(b) != b or "." in a or "." in b)
        for comps in triples:
            for label, P, pct in preps:
                fails.extend(dotted_clauses(P, label, pct, comps))
                res["evals"] += 1
                res["nontrivial"] += any(P._escape_identifier(c) != c or c == "." for c in comps)
        if firsts:
            label, P, pct = preps[len(firsts[0]) * 5 % len(preps)]
            comps = (firsts[len(firsts) // 2], seconds[(len(firsts) * 7) % len(seconds)])
            txt = ".".join(P.quote_identifier(c) for c in comps)
            res["samples"].append(dict(preparer=label, components=list(comps), dotted=txt, unformat=_unformat(P, txt, pct)))
    elif kind in ("sqlite", "reflect"):
        eng = _engine()
        P = _SQLITE.identifier_preparer
        for s in task[1]:
            f = sqlite_roundtrip(eng, s, reflect=kind == "reflect", clause="sqlite-roundtrip" if kind == "sqlite" else "sqlite-reflection")
            res["evals"] += 1
            res["nontrivial"] += P._escape_identifier(s) != s
            if f:
                fails.append(f)
        eng.dispose()
    elif kind == "words":
        P = sqlite.dialect().identifier_preparer
        unusable = []
        eng = _engine()
        for w in task[1]:
            f, ub = word_clauses(P, w, eng)
            res["evals"] += 1
            if ub:
                unusable.append(w)
            fails.extend(f)
        res["unusable_bare"] = unusable
    elif kind == "normalize":
        _, label, names, stmt_names = task
        for n in names:
            f, folded = normalize_clauses(label, n)
            res["evals"] += 1
            res["nontrivial"] += folded
            fails.extend(f)
            for form in QUOTE_FLAGS:
                f, folded = denormalize_clauses(label, n, form)
                res["evals"] += 1
                res["nontrivial"] += folded
                fails.extend(f)
        D = normalizing_dialects()[label]
        for n in stmt_names:
            fails.extend(statement_clauses(label, n, "C1"))
            fails.extend(statement_clauses(label, "T1", n))
            res["evals"] += 2
            res["nontrivial"] += 2 * (str(D.normalize_name(n)) != n)
        for n in (stmt_names[len(stmt_names) // 3:] or names)[:1]:
            nn = D.normalize_name(n)
            res["samples"].append(dict(dialect=label, stored=n, normalize_name=_nrepr(nn), emitted=D.identifier_preparer.quote(nn),
                                       denormalize_name=str(D.denormalize_name(nn))))
    if len(fails) > 400:
        res["dropped_failures"] = len(fails) - 400
        del fails[400:]
    return res


def _spread(items, n):
    """n items taken at equal strides (samples from different preparers / parts, not the first n)"""
    if len(items) <= n:
        return items
    return [items[i * len(items) // n] for i in range(n)]


def run(run, tier, seed, args):
    import sqlalchemy
    quick = tier == "quick"
    n_names, n_first, n_sqlite, n_reflect = (4, 2, 3, 2) if quick else (5, 3, 4, 3)
    nj = S.jobs()
    names = S.strings(ALPHABET, n_names, 1)
    firsts = S.strings(ALPHABET, n_first, 1)
    seconds = S.strings(ALPHABET, 2, 1)
    triples = [(a, b, c) for a in ALPHABET for b in ALPHABET for c in ALPHABET]
    words = word_catalogue()
    tasks = []
    per_label = max(1, (nj * 2) // len(PREPARERS)) if quick else nj
    for label in PREPARERS:
        for c in S.chunks(names, per_label):
            tasks.append(("names", label, c))
    for i, c in enumerate(S.chunks(firsts, nj * 2)):
        tasks.append(("dotted", c, seconds, triples if i == 0 else []))
    for c in S.chunks(S.strings(ALPHABET, n_sqlite, 1), nj * 2):
        tasks.append(("sqlite", c))
    for c in S.chunks(S.strings(ALPHABET, n_reflect, 1), nj):
        tasks.append(("reflect", c))
    for c in S.chunks(words, nj):
        tasks.append(("words", c))
    norm_names = S.strings(NORM_ALPHABET, 3 if quick else 4, 1)
    cat = norm_catalogue()
    norm_names += [n for n in cat if n not in set(norm_names)]
    for label in normalizing_dialects():
        for c, sc in zip(S.chunks(norm_names, 2 if quick else nj), S.chunks(cat, 2 if quick else nj)):
            tasks.append(("normalize", label, c, sc))
    cost = {"names": 1, "dotted": 12 * len(seconds) * 4, "sqlite": 700, "reflect": 1200, "words": 900, "normalize": 12}
    tasks.sort(key=lambda t: -cost[t[0]] * len(t[2] if t[0] in ("names", "normalize") else t[1]))
    res = S.pmap(_work, tasks)
    F = S.Findings(run)
    F.extend(sorted((f for r in res for f in r["fails"]),
                    key=lambda f: (len(json.dumps(f["input"])), f["clause"], json.dumps(f["input"], sort_keys=True))))
    F.finish()
    by = {}
    for r in res:
        d = by.setdefault(r["kind"], dict(evaluations=0, nontrivial=0))
        d["evaluations"] += r["evals"]
        d["nontrivial"] += r["nontrivial"]
    unusable = sorted(w for r in res for w in r.get("unusable_bare", []))
    dropped = sum(r.get("dropped_failures", 0) for r in res)
    by["words"]["nontrivial"] = len(unusable)
    P = sqlite.dialect().identifier_preparer
    run.coverage.update(
        evaluations=sum(d["evaluations"] for d in by.values()),
        distinct_nontrivial=sum(d["nontrivial"] for d in by.values()),
        rule="one evaluation = one (preparer, name) / (preparer, component list) / sqlite name / word, each enumerated once "
             "(exhaustive products, distinct by construction), all its clauses evaluated. Non-trivial, measured per case on the "
             "real output: names / component lists for which _escape_identifier changed the text (the quote character or a "
             "doubled %) or a component contains the separator '.'; words that sqlite3 refuses bare but accepts quoted; "
             "(vii): (dialect, stored name) / (dialect, user name, quote form) / (dialect, statement set, name) cases in which "
             "case folding actually happened (normalize_name returned a different string / the backend stores a different "
             "string than the user wrote).",
        by_part=by,
        names_rendered_bare=sum(r["bare"] for r in res),
        preparers=list(PREPARERS),
        normalizing_dialects=list(normalizing_dialects()),
        dialects_inspected_for_requires_name_normalize=list(_CANDIDATES),
        normalize_names=len(norm_names), normalize_catalogue=len(cat),
        word_catalogue_size=len(words),
        words_sqlite_refuses_bare=len(unusable),
        words_refused_bare_and_not_quoted_by_sqlalchemy=[w for w in unusable if not P._requires_quotes(w)],
        failures_not_kept=dropped,
        samples=_spread([s for r in res for s in r["samples"]], 12)
        + [dict(word=w, sqlite_refuses_bare=True, requires_quotes=P._requires_quotes(w)) for w in unusable[:2] + unusable[-2:]],
        exhaustive=True,
        scope="alphabet %r; names of length 1..%d x %d preparers; dotted pairs (1..%d) x (1..2) and 1-character triples x %d "
              "preparers; SQLite execution for names of length 1..%d, reflection 1..%d; %d catalogue words on sqlite3 %s; "
              "case normalization: dialects %s x (all names of length 1..%d over %r + %d catalogue names) as stored name and as "
              "user name in the forms %s; 7 statements x catalogue names as table / column"
              % (ALPHABET, n_names, len(PREPARERS), n_first, len(PREPARERS), n_sqlite, n_reflect, len(words), sqlite3.sqlite_version,
                 list(normalizing_dialects()), 3 if quick else 4, NORM_ALPHABET, len(cat), list(QUOTE_FLAGS)),
        sqlalchemy_tree=sqlalchemy.__file__,
    )
    run.assumptions += [
        "the delimited-identifier lexers (\"...\" with \"\" inside; `...` with ``; [...] with ]]) are the documented grammars of "
        "the backends; only SQLite's is exercised for real (in-process sqlite3), the others are assumed contracts",
        "which DBAPIs %-format the statement text (psycopg, psycopg2, mysqldb: yes; asyncpg, mysqlconnector, pymssql, pyodbc, "
        "oracledb, pysqlite: no) is taken from the drivers' documentation; no driver is run",
        "clause (iv) instantiates the backend's keyword contract by probing this sqlite3 library version only; PostgreSQL / "
        "MySQL / MSSQL / Oracle keyword sets are outside (no server)",
        "empty names, NUL, names longer than the scope and length limits are outside",
        "(vii) the upper-case-folding backend is a spec: a delimited identifier designates its text verbatim, a regular identifier "
        "(Oracle: [A-Za-z][A-Za-z0-9_$#]*, generic: [A-Za-z_][A-Za-z0-9_$]*) designates its ASCII upper-case form; no Oracle server "
        "is run, the Inspector's dictionary queries and the result-set key normalization in engine/cursor.py are outside; whether "
        "the preparer's reserved_words cover the backend's keywords is outside (as for clause iv)",
        "MSSQL schema names containing '.', '[' or ']' are multipart (database.owner) by documentation and excluded from (v)",
    ]


def replay(data):
    inp = data["input"]
    clause = data.get("clause", "")
    label = inp.get("preparer", "sqlite+pysqlite")
    fails = []
    if "stored" in inp:
        fails, _ = normalize_clauses(label, inp["stored"])
    elif "user" in inp:
        fails, _ = denormalize_clauses(label, inp["user"], inp["form"])
    elif "statement" in inp:
        fails = [f for f in statement_clauses(label, inp["table"], inp["column"]) if f["input"]["statement"] == inp["statement"]]
    elif "word" in inp:
        fails, _ = word_clauses(sqlite.dialect().identifier_preparer, inp["word"], _engine())
    elif "components" in inp:
        fails = dotted_clauses(PREPARERS[label][0](), label, PREPARERS[label][1], tuple(inp["components"]))
    elif clause in ("sqlite-roundtrip", "sqlite-reflection"):
        f = sqlite_roundtrip(_engine(), inp["name"], reflect=clause == "sqlite-reflection", clause=clause)
        fails = [f] if f else []
    else:
        fails, _, _ = name_clauses(PREPARERS[label][0](), label, PREPARERS[label][1], inp["name"])
    fails = [f for f in fails if f["clause"] == clause] or fails
    if fails:
        f = fails[0]
        print("REPLAY-FAILS C06 %s input=%r clause=%s expected=%r actual=%r" % (f["function"], inp, f["clause"], f["expected"], f["actual"]))
        return 1
    print("REPLAY-PASSES C06 input=%r clause=%s" % (inp, clause))
    return 0
