"""C35 bounded complement — lifecycle transitions and events form a path of the documented automaton.

Driven (real, tree under test): `Session.add / delete / expunge / flush / commit / rollback / close / begin_nested / merge / get /
refresh`, `make_transient`, `make_transient_to_detached`, an attribute set — on one or two objects of the shared harness
class P, SQLite :memory:; for a related parent / child pair also `Session.expire / expire_all` and collection append / remove
(-> the cascade walks `mapper.cascade_iterator` of save-update, merge, delete, expunge, refresh-expire; `Session._conditional_expire`,
`_expunge_states`, `_delete_impl`, `_save_or_update_state`, delete-orphan detection at flush); `SessionEvents` lifecycle hooks
recorded with class-level listeners installed once per process.

Documented automaton (doc/build/orm/session_events.rst "Object Lifecycle Events", session_state_management.rst):
  edges WITH an event of the same name:  transient->pending, pending->persistent, pending->transient, persistent->transient,
      persistent->deleted, deleted->persistent, deleted->detached, persistent->detached, detached->persistent
  edges WITHOUT an event:  make_transient(): any state -> transient;  make_transient_to_detached(): transient -> detached
  (`loaded_as_persistent` announces an object created by a load; it must never fire for an object the application constructed)

Related objects (cascades).  The transitions of an object are not only caused by operations that name it: every operation that
names a PARENT reaches the members of its relationships along the configured cascades (save-update, merge, delete, delete-orphan,
expunge, refresh-expire).  Second family of histories: a parent o1 and a child o2 of the pair mapping K/Kc (one-to-many `kids` with
back reference `par`), one mapped pair per cascade configuration in CASCADES (the default "save-update, merge"; "all"; "all, delete-orphan"),
three starting situations (both constructed by the application; parent loaded + child constructed; both loaded and linked in the
database), operations PAIR_OPS: add / delete / expunge of either object, expire / refresh / merge of the parent, append / remove of the
child to / from the parent's collection, flush / commit / rollback / close / expire_all.  The contract below is evaluated for BOTH objects
after every operation, whichever object the operation named.

Primary-key changes.  Third family of histories: one object (constructed, or loaded) and the operations PK_OPS — add / expunge / delete, a change of
the object's primary key `pk(o1)` (-> at the next flush `Session._register_persistent` switches the identity key and the transaction records the
switch; a rollback puts the recorded key back in `SessionTransaction._restore_snapshot`), flush / commit / rollback, SAVEPOINT begin and rollback.

Contract, `ensures` of every operation, per tracked object o (s0 = state before the call, s1 = state after):
  P  exactly one of inspect(o).transient / pending / persistent / deleted / detached is true, before and after
  T  the events e1..en fired for o during the call form a PATH: src(e1) == s0, dst(ei) == src(ei+1), dst(en) == s1; with no event
     s0 == s1.  One operation may take several transitions (commit of a flushed-deleted object: persistent->deleted->detached).
     For make_transient the path may be followed by the silent edge to transient; for make_transient_to_detached the silent edge
     transient->detached is the whole path.  An operation that raises is judged by the same rule.
A history whose proper prefix already violated T is not judged again.
"""
import json
import time

from rtc import ormharness as H

FN = "orm/session.py::lifecycle"
EVENTS = ["transient_to_pending", "pending_to_transient", "pending_to_persistent", "persistent_to_transient", "persistent_to_deleted",
          "deleted_to_persistent", "deleted_to_detached", "persistent_to_detached", "detached_to_persistent", "loaded_as_persistent"]
STATES = ("transient", "pending", "persistent", "deleted", "detached")
OBJ_OPS = ["add", "delete", "expunge", "make_transient", "mt2d", "modify", "refresh", "merge"]
SES_OPS = ["flush", "commit", "rollback", "close", "begin_nested", "get"]
OPS1 = [f"{o}(o1)" for o in OBJ_OPS] + SES_OPS
OPS2 = [f"{o}(o{i})" for i in (1, 2) for o in OBJ_OPS] + SES_OPS
CASCADES = ["save-update, merge", "all", "all, delete-orphan"]
PAIR_STARTS = ["transient", "parent persistent", "persistent"]
PAIR_OPS = [f"{o}(o{i})" for i in (1, 2) for o in ("add", "delete", "expunge")] + ["expire(o1)", "refresh(o1)", "merge(o1)", "append(o2)", "remove(o2)"] + \
           ["flush", "commit", "rollback", "close", "expire_all"]
PK_OPS = ["add(o1)", "expunge(o1)", "delete(o1)", "pk(o1)", "modify(o1)", "flush", "commit", "rollback", "begin_nested", "rollback_nested"]
_G = dict(engine=None, installed=False, log=[], pair_engine=None)
_PAIRS = None


def pair_mappings():
    """{cascade: (K, Kc)} — parent class K with `kids = relationship(Kc, cascade=<cascade>)`, one pair of classes (own tables) per cascade
    configuration, one MetaData; built once per process"""
    global _PAIRS
    if _PAIRS is not None:
        return _PAIRS
    from sqlalchemy import Column, ForeignKey, Integer
    from sqlalchemy.orm import configure_mappers, declarative_base, relationship
    Base = declarative_base()
    out = {}
    for n, casc in enumerate(CASCADES):
        K = type(f"K{n}", (Base,), dict(__tablename__=f"k{n}", id=Column(Integer, primary_key=True), x=Column(Integer),
                                        kids=relationship(f"Kc{n}", cascade=casc, back_populates="par", order_by=f"Kc{n}.id")))
        Kc = type(f"Kc{n}", (Base,), dict(__tablename__=f"kc{n}", id=Column(Integer, primary_key=True), pid=Column(ForeignKey(f"k{n}.id")), x=Column(Integer),
                                          par=relationship(f"K{n}", back_populates="kids")))
        out[casc] = (K, Kc)
    configure_mappers()
    _PAIRS = dict(Base=Base, pairs=out)
    return _PAIRS


def install():
    if _G["installed"]:
        return
    from sqlalchemy import event
    from sqlalchemy.orm import Session
    for name in EVENTS:
        event.listen(Session, name, lambda sess, obj, *a, name=name: _G["log"].append((name, obj)))
    _G["installed"] = True


def state_of(o):
    from sqlalchemy import inspect
    i = inspect(o)
    return [n for n in STATES if getattr(i, n)]


def do(name, s, objs, P):
    from sqlalchemy.orm import make_transient, make_transient_to_detached
    if "(" in name:
        op, arg = name[:-1].split("(")
        o = objs[int(arg[1:]) - 1]
    else:
        op, o = name, None
    if op == "add":
        s.add(o)
    elif op == "delete":
        s.delete(o)
    elif op == "expunge":
        s.expunge(o)
    elif op == "make_transient":
        make_transient(o)
    elif op == "mt2d":
        make_transient_to_detached(o)
    elif op == "modify":
        o.x = (o.x or 0) + 1
    elif op == "pk":
        o.id = (o.id or 0) + 10
    elif op == "rollback_nested":
        t = s.get_nested_transaction()
        if t is not None:
            t.rollback()
    elif op == "refresh":
        s.refresh(o)
    elif op == "expire":
        s.expire(o)
    elif op == "expire_all":
        s.expire_all()
    elif op == "append":
        objs[0].kids.append(o)
    elif op == "remove":
        objs[0].kids.remove(o)
    elif op == "merge":
        s.merge(o)
    elif op == "flush":
        s.flush()
    elif op == "commit":
        s.commit()
    elif op == "rollback":
        s.rollback()
    elif op == "close":
        s.close()
    elif op == "begin_nested":
        s.begin_nested()
    elif op == "get":
        s.get(P, 1)


def judge(op, before, after, evs):
    """clause T -> None or a sentence"""
    cur = before
    for ev in evs:
        if ev == "loaded_as_persistent":
            return "loaded_as_persistent fired for an object the application constructed"
        src, dst = ev.split("_to_")
        if src != cur:
            return f"event {ev} fired while the object was {cur}"
        cur = dst
    if cur == after:
        return None
    if op.startswith("make_transient(") and after == "transient":
        return None
    if op.startswith("mt2d(") and cur == "transient" and after == "detached" and not evs:
        return None
    return f"state went {before} -> {after} but the events account for {before} -> {cur}"


def _start_pair(cascade, start, engine):
    """the pair world: -> (session, [parent o1, child o2], parent class)"""
    from sqlalchemy.orm import Session
    K, Kc = pair_mappings()["pairs"][cascade]
    kt, ct = K.__table__.name, Kc.__table__.name
    with engine.begin() as c:
        c.exec_driver_sql(f"delete from {ct}")
        c.exec_driver_sql(f"delete from {kt}")
        if start != "transient":
            c.exec_driver_sql(f"insert into {kt} (id, x) values (1, 10)")
        if start == "persistent":
            c.exec_driver_sql(f"insert into {ct} (id, pid, x) values (1, 1, 10)")
    s = Session(engine)
    o1 = K(id=1) if start == "transient" else s.get(K, 1)
    o2 = s.get(Kc, 1) if start == "persistent" else Kc(id=1)
    if start == "persistent":
        assert list(o1.kids) == [o2]                          # both loaded, linked in the database, the collection loaded
    return s, [o1, o2], K


def run_history(names, nobj, engine=None, start="transient", cascade=None):
    """-> dict(fail=None|descriptor fields, failed_at, transitions=set, steps).  cascade=None: nobj independent objects of the harness class P;
    cascade=<one of CASCADES>: the parent / child pair (nobj is 2)"""
    from sqlalchemy.orm import Session
    from sqlalchemy.orm.util import was_deleted
    install()
    m = H.mappings()
    if cascade is not None:
        s, objs, cls = _start_pair(cascade, start, engine or _G["pair_engine"])
    else:
        cls = m.P
        engine = engine or _G["engine"]
        with engine.begin() as c:
            c.exec_driver_sql("delete from p")
            if start == "persistent":
                c.exec_driver_sql("insert into p (id, x) values (1, 10), (2, 20)")
        s = Session(engine)
        if start == "persistent":
            objs = [s.get(m.P, i + 1) for i in range(nobj)]       # loaded: persistent at the start of the history
        else:
            objs = [m.P(id=i + 1) for i in range(nobj)]           # constructed by the application: transient
    log = _G["log"]
    notes = [[] for _ in objs]
    transitions = set()
    cascaded = set()
    fail = None
    failed_at = None
    try:
        for i, name in enumerate(names):
            before = [state_of(o) for o in objs]
            if name.startswith("delete("):        # descriptive notes for narrow known-finding patterns (not part of the verdict)
                k = int(name[8:-1]) - 1
                if before[k] == ["deleted"]:
                    notes[k].append(f"{name} while deleted")
                elif before[k] == ["detached"] and was_deleted(objs[k]):
                    notes[k].append(f"{name} while detached after its deletion was committed")
                if cascade is not None and k == 0 and "delete" in cascade.replace("all", "delete") and objs[1] in objs[0].__dict__.get("kids", ()):
                    # the delete cascade hands the child in the parent's loaded collection to the same code path
                    if before[1] == ["deleted"]:
                        notes[1].append(f"{name} cascades to o2 while deleted")
                    elif before[1] == ["detached"] and was_deleted(objs[1]):
                        notes[1].append(f"{name} cascades to o2 while detached after its deletion was committed")
            del log[:]
            raised = None
            try:
                do(name, s, objs, cls)
            except Exception as ex:
                raised = type(ex).__name__
            after = [state_of(o) for o in objs]
            for k, o in enumerate(objs):
                evs = [ev for ev, ob in log if ob is o]
                if len(before[k]) != 1 or len(after[k]) != 1:
                    fail = dict(object=f"o{k + 1}", before=before[k], after=after[k], events=evs, raised=raised, notes=notes[k], broken="P: not exactly one lifecycle state")
                    break
                b, a = before[k][0], after[k][0]
                if b != a or evs:
                    if cascade is None:
                        transitions.add((name.split("(")[0], b, a, tuple(evs)))
                    else:
                        t = (name, f"o{k + 1}", b, a, tuple(evs))
                        transitions.add(t)
                        if "(" in name and not name.endswith(f"(o{k + 1})"):
                            cascaded.add(t)                        # the operation named the OTHER object: a transition by cascade
                why = judge(name, b, a, evs)
                if why:
                    fail = dict(object=f"o{k + 1}", before=b, after=a, events=evs, raised=raised, notes=notes[k], broken="T: " + why)
                    break
            if fail:
                failed_at = i
                break
    finally:
        del log[:]
        try:
            s.close()
        except Exception:
            pass
        del log[:]
    return dict(fail=fail, failed_at=failed_at, transitions=transitions, cascaded=cascaded)


def _worker(job):
    H.quiet()
    if _G["engine"] is None:
        _G["engine"] = H.new_engine()
    nobj, start, cascade = job["nobj"], job["start"], job.get("cascade")
    if cascade is not None and _G["pair_engine"] is None:
        _G["pair_engine"] = H.new_engine(pair_mappings()["Base"].metadata)
    ops = PAIR_OPS if cascade is not None else PK_OPS if job.get("family") == "pk" else (OPS1 if nobj == 1 else OPS2)
    res = dict(pk_evaluations=0, evaluations=0, steps=0, nontrivial=0, failures=[], samples=[], skipped_prefix_already_broken=0, transitions=set(), pair_evaluations=0,
               pair_transitions=set(), cascaded_transitions=set(), pair_samples=[])
    for idxs in H.job_sequences(len(ops), job):
        names = [ops[k] for k in idxs]
        r = run_history(names, nobj, start=start, cascade=cascade)
        res["evaluations"] += 1
        res["steps"] += len(names)
        if r["transitions"]:
            res["nontrivial"] += 1
            if cascade is None:
                res["transitions"] |= r["transitions"]
            else:
                res["pair_transitions"] |= {(cascade,) + t for t in r["transitions"]}
                res["cascaded_transitions"] |= {(cascade,) + t for t in r["cascaded"]}
        if cascade is not None:
            res["pair_evaluations"] += 1
        if job.get("family") == "pk":
            res["pk_evaluations"] += 1
        skey = "samples" if cascade is None else "pair_samples"
        extra = dict(pk_family=True) if job.get("family") == "pk" else {} if cascade is None else dict(pair_cascade=cascade)          # (key sorts after `ops`: known-finding patterns on the leading keys stay valid)
        if r["fail"]:
            if r["failed_at"] == len(names) - 1:
                res["failures"].append(dict(r["fail"], ops=names, objects=nobj, start=start, last_op=names[-1], **extra))
            else:
                res["skipped_prefix_already_broken"] += 1
        elif len(r["transitions"]) >= 2 and len(names) == job["length"] and not res[skey] and (cascade is None or r["cascaded"]):
            res[skey].append(dict(objects=nobj, start=start, ops=names, observed=[list(t[:-1]) + [list(t[-1])] for t in sorted(r["transitions"])], **extra))
    return res


def scope_for(tier):
    """lengths: one object, two independent objects, parent / child pair"""
    return ((1, 2, 3, 4), (1, 2, 3), (1, 2, 3)) if tier == "quick" else ((1, 2, 3, 4, 5), (1, 2, 3, 4), (1, 2, 3, 4))


def pk_scope_for(tier):
    return (1, 2, 3, 4, 5) if tier == "quick" else (1, 2, 3, 4, 5, 6)


def bounded(run, tier, seed):
    t0 = time.time()
    l1, l2, l3 = scope_for(tier)
    joblist = []
    for start in ("transient", "persistent"):
        joblist += H.jobs(len(OPS1), l1, min_jobs=100, nobj=1, start=start) + H.jobs(len(OPS2), l2, min_jobs=100, nobj=2, start=start)
    lpk = pk_scope_for(tier)
    for start in ("transient", "persistent"):
        joblist += H.jobs(len(PK_OPS), lpk, min_jobs=100, nobj=1, start=start, family="pk")
    for cascade in CASCADES:
        for start in PAIR_STARTS:
            joblist += H.jobs(len(PAIR_OPS), l3, min_jobs=16, nobj=2, start=start, cascade=cascade)
    if seed:
        import random
        random.Random(seed).shuffle(joblist)
    agg = H.Agg()
    for r in H.run_sharded(_worker, joblist):
        agg.add(r)
    failures = agg.get("failures", [])
    seen = set()
    for d in sorted(failures, key=lambda d: (len(d["ops"]), d["objects"], d.get("pair_cascade", ""), d["start"], d["ops"])):
        dj = json.dumps(d, sort_keys=True, default=repr)
        k = run.match_known(function=FN + "/" + d["last_op"].split("(")[0], input=dj)
        if k is not None:
            run.known_finding(k, "bounded replay on the real functions")
            continue
        cls = (d["last_op"].split("(")[0], d["before"] if isinstance(d["before"], str) else "?", tuple(d["events"]), d["after"] if isinstance(d["after"], str) else "?")
        if cls in seen or len(seen) >= 8:
            continue
        seen.add(cls)
        world = "pk" if d.get("pk_family") else f"{d['objects']}obj" if "pair_cascade" not in d else "pair-" + d["pair_cascade"].replace(", ", "+")
        run.violation(f"lifecycle-{world}-{d['start']}-" + "-".join(d["ops"]),
                      dict(function=FN + "/" + d["last_op"].split("(")[0], input=d, expected="events form a path of the documented automaton from the state before to the state after",
                           actual=d["broken"], reason="bounded run-time contract check (C35_bounded)"))
    trans = agg.get("transitions", set())
    ptrans = agg.get("pair_transitions", set())
    ctrans = agg.get("cascaded_transitions", set())
    samples = sorted(agg.get("samples", []), key=lambda x: (-len(x["observed"]), x["ops"]))[:3]
    psamples = sorted(agg.get("pair_samples", []), key=lambda x: (-len(x["observed"]), x["pair_cascade"], x["start"], x["ops"]))
    samples += [next(x for x in psamples if x["pair_cascade"] == c) for c in CASCADES if any(x["pair_cascade"] == c for x in psamples)]
    blk = dict(
        scope=f"(a) objects of one mapped class, either constructed by the application (transient at the start) or loaded (persistent at the start), one Session on SQLite :memory: per history; for each start ALL histories of length in "
              f"{list(l1)} over {len(OPS1)} operations on one object {OPS1} and ALL histories of length in {list(l2)} over {len(OPS2)} operations on two objects; "
              f"(b) a parent o1 and a child o2 related by a one-to-many with back reference, for each cascade configuration in {CASCADES} x each start in {PAIR_STARTS} "
              f"(both constructed / parent loaded, child constructed / both loaded, linked and the collection loaded) ALL histories of length in {list(l3)} over the {len(PAIR_OPS)} operations "
              f"{PAIR_OPS} (append / remove = o1.kids.append(o2) / .remove(o2)); (c) one object, constructed or loaded, ALL histories of length in {list(lpk)} over the {len(PK_OPS)} operations {PK_OPS} "
              f"(pk = change of the object's primary key, rollback_nested = rollback of the innermost SAVEPOINT); clauses P and T evaluated for every object after every operation, including the object the operation did not name",
        evaluations=agg["evaluations"], distinct_nontrivial=len(trans) + len(ptrans),
        rule="histories are enumerated exhaustively; distinct_nontrivial counts the DISTINCT observed (operation, state before, state after, events fired) tuples — for the pair family "
             "(cascade configuration, operation, object, state before, state after, events fired) — with a state change or at least one event: the distinct edges / paths of the automaton "
             "actually exercised and judged (identity steps without events are trivial)",
        samples=samples, exhaustive=True, label="bounded (not proof)",
        steps=agg["steps"], histories_with_a_transition=agg["nontrivial"], contract_failures=len(failures),
        primary_key_change_histories=agg["pk_evaluations"], pair_histories=agg["pair_evaluations"], distinct_pair_transitions=len(ptrans),
        distinct_transitions_by_cascade=len(ctrans),
        transitions_by_cascade_per_configuration={c: len([t for t in ctrans if t[0] == c]) for c in CASCADES},
        skipped_prefix_already_broken=agg["skipped_prefix_already_broken"], wall_s=round(time.time() - t0, 1))
    run.coverage.setdefault("bounded", []).append(blk)
    return blk


def replay(data):
    H.quiet()
    d = data["input"]
    casc = d.get("pair_cascade")
    eng = H.new_engine() if casc is None else H.new_engine(pair_mappings()["Base"].metadata)
    r = run_history(d["ops"], d["objects"], eng, d.get("start", "transient"), casc)
    if r["fail"]:
        print(f"REPLAY-FAILS {FN} ops={d['ops']} {r['fail']}")
        return 1
    print(f"REPLAY-PASSES {FN} ops={d['ops']}")
    return 0
