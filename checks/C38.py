"""C38 — bounded run-time contract check (see checks/C38_bounded.py for the contract and scope); proof kernel: see DESIGN §5 C38."""
from vlib.thin import run_bounded_only

LEVEL = "exploration"


def run(run, tier, seed, args):
    run_bounded_only(run, "C38", tier, seed)
