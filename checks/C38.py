"""C38 — instrumented collections behave like the Python types they wrap: the integer-index list operations and every
instrumented set operation (add, discard, remove, pop, clear, update, difference_update, intersection_update,
symmetric_difference_update and the four in-place operators) under proof -- contents as the builtin's and events that account
exactly for the members that arrived and left; slices, dicts and iterable arguments with repeats as the bounded complement."""
import importlib
import contracts.collections_list  # noqa: F401
import contracts.collections_set  # noqa: F401
import contracts.collections_dict  # noqa: F401
from pyvc.contract import FUNCS
from vlib.proof import run_proofs
from vlib.bounded import run_bounded

LEVEL = "proof"
KEYS = [k for k, c in FUNCS.items() if "C38" in c.props and c.proof and not c.abstract]


def run(run, tier, seed, args):
    run_proofs(run, KEYS, tier, update_baseline=args.update_baseline, source_root=args.source_root)
    if not args.source_root:
        run_bounded(run, [k for k in KEYS if FUNCS[k].harness], tier)
        importlib.import_module("checks.C38_bounded").bounded(run, tier, seed)
    run.assumptions += [
        "assumed contracts on the event helpers: __set logs ('A', item) and returns the item unchanged, __del logs ('R', item), __before_pop does nothing observable",
        "`fn` is the builtin list method of the same name (builtin contract); user-defined __eq__ of members is not modelled",
        "under proof: list append, insert, remove, __setitem__(int), __delitem__(int), pop, extend, +=, clear; all 13 set decorators with a set argument (the event clause of the bulk operations is order-insensitive: the ghost log starts empty and ends duplicate free with exactly one 'R' per member that left and one 'A' per arrival, 'W' for re-added members); dict __setitem__, __delitem__, pop, popitem, setdefault, clear (events over the values)",
        "bounded complement only: list slice forms (slice assignment has known defects, DESIGN §6 #3-#5), dict update(**kw), set operations with non-set iterables (repeated members), _set_binops_check_strict (an arbitrary bool here)",
    ]
