"""C20 - database URLs round-trip through their string form.

Functions under contract (real code, /repo/lib/sqlalchemy/engine/url.py):
  URL.create, URL.render_as_string(hide_password=False), make_url / _parse_url, URL.__eq__

Contract K (inverse pair).
  requires  drivername matches [\\w+]+ ; username / password / database are str or None; host is None or a syntactically
            valid host (no / ? @ ; ':' only in an IPv6 literal); port None or int >= 0; query keys str, query values str
            or tuples of >= 2 str (the canonical forms URL.create keeps).
  ensures   v = make_url(u.render_as_string(hide_password=False)) does not raise,
            v == u (the real URL.__eq__), and component by component (drivername, username, password, host, port,
            database, query as a plain dict) v equals u - so no text moved from one component into another;
            URL.__eq__ agrees with the component-wise comparison.
  The CPython pairs the code relies on are checked on the same strings as an *assumption*:
            unquote(quote(x, safe)) == x,  parse_qsl(quote_plus(k)=quote_plus(x)) == [(k, x)] for x != "".

Scope Bd (exhaustive, every block a full product; fixed values are chosen outside the alphabet so blocks are disjoint):
  alphabet { @ : / ? % + & = # [ space a u-umlaut };  S(n) = all strings of length 1..n;  V(n) = {None, ""} + S(n)
  n = 3 (quick) / 4 (thorough);  m = 2 (quick) / 3 (thorough)
  single  each of username, password, database over V(n), query key over {""}+S(n), query value over {""}+S(n), the other
          components fixed at context B (user "u", password "p w", host "::1", port 5432, database "d/b", query k=v)
          and at context D (host "db.example.org", port 5432, rest absent; password varies with username "u",
          database with username "usr")
  pairs   (first component over length <= m, second over length <= 2)  username x password over V(m) x V(2), and in thorough
          also password (length 3) x username V(2);  database x query key, database x query value over V(m) x ({""}+S(2));
          query key x query value over ({""}+S(m)) x ({""}+S(2)); each in context A (host "h") and context C (nothing else)
  multi   query values that are tuples (x, y), x, y over {""}+S(1), and two keys at once
  hosts   drivername {pg, a+b, a_b1} x host {None, localhost, 1.2.3.4, db-1.example.org, ::1, fe80::1} x port {None, 0, 5432}
          x username {None, "u"} x database {None, "", "d"}
  Inside the scope but failing on the unchanged tree (known findings, matched by input *and* symptom):
  a blank query value (dropped by parse_qsl); a password given without a username (never rendered).
"""
import itertools
import json
from urllib.parse import parse_qsl, quote, quote_plus, unquote

from sqlalchemy.engine import URL, make_url

from rtc import strspec as S

LEVEL = "exploration"

ALPHABET = "@:/?%+&=#[ aü"
CTX = {
    "A": dict(host="h"),
    "B": dict(username="u", password="p w", host="::1", port=5432, database="d/b", query={"k": "v"}),
    "C": dict(),
    "D": dict(host="db.example.org", port=5432),
}
FIELDS = ("drivername", "username", "password", "host", "port", "database", "query")


def _desc(kw):
    d = dict(drivername="drv", username=None, password=None, host=None, port=None, database=None, query={})
    d.update(kw)
    d["query"] = {k: (list(v) if isinstance(v, tuple) else v) for k, v in d["query"].items()}
    return d


def _create(desc):
    q = {k: (tuple(v) if isinstance(v, list) else v) for k, v in desc["query"].items()}
    return URL.create(desc["drivername"], username=desc["username"], password=desc["password"], host=desc["host"],
                      port=desc["port"], database=desc["database"], query=q)


def _components(u):
    return (u.drivername, u.username, u.password, u.host, u.port, u.database, dict(u.query))


def _naive(desc):
    """the rendering without any quoting - only used to count the cases in which quoting did something"""
    s = desc["drivername"] + "://"
    if desc["username"] is not None:
        s += desc["username"]
        if desc["password"] is not None:
            s += ":" + desc["password"]
        s += "@"
    if desc["host"] is not None:
        s += "[%s]" % desc["host"] if ":" in desc["host"] else desc["host"]
    if desc["port"] is not None:
        s += ":%d" % desc["port"]
    if desc["database"] is not None:
        s += "/" + desc["database"]
    if desc["query"]:
        s += "?" + "&".join("%s=%s" % (k, e) for k in sorted(desc["query"])
                            for e in ([desc["query"][k]] if isinstance(desc["query"][k], str) else desc["query"][k]))
    return s


def _known_defect_image(desc):
    """what the two recorded defects turn `desc` into; returns (symptom names, expected components)"""
    sym = []
    d = dict(desc)
    q = {}
    blank = False
    for k, v in desc["query"].items():
        elems = [v] if isinstance(v, str) else list(v)
        kept = [e for e in elems if e != ""]
        if len(kept) != len(elems):
            blank = True
        if len(kept) == 1:
            q[k] = kept[0]
        elif kept:
            q[k] = tuple(kept)
    if blank:
        sym.append("blank-query-value-dropped")
    if desc["username"] is None and desc["password"] is not None:
        sym.append("password-without-username-dropped")
        d["password"] = None
    return sym, (d["drivername"], d["username"], d["password"], d["host"], d["port"], d["database"], q)


def check(desc):
    """evaluate the contract on the real functions; returns (rendered, None) or (rendered, failure dict)"""
    u = _create(desc)
    want = _components(u)
    s = u.render_as_string(hide_password=False)
    try:
        v = make_url(s)
    except Exception as e:  # the contract says: does not raise
        return s, dict(function="sqlalchemy.engine.url.make_url", clause="parse-raises", input=desc, rendered=s,
                       expected=repr(want), actual="%s: %s" % (type(e).__name__, e), symptom="raises")
    got = _components(v)
    eq = v == u
    if got == want and eq and not (v != u):
        return s, None
    if got == want:
        return s, dict(function="sqlalchemy.engine.url.URL.__eq__", clause="eq-disagrees", input=desc, rendered=s,
                       expected="equal components compare equal", actual="__eq__ -> %r, __ne__ -> %r" % (eq, v != u),
                       symptom="eq")
    sym, image = _known_defect_image(desc)
    if sym and got == image:
        symptom = "+".join(sym)
        fn = ("sqlalchemy.engine.url._parse_url" if sym == ["blank-query-value-dropped"]
              else "sqlalchemy.engine.url.URL.render_as_string" if sym == ["password-without-username-dropped"]
              else "sqlalchemy.engine.url.make_url(URL.render_as_string)")
    else:
        symptom = "components-differ:" + ",".join(f for f, a, b in zip(FIELDS, got, want) if a != b)
        fn = "sqlalchemy.engine.url.make_url(URL.render_as_string)"
    return s, dict(function=fn, clause="roundtrip", input=desc, rendered=s, expected=repr(want), actual=repr(got),
                   eq_result=eq, symptom=symptom)


# ------------------------------------------------------------------------------------------------ enumeration

def _cases(block, ctx, firsts, n, m):
    base = CTX[ctx]
    if block == "username":
        for x in firsts:
            yield dict(base, username=x)
    elif block == "password":
        for x in firsts:
            yield dict(base, username="u", password=x)
    elif block == "database":
        for x in firsts:
            yield dict(base, database=x) if ctx != "D" else dict(base, username="usr", database=x)
    elif block == "qkey":
        for x in firsts:
            yield dict(base, query={x: "v"})
    elif block == "qvalue":
        for x in firsts:
            yield dict(base, query={"k": x})
    elif block == "user*pass":
        for x in firsts:
            for y in [None, ""] + S.strings(ALPHABET, 2, 1):
                yield dict(base, username=x, password=y)
    elif block == "pass*user":
        for x in firsts:
            for y in [None, ""] + S.strings(ALPHABET, 2, 1):
                yield dict(base, username=y, password=x)
    elif block == "db*qkey":
        for x in firsts:
            for y in S.strings(ALPHABET, 2):
                yield dict(base, database=x, query={y: "v"})
    elif block == "db*qvalue":
        for x in firsts:
            for y in S.strings(ALPHABET, 2):
                yield dict(base, database=x, query={"k": y})
    elif block == "qkey*qvalue":
        for x in firsts:
            for y in S.strings(ALPHABET, 2):
                yield dict(base, query={x: y})
    elif block == "multi":
        one = S.strings(ALPHABET, 1)
        for x in firsts:
            for y in one:
                yield dict(base, query={"k": (x, y)})
                yield dict(base, query={"k": (x, y), "k2": "w"})
                if x != y:
                    yield dict(base, query={x: "v", y: "w"})
    elif block == "hosts":
        for drv in firsts:
            for host, port, user, db in itertools.product((None, "localhost", "1.2.3.4", "db-1.example.org", "::1", "fe80::1"),
                                                          (None, 0, 5432), (None, "u"), (None, "", "d")):
                yield dict(drivername=drv, host=host, port=port, username=user, database=db)


def _tasks(n, m, nj):
    Vn = [None, ""] + S.strings(ALPHABET, n, 1)
    Sn = S.strings(ALPHABET, n)
    Vm = [None, ""] + S.strings(ALPHABET, m, 1)
    Sm = S.strings(ALPHABET, m)
    plan = []
    for ctx in "BD":
        plan += [("username", ctx, Vn), ("password", ctx, Vn), ("database", ctx, Vn), ("qkey", ctx, Sn), ("qvalue", ctx, Sn)]
    for ctx in "AC":
        plan += [("user*pass", ctx, Vm), ("db*qkey", ctx, Vm), ("db*qvalue", ctx, Vm), ("qkey*qvalue", ctx, Sm),
                 ("multi", ctx, S.strings(ALPHABET, 1))]
        if m > 2:  # the long side on the password too; only passwords longer than 2 so that the blocks stay disjoint
            plan += [("pass*user", ctx, S.strings(ALPHABET, m, 3))]
    plan += [("hosts", "C", ["pg", "a+b", "a_b1"])]
    tasks = []
    for block, ctx, firsts in plan:
        per = len(firsts) * (1 if block in ("username", "password", "database", "qkey", "qvalue", "multi", "hosts") else 184)
        parts = 1 if per < 4000 else min(nj * 2, len(firsts))
        for c in S.chunks(firsts, parts):
            tasks.append((block, ctx, c, n, m))
    return tasks


def _work(task):
    block, ctx, firsts, n, m = task
    evals = nontrivial = 0
    fails = []
    nfail = 0
    samples = []
    digests = set() if n <= 3 else None
    for kw in _cases(block, ctx, firsts, n, m):
        desc = _desc(kw)
        s, f = check(desc)
        evals += 1
        if s != _naive(desc):
            nontrivial += 1
            if not samples:
                samples.append(dict(input=desc, rendered=s, block=block, context=ctx))
        if digests is not None:
            digests.add(json.dumps(desc, sort_keys=True))
        if f is not None:
            nfail += 1
            fails.append(f)
    return dict(block=block, ctx=ctx, evals=evals, nontrivial=nontrivial, fails=fails, nfail=nfail, samples=samples,
                digests=digests)


def _cpython_pairs(strs):
    n = 0
    bad = []
    for x in strs:
        n += 4
        if unquote(quote(x, safe=" +")) != x or unquote(quote(x, safe=" +/")) != x:
            bad.append(("quote/unquote", x))
        if parse_qsl(quote_plus(x) + "=" + quote_plus("v")) != [(x, "v")]:
            bad.append(("parse_qsl key", x))
        if x != "" and parse_qsl("k=" + quote_plus(x)) != [("k", x)]:
            bad.append(("parse_qsl value", x))
    return n, bad[:5]


def run(run, tier, seed, args):
    import sqlalchemy
    n, m = (3, 2) if tier == "quick" else (4, 3)
    nj = S.jobs()
    tasks = _tasks(n, m, nj)
    res = S.pmap(_work, tasks)
    F = S.Findings(run)
    F.extend(sorted((f for r in res for f in r["fails"]), key=lambda f: (len(json.dumps(f["input"])), json.dumps(f["input"], sort_keys=True))))
    F.finish()
    cp = S.pmap(_cpython_pairs, S.chunks(S.strings(ALPHABET, n), nj))
    cp_bad = [b for c in cp for b in c[1]]
    if cp_bad:
        run.crashes.append("assumed CPython inverse pair does not hold: %r" % (cp_bad[:3],))
    evals = sum(r["evals"] for r in res)
    cov = dict(
        evaluations=evals,
        distinct_nontrivial=sum(r["nontrivial"] for r in res),
        rule="every URL of every block is built with URL.create, rendered, re-parsed and compared (one evaluation each); blocks are "
             "full products and disjoint by construction (fixed values lie outside the alphabet). Non-trivial = the real rendering "
             "differs from plain concatenation of the components, i.e. at least one component needed quote()/quote_plus() escaping "
             "or IPv6 bracketing (string comparison per case).",
        blocks=[dict(block=b, context=c, urls=sum(r["evals"] for r in res if (r["block"], r["ctx"]) == (b, c)),
                     failing=sum(r["nfail"] for r in res if (r["block"], r["ctx"]) == (b, c)))
                for b, c in sorted({(r["block"], r["ctx"]) for r in res})],
        cpython_pair_evaluations=sum(c[0] for c in cp),
        samples=[s for r in res for s in r["samples"]][:8],
        exhaustive=True,
        scope="alphabet %r; singles over strings of length <= %d (+None, ''), pairs over strings of length <= %d (+None, ''), "
              "(second component <= 2), contexts A/B/C/D, tuple query values, host/port/drivername table (module docstring)" % (ALPHABET, n, m),
        sqlalchemy_tree=sqlalchemy.__file__,
    )
    if all(r["digests"] is not None for r in res):
        allk = set()
        for r in res:
            allk |= r["digests"]
        cov["distinct_inputs_checked"] = len(allk)
        if len(allk) != evals:
            run.crashes.append("blocks are not disjoint: %d distinct inputs for %d evaluations" % (len(allk), evals))
    run.coverage.update(cov)
    run.assumptions += [
        "urllib.parse.quote / unquote / quote_plus / parse_qsl and re are CPython's; their inverse-pair behaviour is checked on the "
        "same strings (a failure there is a checker error, not a violation)",
        "host is syntactically valid (no '/', '?', '@'; ':' only inside an IPv6 literal) and port is None or a non-negative int: "
        "precondition, hosts are taken from a fixed table, not from the adversarial alphabet",
        "query values are str or tuples of >= 2 str (a 1-tuple is normalised to a str by the parser by design); password objects "
        "other than str are outside",
        "lone surrogates, NUL and characters outside the 13-character alphabet are outside the enumerated scope",
        "whether a DBAPI / dialect interprets the parsed components the same way (translate_connect_args) is outside",
    ]


def replay(data):
    desc = data["input"]
    s, f = check(desc)
    if f is None:
        print("REPLAY-PASSES C20 URL.create(**%r) renders %r and parses back to an equal URL" % (desc, s))
        return 0
    print("REPLAY-FAILS C20 URL.create(**%r) renders %r; parsed back: %s; expected %s [%s, %s]"
          % (desc, s, f["actual"], f["expected"], f["clause"], f["symptom"]))
    return 1
