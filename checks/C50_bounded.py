"""C50 bounded complement — OrderingList positions and association proxies against plain list / set / dict models.

Driven (real, tree under test):
  * `ext.orderinglist.OrderingList` as a relationship collection (`ordering_list('position', count_from=1)`, mode "bound") and as
    a plain list of simple objects (mode "plain": the un-instrumented class, loaded from the tree's source under an alias): append, insert, remove, pop, __setitem__ (int / slice), __delitem__ (int / slice),
    extend, +=, reverse, sort, clear, reorder;
  * `ext.associationproxy._AssociationList / _AssociationSet / _AssociationDict` on in-memory mapped classes (creator / getter /
    setter closures): every mutator they define plus the read operations;
  * bulk assignment through the owning object's attribute (`owner.proxy = value` -> AssociationProxyInstance.set -> _bulk_replace of the
    list / set / dict proxy; `parent.items = [...]` -> collections.bulk_replace into a new OrderingList): value empty, overlapping
    the current contents (members kept, kept with ANOTHER value [dict], dropped, new, duplicated), derived from the current contents,
    or the proxy itself — an operation of the catalogue like any other, so it occurs at every place of a sequence and before flush.
    The plain model of `owner.attr = value` is: the model collection holds list(value) / set(value) / dict(value) afterwards.
Contract, `ensures` of every operation, the same operation applied side by side to a plain Python list / set / dict model:
  L  same outcome: same return value (objects compared by name) or the same exception type, and afterwards the same contents
  O  OrderingList rep invariant restored: position(self[i]) == i + count_from for every i  ("position equals index after ANY list
     operation" — so list.reverse / list.sort, which OrderingList inherits un-overridden, are in the operation set)
  I  association proxy: the underlying collection holds exactly one intermediary object per proxied value, carrying that value
     (list: same order; set / dict: same multiset / mapping)
  F  (sequences up to the flush bound) after Session.flush + expire + reload on SQLite :memory: the rows give back the same order /
     the same values.
A sequence whose proper prefix already failed is not judged again.
"""
import json
import time

from rtc import ormharness as H

FN = "ext::C50"
_M = None
_G = dict(engine=None)


def mappings():
    global _M
    if _M is not None:
        return _M
    import types
    from sqlalchemy import Column, ForeignKey, Integer, String
    from sqlalchemy.ext.associationproxy import association_proxy
    from sqlalchemy.ext.orderinglist import ordering_list
    from sqlalchemy.orm import attribute_keyed_dict, configure_mappers, declarative_base, relationship
    Base = declarative_base()

    class OI(Base):
        __tablename__ = "c50_oi"
        id = Column(Integer, primary_key=True)
        pid = Column(ForeignKey("c50_op.id"))
        name = Column(String)
        position = Column(Integer)

    class OP(Base):
        __tablename__ = "c50_op"
        id = Column(Integer, primary_key=True)
        items = relationship(OI, order_by=OI.position, collection_class=ordering_list("position", count_from=1))

    class AK(Base):
        __tablename__ = "c50_ak"
        id = Column(Integer, primary_key=True)
        pid = Column(ForeignKey("c50_ap.id"))
        name = Column(String)

    class AT(Base):
        __tablename__ = "c50_at"
        id = Column(Integer, primary_key=True)
        pid = Column(ForeignKey("c50_ap.id"))
        name = Column(String)

    class AV(Base):
        __tablename__ = "c50_av"
        id = Column(Integer, primary_key=True)
        pid = Column(ForeignKey("c50_ap.id"))
        key = Column(String)
        value = Column(String)

    class AP(Base):
        __tablename__ = "c50_ap"
        id = Column(Integer, primary_key=True)
        kids = relationship(AK, order_by=AK.id)
        kid_names = association_proxy("kids", "name", creator=lambda n: AK(name=n))
        tagobjs = relationship(AT, collection_class=set)
        tags = association_proxy("tagobjs", "name", creator=lambda n: AT(name=n))
        propobjs = relationship(AV, collection_class=attribute_keyed_dict("key"))
        props = association_proxy("propobjs", "value", creator=lambda k, v: AV(key=k, value=v))

    configure_mappers()
    _M = types.SimpleNamespace(Base=Base, OI=OI, OP=OP, AK=AK, AT=AT, AV=AV, AP=AP)
    return _M


# ----------------------------------------------------------------------------------------------- operation catalogues
# every operation is a function (c, k): c = the real collection or the plain model, k.new() = a fresh element (object on the real
# side, its name on the model side), k.key = sort key.  Existing elements are addressed by index so both sides name the same one.
def _ol_ops():
    o = []

    def add(name, fn):
        o.append((name, fn))
    add("append(new)", lambda c, k: c.append(k.new()))
    add("insert(0,new)", lambda c, k: c.insert(0, k.new()))
    add("insert(1,new)", lambda c, k: c.insert(1, k.new()))
    add("insert(-1,new)", lambda c, k: c.insert(-1, k.new()))
    add("remove(c[0])", lambda c, k: c.remove(c[0]))
    add("remove(c[-1])", lambda c, k: c.remove(c[-1]))
    add("pop()", lambda c, k: c.pop())
    add("pop(0)", lambda c, k: c.pop(0))
    add("c[0]=new", lambda c, k: c.__setitem__(0, k.new()))
    add("c[-1]=new", lambda c, k: c.__setitem__(-1, k.new()))
    add("c[0:2]=[new,new]", lambda c, k: c.__setitem__(slice(0, 2), [k.new(), k.new()]))
    add("c[1:3]=[new,new]", lambda c, k: c.__setitem__(slice(1, 3), [k.new(), k.new()]))
    add("c[1:]=[new]", lambda c, k: c.__setitem__(slice(1, None), [k.new()]))
    add("del c[0]", lambda c, k: c.__delitem__(0))
    add("del c[-1]", lambda c, k: c.__delitem__(-1))
    add("del c[0:2]", lambda c, k: c.__delitem__(slice(0, 2)))
    add("extend([new,new])", lambda c, k: c.extend([k.new(), k.new()]))
    add("c+=[new]", lambda c, k: c.__iadd__([k.new()]) and None)
    add("reverse()", lambda c, k: c.reverse())
    add("sort(key=name,reverse=True)", lambda c, k: c.sort(key=k.key, reverse=True))
    add("clear()", lambda c, k: c.clear())
    return o


def _ol_bound_ops():
    """the relationship collection additionally takes bulk assignment `parent.items = [...]` (no entity twice: precondition)"""
    o = _ol_ops()
    o.append(("assign([])", lambda c, k: k.assign(c, [])))
    o.append(("assign([c[-1],new]+c[:-1])", lambda c, k: k.assign(c, [c[-1], k.new()] + list(c[:-1]))))
    o.append(("assign(c[1:]+[new])", lambda c, k: k.assign(c, list(c[1:]) + [k.new()])))
    return o


def _al_ops():
    o = []

    def add(name, fn):
        o.append((name, fn))
    for v in "ab":
        add(f"append('{v}')", lambda c, k, v=v: c.append(v))
        add(f"remove('{v}')", lambda c, k, v=v: c.remove(v))
    add("insert(0,'c')", lambda c, k: c.insert(0, "c"))
    add("insert(5,'a')", lambda c, k: c.insert(5, "a"))
    add("pop()", lambda c, k: c.pop())
    add("pop(0)", lambda c, k: c.pop(0))
    add("c[0]='c'", lambda c, k: c.__setitem__(0, "c"))
    add("c[-1]='b'", lambda c, k: c.__setitem__(-1, "b"))
    add("c[0:1]=['c','a']", lambda c, k: c.__setitem__(slice(0, 1), ["c", "a"]))
    add("c[1:]=['b']", lambda c, k: c.__setitem__(slice(1, None), ["b"]))
    add("c[::2]=['c']", lambda c, k: c.__setitem__(slice(None, None, 2), ["c"]))
    add("del c[0]", lambda c, k: c.__delitem__(0))
    add("del c[0:2]", lambda c, k: c.__delitem__(slice(0, 2)))
    add("extend(['b','c'])", lambda c, k: c.extend(["b", "c"]))
    add("c+=['a']", lambda c, k: c.__iadd__(["a"]) and None)
    add("c*=2", lambda c, k: c.__imul__(2) and None)
    add("c*=0", lambda c, k: c.__imul__(0) and None)
    add("clear()", lambda c, k: c.clear())
    # bulk assignment  owner.kid_names = <value>
    add("assign([])", lambda c, k: k.assign(c, []))
    add("assign(['b','a','c'])", lambda c, k: k.assign(c, ["b", "a", "c"]))
    add("assign(['a','a'])", lambda c, k: k.assign(c, ["a", "a"]))
    add("assign(['c']+list(c))", lambda c, k: k.assign(c, ["c"] + list(c)))
    add("assign(self)", lambda c, k: k.assign(c, c))
    # read operations (return value compared)
    add("read", lambda c, k: [len(c), "a" in c, c.count("a"), list(c[0:2]), list(c + ["z"]), list(c * 2), list(c.copy()), c == ["a", "b"], c != ["a"],
                              c.index("a") if "a" in c else None, c[-1] if len(c) else None])
    return o


def _as_ops():
    o = []

    def add(name, fn):
        o.append((name, fn))
    for v in "ab":
        add(f"add('{v}')", lambda c, k, v=v: c.add(v))
        add(f"discard('{v}')", lambda c, k, v=v: c.discard(v))
    add("remove('a')", lambda c, k: c.remove("a"))
    add("pop()", lambda c, k: c.pop() in {"a", "b", "c", "d"})      # arbitrary element: both sides are driven to the same choice below
    add("clear()", lambda c, k: c.clear())
    add("update(['b','c'])", lambda c, k: c.update(["b", "c"]))
    add("c|={'c','d'}", lambda c, k: c.__ior__({"c", "d"}) and None)
    add("c&={'a','c'}", lambda c, k: c.__iand__({"a", "c"}) and None)
    add("c-={'a','d'}", lambda c, k: c.__isub__({"a", "d"}) and None)
    add("c^={'a','d'}", lambda c, k: c.__ixor__({"a", "d"}) and None)
    add("intersection_update(['b','d'])", lambda c, k: c.intersection_update(["b", "d"]))
    add("difference_update(['b'])", lambda c, k: c.difference_update(["b"]))
    add("symmetric_difference_update(['b','c'])", lambda c, k: c.symmetric_difference_update(["b", "c"]))
    # bulk assignment  owner.tags = <value>
    add("assign(set())", lambda c, k: k.assign(c, set()))
    add("assign({'a','c'})", lambda c, k: k.assign(c, {"a", "c"}))
    add("assign(['b','d','b'])", lambda c, k: k.assign(c, ["b", "d", "b"]))
    add("assign(self)", lambda c, k: k.assign(c, c))
    add("read", lambda c, k: [len(c), "a" in c, sorted(c.union(["z"])), sorted(c.intersection(["a", "b"])), sorted(c.difference(["a"])), sorted(c.symmetric_difference(["a", "z"])),
                              sorted(c | {"y"}), sorted(c & {"a"}), sorted(c - {"b"}), sorted(c ^ {"a"}), c.issubset(["a", "b", "c"]), c.issuperset(["a"]), c == {"a", "b"}, c != {"a"},
                              c <= {"a", "b"}, c >= {"a"}, sorted(c.copy())])
    return o


def _ad_ops():
    o = []

    def add(name, fn):
        o.append((name, fn))
    for key in "ab":
        add(f"c['{key}']='1'", lambda c, k, key=key: c.__setitem__(key, "1"))
        add(f"del c['{key}']", lambda c, k, key=key: c.__delitem__(key))
    add("c['a']='2'", lambda c, k: c.__setitem__("a", "2"))
    add("pop('a')", lambda c, k: c.pop("a"))
    add("pop('b',None)", lambda c, k: c.pop("b", None))
    add("popitem()", lambda c, k: c.popitem())
    add("setdefault('c','3')", lambda c, k: c.setdefault("c", "3"))
    add("setdefault('a','9')", lambda c, k: c.setdefault("a", "9"))
    add("update({'b':'5','d':'6'})", lambda c, k: c.update({"b": "5", "d": "6"}))
    add("update(a='7')", lambda c, k: c.update(a="7"))
    add("update([('c','8')])", lambda c, k: c.update([("c", "8")]))
    add("clear()", lambda c, k: c.clear())
    # bulk assignment  owner.props = <value>: keys absent / present with the same value / present with another value / dropped
    add("assign({})", lambda c, k: k.assign(c, {}))
    add("assign({'a':'2','c':'3'})", lambda c, k: k.assign(c, {"a": "2", "c": "3"}))
    add("assign({'a':'1','b':'4'})", lambda c, k: k.assign(c, {"a": "1", "b": "4"}))
    add("assign({k:v+'0' for k,v in c})", lambda c, k: k.assign(c, {key: v + "0" for key, v in c.items()}))
    add("assign(dict(c))", lambda c, k: k.assign(c, dict(c.items())))
    add("assign(self)", lambda c, k: k.assign(c, c))
    add("read", lambda c, k: [len(c), "a" in c, c.get("a"), c.get("z", "dflt"), sorted(c.keys()), sorted(c.values()), sorted(c.items()), c == {"a": "1"}, c != {"a": "1"},
                              sorted(c.copy().items()), c["a"] if "a" in c else None])
    return o


_PRISTINE = {}


def pristine_orderinglist():
    """the tree's ext/orderinglist.py loaded a second time under an alias: an OrderingList class that no mapper has instrumented.
    (Once ANY mapper uses ordering_list(), orm.collections instruments the OrderingList class itself and its wrapped __setitem__ no
    longer reaches OrderingList's own slice code; the un-instrumented class is what a plain `OrderingList(...)` user gets.)"""
    if "m" not in _PRISTINE:
        import importlib.util
        import sys
        import sqlalchemy.ext.orderinglist as real
        spec = importlib.util.spec_from_file_location("sqlalchemy.ext._orderinglist_pristine_c50", real.__file__)
        mod = importlib.util.module_from_spec(spec)
        sys.modules[spec.name] = mod
        spec.loader.exec_module(mod)
        _PRISTINE["m"] = mod
    return _PRISTINE["m"]


class PlainE:      # element of a plain OrderingList
    def __init__(self, name):
        self.name = name
        self.position = None


ATTR = {"ol-bound": "items", "ap-list": "kid_names", "ap-set": "tags", "ap-dict": "props"}      # the attribute a bulk assignment sets
TARGETS = {"ol-bound": _ol_bound_ops, "ol-plain": _ol_ops, "ap-list": _al_ops, "ap-set": _as_ops, "ap-dict": _ad_ops}
INITS = {"ol-bound": (0, 3), "ol-plain": (0, 3), "ap-list": (0, 2), "ap-set": (0, 2), "ap-dict": (0, 2)}
_CATS = {}


def catalogue(target, core=False):
    """the operations of a target; core=True: without the bulk assignments (the quick tier's longest sequences)"""
    if target not in _CATS:
        _CATS[target] = TARGETS[target]()
    if core:
        return [c for c in _CATS[target] if not c[0].startswith("assign(")]
    return _CATS[target]


class Keys:
    def __init__(self, names, make, key, assign=None):
        self.names, self.make, self.key, self._assign = iter(names), make, key, assign

    def new(self):
        return self.make(next(self.names))

    def assign(self, c, value):
        """bulk assignment `owner.<attribute> = value` (real side: the attribute set on the owning object; model side: the plain
        collection takes the contents of `value`)"""
        if self._assign is not None:
            return self._assign(value)
        if isinstance(c, list):
            c[:] = list(value)
        elif isinstance(c, set):
            v = set(value)
            c.clear()
            c.update(v)
        else:
            v = dict(value)
            c.clear()
            c.update(v)


def norm(v):
    """return values with objects replaced by their names"""
    if isinstance(v, (list, tuple)):
        return [norm(x) for x in v]
    if hasattr(v, "name") and not isinstance(v, str):
        return v.name
    return v


def outcome(fn, c, k):
    try:
        return ["ok", norm(fn(c, k))]
    except Exception as ex:
        return ["raise", type(ex).__name__]


# ----------------------------------------------------------------------------------------------- one sequence
def setup(target, init):
    """-> (owner or None, real collection, model, underlying getter)"""
    m = mappings() if target != "ol-plain" else None
    if target == "ol-bound":
        p = m.OP()
        for n in "abc"[:init]:
            p.items.append(m.OI(name=n))
        return p, p.items, list("abc"[:init])
    if target == "ol-plain":
        c = pristine_orderinglist().ordering_list("position", count_from=1)()
        if hasattr(type(c).__setitem__, "_sa_instrumented"):
            raise RuntimeError("pristine OrderingList class is instrumented")
        for n in "abc"[:init]:
            c.append(PlainE(n))
        return None, c, list("abc"[:init])
    p = m.AP()
    if target == "ap-list":
        for n in "ab"[:init]:
            p.kids.append(m.AK(name=n))
        return p, p.kid_names, list("ab"[:init])
    if target == "ap-set":
        for n in "ab"[:init]:
            p.tagobjs.add(m.AT(name=n))
        return p, p.tags, set("ab"[:init])
    for n in "ab"[:init]:
        p.propobjs[n] = m.AV(key=n, value="1")
    return p, p.props, {n: "1" for n in "ab"[:init]}


def view(target, owner, real):
    """contents of the real side in model terms + clause O / I findings"""
    broken = []
    if target.startswith("ol-"):
        names = [e.name for e in real]
        pos = [e.position for e in real]
        if pos != list(range(1, len(names) + 1)):
            broken.append(f"O: positions {pos} != indices+1 {list(range(1, len(names) + 1))}")
        return names, broken
    if target == "ap-list":
        names = list(real)
        under = [k.name for k in owner.kids]
        if under != names:
            broken.append(f"I: intermediary objects carry {under}, the proxy shows {names}")
        return names, broken
    if target == "ap-set":
        vals = set(real)
        under = sorted(t.name for t in owner.tagobjs)
        if under != sorted(vals) or len(list(real)) != len(vals):
            broken.append(f"I: intermediary objects carry {under}, the proxy shows {sorted(real)}")
        return vals, broken
    vals = dict(real.items())
    under = {k: v.value for k, v in owner.propobjs.items()}
    if under != vals or any(k != v.key for k, v in owner.propobjs.items()):
        broken.append(f"I: intermediary objects carry {sorted(under.items())}, the proxy shows {sorted(vals.items())}")
    return vals, broken


def jsonable(v):
    if isinstance(v, set):
        return sorted(v)
    if isinstance(v, dict):
        return {k: v[k] for k in sorted(v)}
    return v


def run_seq(target, init, names, flush=False, engine=None):
    m = mappings() if target != "ol-plain" else None
    cat = dict(catalogue(target))
    owner, real, model = setup(target, init)
    make_real = (lambda n: m.OI(name=n)) if target == "ol-bound" else PlainE if target == "ol-plain" else None
    n = len(names)
    changed = False
    for step, name in enumerate(names):
        fn = cat[name]
        fresh = [f"s{step}{x}" for x in "xy"]
        before = jsonable(list(model) if isinstance(model, list) else (set(model) if isinstance(model, set) else dict(model)))
        if target == "ap-set" and name == "pop()":
            # set.pop() is arbitrary: pop from the real side, then remove that very element from the model
            try:
                v = real.pop()
                ro = ["ok", True]
                if v in model:
                    model.remove(v)
                    mo = ["ok", True]
                else:
                    mo = ["ok", f"popped {v!r} which the model does not hold"]
            except KeyError:
                ro = ["raise", "KeyError"]
                mo = ["raise", "KeyError"] if not model else ["ok", True]
        elif target == "ap-dict" and name == "popitem()":
            try:
                kv = real.popitem()
                ro = ["ok", True]
                mo = ["ok", True] if model.get(kv[0], object()) == kv[1] else ["ok", f"popped {kv!r} which the model does not hold"]
                model.pop(kv[0], None)
            except KeyError:
                ro = ["raise", "KeyError"]
                mo = ["raise", "KeyError"] if not model else ["ok", True]
        else:
            real_assign = (lambda value: setattr(owner, ATTR[target], value)) if owner is not None else None
            ro = outcome(fn, real, Keys(fresh, make_real, (lambda e: e.name), real_assign))
            mo = outcome(fn, model, Keys(fresh, (lambda x: x), (lambda x: x)))
            if owner is not None:
                real = getattr(owner, ATTR[target])        # a bulk assignment may have installed a new collection object
        rv, broken = view(target, owner, real)
        if ro != mo:
            broken.insert(0, f"L: outcome {ro} != plain model's {mo}")
        if rv != model:
            broken.insert(0, f"L: contents {jsonable(rv)} != plain model's {jsonable(model)}")
        if jsonable(model) != before:
            changed = True
        if broken:
            return dict(status="fail" if step == n - 1 else "skipped", broken=broken, before=before, model=jsonable(model), real=jsonable(rv), last=name, outcome=ro, model_outcome=mo)
    out = dict(status="ok", changed=changed, final=jsonable(model))
    if flush and owner is not None:
        b = flush_clause(target, owner, model, engine or _G["engine"])
        if b:
            return dict(status="fail", broken=b, before=jsonable(model), model=jsonable(model), real=None, last="flush+reload", outcome=None, model_outcome=None)
        out["flushed"] = True
    return out


def flush_clause(target, owner, model, engine):
    from sqlalchemy.orm import Session
    m = mappings()
    s = Session(engine)
    try:
        s.add(owner)
        try:
            s.flush()
        except Exception as ex:
            return [f"F: flush raised {type(ex).__name__}: {str(ex)[:160]}"]
        oid = owner.id
        conn = s.connection()
        if target == "ol-bound":
            rows = [r[0] for r in conn.exec_driver_sql(f"select name from c50_oi where pid={oid} order by position")]
            s.expire_all()
            back = [e.name for e in owner.items]
            if rows != model or back != model:
                return [f"F: rows ordered by position {rows} / reloaded {back} != {model}"]
        elif target == "ap-list":
            s.expire_all()
            back = list(owner.kid_names)
            if sorted(back) != sorted(model):
                return [f"F: reloaded {back} != {model} (as multisets)"]
        elif target == "ap-set":
            s.expire_all()
            back = sorted(owner.tags)
            if back != sorted(model):
                return [f"F: reloaded {back} != {sorted(model)}"]
        else:
            s.expire_all()
            back = dict(owner.props.items())
            if back != model:
                return [f"F: reloaded {back} != {model}"]
        return None
    finally:
        s.rollback()
        s.close()


# ----------------------------------------------------------------------------------------------- worker / entry
def _worker(job):
    H.quiet()
    target, init, flush = job["target"], job["init"], job.get("flush", False)
    if flush and _G["engine"] is None:
        _G["engine"] = H.new_engine(mappings().Base.metadata)
    cat = catalogue(target, job.get("core", False))
    res = dict(evaluations=0, nontrivial=0, failures=[], samples=[], skipped_prefix_already_broken=0, flushed=0, finals=set(), assign_nontrivial=0)
    for idxs in H.job_sequences(len(cat), job):
        names = [cat[k][0] for k in idxs]
        r = run_seq(target, init, names, flush)
        res["evaluations"] += 1
        if r["status"] == "skipped":
            res["skipped_prefix_already_broken"] += 1
        elif r["status"] == "fail":
            res["failures"].append(dict(target=target, init=init, ops=names, last_op=r["last"], broken=r["broken"], before=r["before"], model=r["model"], real=r["real"],
                                        outcome=r["outcome"], model_outcome=r["model_outcome"]))
        else:
            if r["changed"]:
                res["nontrivial"] += 1
            res["finals"].add((target, json.dumps(r["final"])))
            if r["changed"] and any(x.startswith("assign(") for x in names):
                res["assign_nontrivial"] += 1
            res["flushed"] += 1 if r.get("flushed") else 0
            if r["changed"] and not res["samples"] and len(names) == job["length"]:
                res["samples"].append(dict(target=target, init=init, ops=names, final=r["final"]))
    return res


def scope_for(tier):
    """(in-memory lengths over the full catalogue, in-memory lengths over the core catalogue [no bulk assignment], flush lengths)"""
    return ((1, 2), (3,), (1, 2)) if tier == "quick" else ((1, 2, 3), (4,), (1, 2, 3))


def bounded(run, tier, seed):
    t0 = time.time()
    mem, mem_core, fl = scope_for(tier)
    joblist = []
    for target in TARGETS:
        n = len(catalogue(target))
        for init in INITS[target]:
            joblist += H.jobs(n, mem, min_jobs=20, target=target, init=init)
            joblist += H.jobs(len(catalogue(target, True)), mem_core, min_jobs=20, target=target, init=init, core=True)
            if target != "ol-plain":
                joblist += H.jobs(n, fl, min_jobs=20, target=target, init=init, flush=True)
    if seed:
        import random
        random.Random(seed).shuffle(joblist)
    agg = H.Agg()
    for r in H.run_sharded(_worker, joblist):
        agg.add(r)
    failures = agg.get("failures", [])
    seen = set()
    for d in sorted(failures, key=lambda d: (len(d["ops"]), json.dumps(d, sort_keys=True, default=repr))):
        dj = json.dumps(d, sort_keys=True, default=repr)
        k = run.match_known(function=FN + "/" + d["target"], input=dj)
        if k is not None:
            run.known_finding(k, "bounded replay on the real functions")
            continue
        cls = (d["target"], d["last_op"], d["broken"][0][:12])
        if cls in seen or len(seen) >= 10:
            continue
        seen.add(cls)
        run.violation(f"{d['target']}-init{d['init']}-" + "--".join(d["ops"]),
                      dict(function=FN + "/" + d["target"], input=d, expected=dict(contents=d["model"], outcome=d["model_outcome"]), actual=dict(contents=d["real"], outcome=d["outcome"], broken=d["broken"]),
                           reason="bounded run-time contract check (C50_bounded)"))
    samples, seen_t = [], set()
    for smp in sorted(agg.get("samples", []), key=lambda x: (x["target"], -len(x["ops"]), -x["init"])):
        if smp["target"] not in seen_t:
            seen_t.add(smp["target"])
            samples.append(smp)
    blk = dict(
        scope=f"OrderingList(position, count_from=1) as a relationship collection ({len(catalogue('ol-bound'))} operations incl. bulk assignment `parent.items = [...]`) and as a plain list "
              f"({len(catalogue('ol-plain'))}), starting empty or with 3 elements; association "
              f"proxies to a list ({len(catalogue('ap-list'))} operations), a set ({len(catalogue('ap-set'))}) and a keyed dict ({len(catalogue('ap-dict'))}) of intermediary objects, starting empty or "
              f"with 2 values, the operations being every mutator of the proxy collection, the read operations and bulk assignment to the proxy attribute (`owner.proxy = value`: empty / "
              f"overlapping with kept, changed, dropped and new members / derived from the current contents / the proxy itself); ALL operation sequences of length in {list(mem)} for every "
              f"target and start and ALL sequences of length in {list(mem_core)} without the bulk assignments, each operation mirrored on a plain list / set / dict; plus flush + expire + reload "
              f"on SQLite :memory: for ALL sequences of length in {list(fl)} (mapped targets, bulk assignments included)",
        evaluations=agg["evaluations"], distinct_nontrivial=agg["nontrivial"],
        rule="every (target, start, operation sequence) is enumerated once; non-trivial = at least one operation of the sequence changed the plain model's contents (so the real mutator, "
             "its creator / setter or the renumbering had work to do), counted per sequence",
        samples=samples, exhaustive=True, label="bounded (not proof)", distinct_final_contents=len(agg.get("finals", ())), flush_reload_evaluations=agg["flushed"],
        bulk_assignment_nontrivial=agg["assign_nontrivial"],
        skipped_prefix_already_broken=agg["skipped_prefix_already_broken"], contract_failures=len(failures), wall_s=round(time.time() - t0, 1))
    run.coverage.setdefault("bounded", []).append(blk)
    return blk


def replay(data):
    H.quiet()
    d = data["input"]
    flush = d.get("last_op") == "flush+reload"
    eng = H.new_engine(mappings().Base.metadata) if flush else None
    r = run_seq(d["target"], d["init"], d["ops"], flush, eng)
    if r["status"] == "fail":
        print(f"REPLAY-FAILS {FN}/{d['target']} init={d['init']} ops={d['ops']} broken={r['broken']}")
        return 1
    print(f"REPLAY-PASSES {FN}/{d['target']} init={d['init']} ops={d['ops']} status={r['status']}")
    return 0
