"""C02 — the compiled-statement cache is transparent (bounded run-time contract check).

Functions under contract (real code in /repo): `ClauseElement._compile_w_cache` and, through it,
`HasCacheKey._generate_cache_key`, `SQLCompiler.construct_params(extracted_parameters=..., _collected_params=...)`,
`SQLCompiler._process_parameters_for_postcompile`, `DefaultExecutionContext._init_compiled`.

Contract.  Spec function: the uncached compilation
    fresh(s, d) = s._compiler(d, cache_key=None, column_keys=ck, for_executemany=False, schema_translate_map=None)
(K1, transparency)  for every state of `compiled_cache` the call is made in (None / empty / holding the same statement /
    holding statements with an equal key / holding many other statements with evictions), with
    (c, ext, pd, hit) = s._compile_w_cache(d, compiled_cache=cache, column_keys=ck):
      c.string == fresh.string
      c.construct_params(p, extracted_parameters=ext, _collected_params=pd) == fresh.construct_params(p)        for p in P(s)
      positional tuple ([params[k] for k in positiontup]) equal
      {(rendered bind name, repr(bind type))} equal ;  [(keyname, name, repr(type)) of the result map] equal
      the (statement, parameters) that the real DefaultExecutionContext._init_compiled hands to cursor.execute
      (post-compile expansion of IN / literal_execute, bind processors, positional assembly) equal
      an exception on one side <=> the same exception type on the other
    SQL text, parameter keys and bind names are compared modulo a consistent renaming of bind-parameter names (bind names
    canonicalised in order of compilation): a `unique` bind's name is deliberately not part of the cache key
    (BindParameter._gen_cache_key uses the anon-map position), so `:p_1` vs `:param_1` is the same statement.
(K2, 2-safety on the key)  key(a) == key(b)  =>  fresh(a).string == fresh(b).string and equal bind types, for all
    pairs of the scope (checked per equal-key group, every member against the first).

(K3, end to end on a real backend)  the statements of scope (2) that need no table are *executed* on SQLite (pysqlite,
    in memory): the same sequence of statements through an engine with the default compiled cache and through an engine
    with query_cache_size=0; at every step the SQL text and parameters handed to the cursor and the fetched rows
    (Python type and repr of every value, i.e. after the result processors) are equal, or both raise the same
    exception type.  Every near-collision family runs forward and backward, each with an empty cache, so that every
    member both populates the cache and hits an entry populated by each sibling kind.

Scope
 (1) shared statement corpus (rtc/corpus.py) without DDL (DDL is never cached) + mechanical single-site
     near-collision variants of a sub-corpus, on the six dialect families.
 (2) datatype-argument near-collisions: every TypeEngine subclass exported by sqlalchemy.types and by the five dialect
     packages (found mechanically) x every constructor parameter that takes part in the type's cache key
     (util.get_cls_kwargs, the set TypeEngine._static_cache_key iterates) and has an integer / string / boolean domain
     (from its annotation, its default, or the name table below; the parameters left out are listed in
     coverage.type_args.params_not_varied) x the values {None, falsy-but-meaningful (0, "", False), truthy (1, 5, "C",
     True)} x two contexts (all other parameters at their defaults / all other parameters truthy), placed at the sites
     cast(), type_coerce() of a numeric literal (result processors), bindparam(type_=) (bind processors)
     [thorough: + type_coerce() of a string literal, column(name, type), literal(value, type)].  These statements go
     through K1/K2 with the rest — the generic types on the six dialect families, a dialect package's own types on
     their own family and the default dialect [thorough: all six] — and through K3 (sites cast, type_coerce of a
     numeric and of a string literal, bindparam; all types, on SQLite).
"""
import hashlib
import itertools
import json
import random
import re
import warnings

from rtc import corpus as C

LEVEL = "exploration"
DIALECTS = C.SIX


# ------------------------------------------------------------------------------------------------ scope
def scope_descs(tier, seed):
    depth = 2 if tier == "quick" else 3
    base = [d for d in C.corpus(depth, seed) if d.get("k") != "ddl"]
    if tier == "quick":
        vsrc = [d for d in C.corpus(1, seed) if d.get("k") != "ddl"]
        for cname in C.QUICK_CLAUSES:
            kinds, ctor = C.CLAUSES[cname]
            for k in kinds:
                vsrc += [ctor(e) for e in C.reps(k)]
    else:
        vsrc = [d for d in C.corpus(2, seed) if d.get("k") != "ddl"]
    return base, C._dedup(vsrc)


# ------------------------------------------------------------------------------------------------ scope (2): datatype arguments
TYPE_PACKAGES = ("", "mysql", "postgresql", "sqlite", "mssql", "oracle")
# domains of parameters that carry neither an annotation nor a typed default (dialect types mostly)
INT_PARAMS = {"length", "precision", "scale", "display_width", "fsp", "dimensions", "day_precision", "second_precision", "binary_precision", "decimal_return_scale", "dim"}
STR_PARAMS = {"collation", "collation_schema", "charset", "name", "fields", "storage_format", "regexp"}
BOOL_PARAMS = {"timezone", "asdecimal", "unsigned", "zerofill", "ascii", "binary", "unicode", "national", "varying", "filestream", "convert_int", "local_timezone", "truncate_microseconds"}
DOMAINS = {"int": [None, 0, 1, 5], "str": [None, "", "C"], "bool": [None, False, True]}
TRUTHY = {"int": 5, "str": "C", "bool": True}
REQUIRED_ARGS = {"Enum": ["r", "g"], "mysql.ENUM": ["r", "g"], "mysql.SET": ["r", "g"], "postgresql.ENUM": ["r", "g", {"name": "e"}], "ARRAY": [["Integer"]], "postgresql.ARRAY": [["Integer"]],
                 "postgresql.DOMAIN": ["dom", ["Integer"]], "TupleType": [["Integer"], ["String"]]}
NOT_TYPES = {"TypeEngine", "TypeDecorator", "UserDefinedType", "Variant", "NullType", "PickleType", "postgresql.NamedType", "Concatenable", "Indexable", "MatchType", "_Binary"}
_TCAT = None


def _param_info(cls):
    """{parameter name: (default, annotation text)} from the first __init__ in the MRO that declares it"""
    import inspect
    out = {}
    for c in cls.__mro__:
        init = c.__dict__.get("__init__")
        if init is None:
            continue
        try:
            sig = inspect.signature(init)
        except (TypeError, ValueError):
            continue
        for pr in list(sig.parameters.values())[1:]:
            if pr.kind in (pr.VAR_POSITIONAL, pr.VAR_KEYWORD) or pr.name in out:
                continue
            out[pr.name] = (None if pr.default is inspect.Parameter.empty else pr.default, "" if pr.annotation is inspect.Parameter.empty else str(pr.annotation))
    return out


def _domain(name, default, ann):
    if name.startswith("_"):
        return None
    if "bool" in ann or isinstance(default, bool) or name in BOOL_PARAMS:
        return "bool"
    if (("int" in ann and "Union" not in ann) or (isinstance(default, int)) or name in INT_PARAMS) and "TypeEngine" not in ann:
        return "int"
    if (("str" in ann and "TypeEngine" not in ann and "Clause" not in ann and "Callable" not in ann) or name in STR_PARAMS):
        return "str"
    return None


def type_catalogue():
    """[(type name, required args, {param: domain kind}, [params not varied])] — mechanical: every TypeEngine subclass
    exported by sqlalchemy.types and the dialect packages whose cache key has at least one parameter"""
    global _TCAT
    if _TCAT is not None:
        return _TCAT
    import importlib
    from sqlalchemy import types as sqltypes, util
    from sqlalchemy.types import TypeEngine
    seen, out = {}, []
    for pkg in TYPE_PACKAGES:
        mod = sqltypes if not pkg else importlib.import_module("sqlalchemy.dialects." + pkg)
        for n in sorted(getattr(mod, "__all__", None) or [x for x in dir(mod) if not x.startswith("_")]):
            c = getattr(mod, n, None)
            name = (pkg + "." if pkg else "") + n
            if not (isinstance(c, type) and issubclass(c, TypeEngine)) or c in seen or name in NOT_TYPES:
                continue
            seen[c] = name
            info = _param_info(c)
            doms, skipped = {}, []
            for pn in sorted(util.get_cls_kwargs(c)):
                dflt, ann = info.get(pn, (None, ""))
                k = _domain(pn, dflt, ann)
                if k is None:
                    skipped.append(pn)
                else:
                    doms[pn] = k
            if doms or skipped:
                out.append((name, REQUIRED_ARGS.get(name, []), doms, skipped))
    _TCAT = out
    return out


def _tdesc(name, req, kw):
    req = list(req)
    if req and isinstance(req[-1], dict):
        kw = dict(req.pop(), **kw)
    return [name] + req + ([kw] if kw else [])


def type_variants(tier):
    """[(family id, type descriptor)]: per type, per context (defaults / all other parameters truthy), per parameter,
    every value of its domain; a family = the variants of one (type, context, parameter) — they differ in one argument"""
    out, seen = [], set()
    for name, req, doms, _ in type_catalogue():
        for ctx_name in ("defaults", "truthy"):
            for pn, kind in doms.items():
                others = {} if ctx_name == "defaults" else {q: TRUTHY[k2] for q, k2 in doms.items() if q != pn}
                if ctx_name == "truthy" and not others:
                    continue
                fam = "%s/%s/%s" % (name, ctx_name, pn)
                for v in DOMAINS[kind]:
                    d = _tdesc(name, req, dict(others, **{pn: v}))
                    try:
                        with warnings.catch_warnings():
                            warnings.simplefilter("ignore")
                            C.T(d)
                    except Exception:  # noqa: BLE001  (rejected by the constructor: not well-formed)
                        continue
                    out.append((fam, d))
    return out


NUM_IN, STR_IN = ["litc", "3.14159"], ["litc", "'2020-01-02 03:04:05.678901'"]
TYPE_SITES = {
    "cast": lambda t: {"k": "select", "cols": [["label", ["cast", NUM_IN, t], "v"]]},
    "tc_num": lambda t: {"k": "select", "cols": [["label", ["tc", NUM_IN, t], "v"]]},
    "tc_str": lambda t: {"k": "select", "cols": [["label", ["tc", STR_IN, t], "v"]]},
    "bind": lambda t: {"k": "select", "cols": [["label", ["bp", "p", 3.14159, {"type": t}], "v"]]},
    "col": lambda t: {"k": "select", "cols": [["col", "adhoc", t]]},
    "lit": lambda t: {"k": "select", "cols": [["label", ["lit", 5, t], "v"]]},
}
QUICK_SITES = ("cast", "tc_num", "bind")
EXEC_SITES = ("cast", "tc_num", "tc_str", "bind")
FAMILY_OF = {"mysql": "mysql", "postgresql": "postgresql", "sqlite": "sqlite", "mssql": "mssql", "oracle": "oracle"}


def type_statements(tier):
    """[(family id incl. site, statement descriptor)].  quick tier: three sites, and a dialect package's own type is
    compiled (K1/K2) on its own dialect family and on the default dialect only (descriptor key "only"); the generic
    types on all six.  thorough: all sites, all six dialects for every type."""
    sites = QUICK_SITES if tier == "quick" else tuple(TYPE_SITES)
    out = []
    for fam, t in type_variants(tier):
        pkg = t[0].split(".")[0] if "." in t[0] else None
        for sn in sites:
            d = TYPE_SITES[sn](t)
            if tier == "quick" and pkg:
                d["only"] = ["default", FAMILY_OF[pkg]]
            out.append(("%s@%s" % (fam, sn), d))
    return out


def call_args(desc):
    """(column_keys, [parameter sets]) the statement is 'executed' with"""
    names = []

    def walk(n):
        if isinstance(n, list):
            if n and n[0] == "bp" and len(n) > 2:
                o = n[3] if len(n) > 3 else {}
                if not o.get("unique") and not o.get("literal_execute"):
                    names.append((n[1], 99 if not isinstance(n[2], str) or n[2] == "__required__" else "ov"))
            elif n and n[0] == "in_bp":
                names.append((n[2], [41, 42]))
            for x in n:
                walk(x)
        elif isinstance(n, dict):
            for x in n.values():
                walk(x)
    walk(desc)
    psets = [None]
    if names:
        psets.append(dict(names))
    ck = []
    if desc.get("k") in ("insert", "update") and not any(desc.get(x) for x in ("values", "mvalues", "from_select", "ordered", "cvalues")):
        ck = ["s", "x"]
        psets = [{"x": 5, "s": "k"}]
    return ck, psets


# ------------------------------------------------------------------------------------------------ observation
_HEX = re.compile(r"0x[0-9a-f]+")


def _exc(e):
    return ("EXC", type(e).__name__, _HEX.sub("0x", str(e))[:160])


def _canon(compiled):
    """(string renamer, key renamer): bind names -> b0, b1, ... in order of compilation"""
    names = list(dict.fromkeys(compiled.bind_names.values()))
    esc = getattr(compiled, "escaped_bind_names", None) or {}
    canon = {}
    for i, n in enumerate(names):
        canon[n] = "b%d" % i
        canon[esc.get(n, n)] = "b%d" % i
    if not canon:
        return (lambda t: t), (lambda k: k)
    alt = "|".join(re.escape(n) for n in sorted(canon, key=len, reverse=True))
    rx = re.compile(r"(?P<pre>(?<!:):|%\(|__\[POSTCOMPILE_)(?P<n>" + alt + r")(?P<suf>(?:_\d+)*)(?![A-Za-z0-9_])")
    krx = re.compile(r"^(?P<n>" + alt + r")(?P<suf>(?:_\d+)*)$")

    def rs(t):
        return rx.sub(lambda m_: m_.group("pre") + canon[m_.group("n")] + m_.group("suf"), t) if isinstance(t, str) else t

    def rk(k):
        m_ = krx.match(k) if isinstance(k, str) else None
        return canon[m_.group("n")] + m_.group("suf") if m_ else k
    return rs, rk


_ANON = re.compile(r"%\(\d+ ")


def _view(dialect, compiled, stmt, ext, pd, hit, psets):
    rs, rk = _canon(compiled)
    obs = {"string": rs(compiled.string)}
    obs["types"] = sorted((rk(name), repr(bp.type)) for bp, name in compiled.bind_names.items())
    try:
        obs["result_map"] = [(_ANON.sub("%(N ", str(rc.keyname)), _ANON.sub("%(N ", str(rc.name)), repr(rc.type)) for rc in compiled._result_columns]
    except Exception as e:  # noqa: BLE001
        obs["result_map"] = _exc(e)
    for n, p in enumerate(psets):
        try:
            cp = compiled.construct_params(dict(p) if p else None, extracted_parameters=ext, escape_names=False, _collected_params=pd)
            obs["params%d" % n] = sorted((rk(k), repr(v)) for k, v in cp.items())
            obs["positional%d" % n] = [repr(cp[k]) for k in compiled.positiontup] if compiled.positional and compiled.positiontup is not None else None
        except Exception as e:  # noqa: BLE001
            obs["params%d" % n] = _exc(e)
        try:
            st, pr = C.dbapi_call(dialect, compiled, stmt, dict(p) if p else None, ext, pd, hit)
            obs["dbapi%d" % n] = (rs(st), repr(sorted((rk(k), v) for k, v in pr.items()) if isinstance(pr, dict) else pr))
        except Exception as e:  # noqa: BLE001
            obs["dbapi%d" % n] = _exc(e)
    return obs


def fresh_view(dialect, stmt, ck, psets):
    """the spec function: uncached compilation"""
    try:
        with warnings.catch_warnings():
            warnings.simplefilter("ignore")
            c = stmt._compiler(dialect, cache_key=None, column_keys=ck, for_executemany=False, schema_translate_map=None)
            return _view(dialect, c, stmt, None, None, None, psets)
    except Exception as e:  # noqa: BLE001
        return {"compile": _exc(e)[:2]}


def cached_view(dialect, stmt, cache, ck, psets):
    try:
        with warnings.catch_warnings():
            warnings.simplefilter("ignore")
            c, ext, pd, hit = stmt._compile_w_cache(dialect, compiled_cache=cache, column_keys=ck)
            return _view(dialect, c, stmt, ext, pd, hit, psets), hit.name
    except Exception as e:  # noqa: BLE001
        return {"compile": _exc(e)[:2]}, "EXC"


def diff(a, b):
    """names of the contract clauses on which two views differ"""
    return sorted(k for k in set(a) | set(b) if a.get(k) != b.get(k))


def run_sequence(dialect, descs, stmts=None, cache_size=100):
    """drive one cache through the statements in order; yields (step, clause-diff, cached view, fresh view, hit)"""
    from sqlalchemy.util import LRUCache
    cache = LRUCache(cache_size)
    stmts = stmts or [C.build(d) for d in descs]
    out = []
    for step, (d, s) in enumerate(zip(descs, stmts)):
        ck, psets = call_args(d)
        fv = fresh_view(dialect, s, ck, psets)
        cv, hit = cached_view(dialect, s, cache, ck, psets)
        out.append((step, diff(cv, fv), cv, fv, hit))
    return out


# ------------------------------------------------------------------------------------------------ worker
def _absval(v):
    from sqlalchemy.sql.elements import ClauseElement
    if isinstance(v, (str, int, float, bool, type(None))):
        return repr(v)[:40]
    if isinstance(v, ClauseElement):
        return "<%s>" % type(v).__name__
    if isinstance(v, (list, tuple)):
        return "[%d:%s]" % (len(v), ",".join(_absval(x) for x in v[:3]))
    if isinstance(v, dict):
        return "{%d:%s}" % (len(v), ",".join(sorted(map(str, v))[:3]))
    return type(v).__name__


def key_digest(k):
    """process-independent digest of a CacheKey (only used to *propose* equal-key groups across worker processes; the
    worker re-groups each proposal by real CacheKey equality before judging anything)"""
    from sqlalchemy import Table, Column

    def canon(o):
        if isinstance(o, tuple):
            return "(" + ",".join(canon(x) for x in o) + ")"
        if isinstance(o, (str, int, float, bool, type(None))):
            return repr(o)
        if isinstance(o, type):
            return o.__module__ + "." + o.__qualname__
        if isinstance(o, Table):
            return "T:" + o.fullname
        if isinstance(o, Column):
            return "C:" + str(o)
        if isinstance(o, (set, frozenset)):
            return "{" + ",".join(sorted(canon(x) for x in o)) + "}"
        return _HEX.sub("0x", repr(o))
    return hashlib.md5(canon(k.key).encode()).hexdigest()


def _phase1(shard, nshards, tier, seed):
    """build this shard's descriptors (+ variants of its share of the variant sources); return [(json, digest|None)]"""
    base, vsrc = scope_descs(tier, seed)
    out, rejected = [], 0

    def add(d, origin):
        nonlocal rejected
        s, e = C.try_build(d)
        if e is not None:
            rejected += 1
            return
        try:
            k = s._generate_cache_key()
            out.append((C.dj(d), key_digest(k) if k is not None else None, origin))
        except Exception as e2:  # noqa: BLE001
            out.append((C.dj(d), "KEYEXC:" + type(e2).__name__, origin))
    for i, d in enumerate(base):
        if i % nshards == shard:
            add(d, 0)
    for i, d in enumerate(vsrc):
        if i % nshards == shard:
            for m in C._mut(d):
                add(m, 1)
    for i, (fam, d) in enumerate(type_statements(tier)):
        if i % nshards == shard:
            add(d, 2)
    return out, rejected, len(base), len(vsrc)


_GROUPS = []          # set in the parent before the phase-2 workers are forked: list of lists of descriptors


def _phase2(shard, nshards, tier, seed):
    from sqlalchemy.sql import visitors
    from sqlalchemy.util import LRUCache
    out = dict(evals=0, failures=[], sql=set(), hits=0, misses=0, samples=[], cov={}, pairs=0, k2_pairs=0, nkeys=0, groups_multi=0, largest_group=0, split=0)
    dialects = [(dn, C.get_dialect(dn)) for dn in DIALECTS]
    lru_order = []

    for gi in range(shard, len(_GROUPS), nshards):
        descs = _GROUPS[gi]
        stmts = [C.build(d) for d in descs]
        # re-group by the real key (digest groups are only proposals)
        real = {}
        for i, s in enumerate(stmts):
            try:
                k = s._generate_cache_key()
            except Exception:  # noqa: BLE001  (judged by C22; here both paths must fail alike)
                k = None
            real.setdefault(k.key if k is not None else ("NOKEY", i), []).append(i)
        if len(real) > 1:
            out["split"] += 1
        for g in real.values():
            out["nkeys"] += 1
            out["groups_multi"] += len(g) > 1
            out["largest_group"] = max(out["largest_group"], len(g))
            _judge_group(out, dialects, descs, stmts, g, LRUCache, visitors)
            lru_order += [(descs[i], stmts[i]) for i in g[:2]]
            if len(g) > 1 and len(out["samples"]) < 1:
                out["samples"].append(dict(equal_key_group=[descs[i] for i in g[:3]], sql_default=fresh_view(dialects[0][1], stmts[g[0]], *call_args(descs[g[0]])).get("string")))
    # a small LRU shared by many different statements (evictions), one pass in seed order
    random.Random(seed + shard).shuffle(lru_order)
    for dn, d in dialects:
        cache = LRUCache(20)
        for n, (desc, s) in enumerate(lru_order):
            if desc.get("only") and dn not in desc["only"]:
                continue
            ck, psets = call_args(desc)
            cv, hit = cached_view(d, s, cache, ck, psets)
            fv = fresh_view(d, s, ck, psets)
            out["evals"] += 1
            out["hits" if hit == "CACHE_HIT" else "misses"] += 1
            df = diff(cv, fv)
            if df:
                seq = [x[0] for x in lru_order[max(0, n - 31):n + 1]]       # LRUCache(20) holds at most 30 entries
                try:                                                        # minimal replay: the statement that populated the entry
                    kk = s._generate_cache_key().key
                    for pdesc, ps in reversed(lru_order[:n]):
                        pk = ps._generate_cache_key()
                        if pk is not None and pk.key == kk:
                            seq = [pdesc, desc]
                            break
                except Exception:  # noqa: BLE001
                    pass
                _fail(out, "cached_vs_fresh", dn, seq, len(seq) - 1, df, cv, fv, dict(cache_state=hit, lru=20))
    out["sql"] = list(out["sql"])
    out["cov"] = {k: sorted(v) for k, v in out["cov"].items()}
    return out


# ------------------------------------------------------------------------------------------------ K3: execution on SQLite
_ENGINES = None


def _engines():
    """(engine with the default compiled cache, engine with the cache disabled), both in-memory pysqlite"""
    global _ENGINES
    if _ENGINES is None:
        from sqlalchemy import create_engine
        _ENGINES = (create_engine("sqlite://"), create_engine("sqlite://", query_cache_size=0))
    return _ENGINES


def _val(v):
    return "%s:%r" % (type(v).__name__, v)


def exec_sequence(descs, stmts=None):
    """execute the statements in order on one connection of each engine (the cached engine's cache is emptied first);
    returns per step (observation with the cache, observation without) — observation = SQL text and parameters handed
    to cursor.execute, and the fetched rows as (Python type, repr) per value, or the exception type"""
    from sqlalchemy import event
    stmts = stmts or [C.build(d) for d in descs]
    res = []
    for eng in _engines():
        eng.clear_compiled_cache()
        log = []

        def _capture(conn, cursor, statement, parameters, context, executemany, log=log):
            log.append((statement, repr(parameters)))
        event.listen(eng, "before_cursor_execute", _capture)
        out = []
        try:
            with eng.connect() as conn:
                for s in stmts:
                    del log[:]
                    obs = {}
                    try:
                        with warnings.catch_warnings():
                            warnings.simplefilter("ignore")
                            rows = conn.execute(s).all()
                        obs["rows"] = [[_val(v) for v in r] for r in rows]
                    except Exception as e:  # noqa: BLE001
                        obs["rows"] = ["EXC", type(e).__name__]
                        try:
                            conn.rollback()
                        except Exception:  # noqa: BLE001
                            pass
                    obs["sql"] = [x[0] for x in log]
                    obs["sent"] = [x[1] for x in log]
                    out.append(obs)
        finally:
            event.remove(eng, "before_cursor_execute", _capture)
        res.append(out)
    return list(zip(res[0], res[1]))


def _phase3(shard, nshards, tier, seed):
    """K3 over the near-collision families of scope (2): forward and backward"""
    out = dict(evals=0, failures=[], families=0, outcomes=set(), raised=0, samples=[])
    fams = {}
    for fam, t in type_variants(tier):
        fams.setdefault(fam, []).append(t)
    for n, fam in enumerate(sorted(fams)):
        if n % nshards != shard:
            continue
        for sn in EXEC_SITES:
            descs = [TYPE_SITES[sn](t) for t in fams[fam]]
            out["families"] += 1
            for order in (descs, descs[::-1]):
                try:
                    stmts = [C.build(d) for d in order]
                except Exception:  # noqa: BLE001
                    continue
                for step, (with_cache, without) in enumerate(exec_sequence(order, stmts)):
                    out["evals"] += 1
                    out["raised"] += without["rows"][:1] == ["EXC"]
                    out["outcomes"].add(hashlib.md5(repr((without["sql"], without["rows"])).encode()).digest()[:8])
                    df = [k for k in ("sql", "sent", "rows") if with_cache[k] != without[k]]
                    if df:
                        out["failures"].append(dict(function="exec_cached_vs_uncached.%s:sqlite+pysqlite" % df[0], input=dict(dialect="sqlite+pysqlite", sequence=order[:step + 1], step=step),
                                                    differing_clauses=df, family=fam + "@" + sn, expected={k: without[k] for k in df}, actual={k: with_cache[k] for k in df}))
                    elif len(out["samples"]) < 1 and without["rows"][:1] != ["EXC"] and step == 1:
                        out["samples"].append(dict(family=fam + "@" + sn, stmt=order[step], sql=without["sql"], rows=without["rows"]))
    out["outcomes"] = list(out["outcomes"])
    return out


def _fail(out, clause, dn, seq_descs, step, clauses, cv, fv, extra=None):
    bad = clauses[0] if clauses else clause
    out["failures"].append(dict(function="%s.%s:%s" % (clause, re.sub(r"\d+$", "", bad), dn),
                                input=dict(dialect=dn, sequence=seq_descs, step=step), differing_clauses=clauses,
                                expected=json.loads(json.dumps({k: fv.get(k) for k in clauses[:3]}, default=repr)),
                                actual=json.loads(json.dumps({k: cv.get(k) for k in clauses[:3]}, default=repr)), **(extra or {})))


def _judge_group(out, dialects, descs, stmts, g, LRUCache, visitors):
    for i in g:
        try:
            for el in visitors.iterate(stmts[i]):
                cls = type(el)
                for attr, _ in getattr(cls, "_traverse_internals", ()) or ():
                    vals = out["cov"].setdefault(cls.__name__ + "." + attr, set())
                    if len(vals) < 3:
                        vals.add(_absval(getattr(el, attr, None)))
        except Exception:  # noqa: BLE001
            pass
    members, extra = g[:6], g[6:30]
    only = set().union(*[descs[i].get("only") or DIALECTS for i in g])
    for di, (dn, d) in enumerate(dialects):
        if dn not in only:
            continue
        memo = {}

        def fresh(i):
            if i not in memo:
                memo[i] = fresh_view(d, stmts[i], *call_args(descs[i]))
                if "string" in memo[i]:
                    out["sql"].add(hashlib.md5((dn + memo[i]["string"]).encode()).digest()[:8])
            return memo[i]

        def step(i, cache, seq, pos):
            ck, psets = call_args(descs[i])
            cv, hit = cached_view(d, stmts[i], cache, ck, psets)
            out["evals"] += 1
            out["hits" if hit == "CACHE_HIT" else "misses"] += 1
            df = diff(cv, fresh(i))
            if df:
                _fail(out, "cached_vs_fresh", dn, [descs[x] for x in seq], pos, df, cv, fresh(i), dict(cache_state=hit))
        # K2: equal key => equal fresh SQL and bind types
        f0 = fresh(g[0])
        for j in g[1:30]:
            fj = fresh(j)
            out["evals"] += 1
            out["k2_pairs"] += 1
            df = [k for k in ("string", "types", "compile") if f0.get(k) != fj.get(k)]
            if df:
                _fail(out, "equal_key_different_sql", dn, [descs[g[0]], descs[j]], 1, df, fj, f0)
        # K1: every cache state
        if len(g) == 1:
            i = g[0]
            cache = LRUCache(100)
            if (out["nkeys"] + di) % 3 == 0:
                step(i, None, [i], 0)                                   # caching disabled
            step(i, cache, [i, i], 0)                                   # cold
            step(i, cache, [i, i], 1)                                   # warm with itself
        else:
            pairs = [(i, j) for i in members for j in members if i != j] + [(members[0], j) for j in extra] + [(j, members[0]) for j in extra]
            for i, j in pairs:
                cache = LRUCache(100)
                out["pairs"] += 1
                seq = [i, j, i]
                for pos, x in enumerate(seq):                           # cold / warm with an equal-key sibling / warm
                    step(x, cache, seq, pos)
            if len(members) >= 3:
                for perm in itertools.islice(itertools.permutations(members[:4], 3), 24):
                    cache = LRUCache(100)
                    for pos, x in enumerate(perm):
                        step(x, cache, list(perm), pos)


def run(run, tier, seed, args):
    global _GROUPS
    p1 = C.shard_run(_phase1, 32, (tier, seed))
    seen, by_digest, nokey = set(), {}, []
    rejected = nvar = 0
    ntype = 0
    for lst, rej, nbase, nvsrc in p1:
        rejected += rej
        for j, dg, origin in lst:
            if j in seen:
                continue
            seen.add(j)
            nvar += origin == 1
            ntype += origin == 2
            if dg is None:
                nokey.append([json.loads(j)])
            else:
                by_digest.setdefault(dg, []).append(json.loads(j))
    _GROUPS = sorted(by_digest.values(), key=lambda g: C.dj(g[0])) + nokey
    for g in _GROUPS:
        g.sort(key=C.dj)
    res = C.shard_run(_phase2, 64, (tier, seed))
    res3 = C.shard_run(_phase3, 32, (tier, seed))
    sql, failures, cov, samples = set(), [], {}, []
    exec_outcomes = set()
    for r in res3:
        failures += r["failures"]
        exec_outcomes.update(r["outcomes"])
    tot = dict(evals=0, hits=0, misses=0, pairs=0, k2_pairs=0, nkeys=0, groups_multi=0, split=0)
    largest = 0
    for r in res:
        sql.update(r["sql"])
        failures += r["failures"]
        samples += r["samples"]
        largest = max(largest, r["largest_group"])
        for k in tot:
            tot[k] += r[k]
        for k, v in r["cov"].items():
            cov.setdefault(k, set()).update(v)
    C.report(run, failures)
    varied = sorted(k for k, v in cov.items() if len(v) > 1)
    constant = sorted(k for k, v in cov.items() if len(v) <= 1)
    run.coverage.update(
        evaluations=tot["evals"] + sum(r["evals"] for r in res3),
        distinct_nontrivial=tot["nkeys"] - len(nokey),
        rule="statements = corpus descriptors + single-site near-collision variants; each is compiled through _compile_w_cache in every cache state "
             "(disabled [every third], cold, warm with itself, warm with each equal-key sibling in both orders, permutations of 3 siblings, a 20-entry LRU "
             "shared by many statements with evictions) and compared clause by clause with the uncached compilation; distinct_nontrivial = number of "
             "distinct cache keys among the statements (groups by real CacheKey equality, counted); distinct SQL strings are in coverage.distinct_sql; "
             "K3: every near-collision family of datatype-argument variants (one type, one context, one parameter, all values of its domain) x site is executed on "
             "in-memory SQLite forward and backward through a cached and an uncached engine, step by step equal (SQL, parameters sent, typed rows)",
        samples=samples[:3] or [dict(note="no equal-key group sampled")],
        exhaustive=True,
        scope="statement corpus depth %d without DDL (%d descriptors) + %d near-collision variants (every buildable single-site mutation of %s) + %d datatype-argument "
              "statements (%d TypeEngine subclasses found mechanically x key parameters with an int/str/bool domain x {None, falsy, truthy values} x 2 contexts = %d type "
              "variants in %d families, x sites %s) = %d statements, "
              "%d distinct cache keys, %d without a key; %d equal-key groups with >= 2 members (largest %d; all ordered pairs among the first 6 members, further "
              "members against the first, up to 30); dialects %s; parameter sets {compiled-in values, override of every named bind}; K3: %d (family, site) sequences "
              "executed forward and backward on in-memory SQLite with and without the compiled cache"
              % (2 if tier == "quick" else 3, p1[0][2], nvar, "the depth-1 corpus and the representative clause statements" if tier == "quick" else "the depth-2 corpus",
                 ntype, len(type_catalogue()), len(type_variants(tier)), len({f for f, _ in type_variants(tier)}), list(QUICK_SITES if tier == "quick" else TYPE_SITES) + (["(dialect types: own dialect family + default only)"] if tier == "quick" else []),
                 len(seen), tot["nkeys"] - len(nokey), len(nokey), tot["groups_multi"], largest, list(DIALECTS), sum(r["families"] for r in res3)),
        type_args=dict(types=len(type_catalogue()), domains=DOMAINS, params_varied={n: sorted(d) for n, _, d, _ in type_catalogue()},
                       params_not_varied={n: sk for n, _, _, sk in type_catalogue() if sk}),
        exec_sqlite=dict(steps_executed=sum(r["evals"] for r in res3), sequences=sum(r["families"] for r in res3) * 2, distinct_outcomes=len(exec_outcomes),
                         steps_raising_on_both_sides=sum(r["raised"] for r in res3), sample=[x for r in res3 for x in r["samples"]][:2]),
        distinct_sql=len(sql), cache_hits=tot["hits"], cache_misses_or_disabled=tot["misses"], sibling_sequences=tot["pairs"], equal_key_pairs_compared=tot["k2_pairs"],
        rejected_by_constructors=rejected, digest_groups_split_by_real_key=tot["split"],
        traverse_internals=dict(class_attributes_reached=len(cov), varied_in_scope=len(varied), constant_in_scope=len(constant),
                                classes=sorted({k.split(".")[0] for k in cov}), constant_attributes=constant[:150]))
    run.assumptions += [
        "observation = SQL text, construct_params, positional tuple, bind types, result-map keys and the (statement, parameters) assembled by the real "
        "_init_compiled on a stub connection; result rows are observed only in K3 (table-free datatype statements on in-memory SQLite), other backends are outside",
        "equality is modulo a consistent renaming of bind-parameter names (unique binds are keyed by position, not by name, by design)",
        "near-collision variants are the mechanical single-site mutations of rtc/corpus._mut; attributes listed under traverse_internals.constant_attributes "
        "never took two values in this scope, so an omission of one of those from a cache key would not be seen",
        "equal-key groups are proposed across processes by a digest of CacheKey.key and re-grouped by real key equality in the worker; statements whose "
        "equal keys digest differently (reprs carrying object ids) are only compared within their own process group",
        "bounded exploration, not a proof",
    ]


def replay(data):
    inp = data["input"]
    fn = data.get("function", "")
    d = C.get_dialect(inp["dialect"], fresh=True) if not fn.startswith("exec_") else None
    descs = inp["sequence"]
    if fn.startswith("equal_key_different_sql"):
        a, b = [C.build(x) for x in descs[:2]]
        ka, kb = a._generate_cache_key(), b._generate_cache_key()
        fa, fb = [fresh_view(d, s, *call_args(x)) for s, x in zip((a, b), descs[:2])]
        df = [k for k in ("string", "types", "compile") if fa.get(k) != fb.get(k)]
        if ka is not None and kb is not None and ka.key == kb.key and df:
            print("REPLAY-FAILS C02 equal cache key, different %s on %s:\n  %r\n  %r" % (df, inp["dialect"], fa.get("string"), fb.get("string")))
            return 1
        print("REPLAY-PASSES C02 keys equal=%s, fresh views differ on %s" % (ka is not None and kb is not None and ka.key == kb.key, df))
        return 0
    if fn.startswith("exec_cached_vs_uncached"):
        for st, (with_cache, without) in enumerate(exec_sequence(descs)):
            df = [k for k in ("sql", "sent", "rows") if with_cache[k] != without[k]]
            if df:
                print("REPLAY-FAILS C02 step %d of the sequence executed on in-memory SQLite differs with the compiled cache on %s:\n  cached:   %r\n  uncached: %r"
                      % (st, df, {k: with_cache[k] for k in df}, {k: without[k] for k in df}))
                return 1
        print("REPLAY-PASSES C02 %d-step sequence executed on in-memory SQLite: cached == uncached at every step" % len(descs))
        return 0
    bad = [(st, df, cv, fv, hit) for st, df, cv, fv, hit in run_sequence(d, descs, cache_size=20 if len(descs) > 3 else 100) if df]
    if bad:
        st, df, cv, fv, hit = bad[0]
        print("REPLAY-FAILS C02 step %d (%s) on %s differs from the uncached compilation on %s:\n  cached: %r\n  fresh:  %r"
              % (st, hit, inp["dialect"], df, {k: cv.get(k) for k in df[:2]}, {k: fv.get(k) for k in df[:2]}))
        return 1
    print("REPLAY-PASSES C02 %d-step sequence on %s: cached == fresh at every step" % (len(descs), inp["dialect"]))
    return 0
