"""C21 — generated and truncated names are bounded, deterministic and unique: length bounds, memoisation and the choice of the
applicable limit under proof; naming conventions / uniqueness within a statement as the bounded complement."""
import importlib
import contracts.naming  # noqa: F401
from pyvc.contract import FUNCS
from vlib.proof import run_proofs

LEVEL = "proof"
KEYS = [k for k, c in FUNCS.items() if "C21" in c.props and c.proof and not c.abstract]


def run(run, tier, seed, args):
    run_proofs(run, KEYS, tier, update_baseline=args.update_baseline, source_root=args.source_root)
    if not args.source_root:
        importlib.import_module("checks.C21_bounded").bounded(run, tier, seed)
    run.assumptions += [
        "strings are modelled by length only (len, slicing, concatenation; hex(n)[2:] has at most 5 digits below 16**5); md5_hex is a pure function returning 32 characters; name.apply_map(anon_map) is pure",
        "preconditions: label_length >= 6, fewer than 16**5 truncated names per class, max_ >= 8 (for max_ < 8 the bound fails: known finding in the bounded complement), _alembic_quote False for the length clause",
        "uniqueness of truncated names within a statement (distinct counters) and naming-convention expansion are in the bounded complement only",
    ]
