"""C22 — compiling a well-formed construct never fails with an internal error (bounded run-time contract check).

Function under contract: `ClauseElement.compile(dialect=d, compile_kwargs=kw)` (-> `SQLCompiler.__init__` /
`DDLCompiler`), the real code in /repo.

Contract (exceptional postcondition):
    raises  <=  {CompileError (incl. UnsupportedCompilationError), InvalidRequestError, ArgumentError}
    normal return  =>  str(result) is a non-empty string
Any other exception type escaping `compile()` violates it.  "Well-formed" = accepted by the SQLAlchemy constructors
when the corpus descriptor is built (rtc/corpus.py); descriptors the constructors reject are counted, not judged.

Scope
 (1) every statement / DDL construct of the shared statement corpus up to the tier's depth, plus the compositions
     "statement A as subquery / CTE / LATERAL / EXISTS / IN / scalar subquery / compound member / INSERT..FROM SELECT /
     upsert source / data-modifying CTE of statement B", x dialect variants x {plain, literal_binds, render_postcompile}.
 (2) the dialect-specific syntax extensions (every `SyntaxExtension` subclass shipped with the dialects, found mechanically
     and checked against the catalogue): postgresql / sqlite `Insert.on_conflict_do_update / on_conflict_do_nothing`,
     mysql `Insert.on_duplicate_key_update`, mysql `limit()` on UPDATE / DELETE, postgresql `distinct_on()`, with every
     argument kind their documentation and type hints allow (`ext_catalogue()`), on *every variant of their own dialect
     family* (drivers, paramstyles, server versions: OWN_DIALECTS) x the three compile_kwargs.  Dimensions of an upsert:
       target table {a, schema-qualified sch.c, ORM entity A}  x  INSERT body {values, multi-values, FROM SELECT, SQL
       expression values, none}  x  conflict target {index_elements of Column / name / column("id") / two columns /
       function / COLLATE expression, constraint by name, PrimaryKeyConstraint object, Index object, none}  x  index_where
       {comparison, AND, text(), IS NOT NULL, IN, string literal with quote}  x  SET form {dict, ColumnCollection
       (excluded / inserted / table.c), kwargs, list of 2-tuples}  x  SET key {column name, unknown name, name needing
       quotes, Table Column, column("x"), column(unknown), typed column(), literal_column, aliased-table column, other
       table's column, ORM attribute, excluded column, labeled column, function}  x  SET value {int, str, None, excluded /
       inserted column, arithmetic with it, bindparam, scalar subquery, function, CASE, CAST, NULL, text(), typed literal,
       literal_column, IN list}  x  DO UPDATE WHERE {comparison, against excluded, text(), IN list, EXISTS, bindparam, IS NULL,
       3-way AND}  x  RETURNING {none, column, whole table, labeled expression, two columns}  x  position {top level,
       CTE selected from, add_cte of a SELECT, CTE inside the EXISTS-subquery of an UPDATE, source of INSERT..FROM SELECT}.
     Combination: base choice (every value of every dimension with the other dimensions canonical) + all pairs
     SET key x SET value, SET key x position, SET key x SET form, conflict target x index_where, WHERE x position.
"""
import json
import warnings

from rtc import corpus as C

LEVEL = "exploration"

QUICK_DIALECTS = ("default", "sqlite", "postgresql", "mysql", "mariadb", "mssql", "oracle", "postgresql+asyncpg", "sqlite+numeric")
THOROUGH_DIALECTS = QUICK_DIALECTS + ("postgresql+psycopg", "postgresql+pg8000", "mysql+old", "mariadb+new", "mssql+2008", "mssql+legacy_schema", "oracle+11",
                                      "oracle+noansi", "oracle+oracledb", "default+format", "default+numeric_dollar", "default+label12", "postgresql+label10")
KWS = ({}, {"literal_binds": True}, {"render_postcompile": True})

# ------------------------------------------------------------------------------------------------ scope (2): syntax extensions
# variants of the construct's own dialect family: (catalogue name, factory) — registered in rtc.corpus.DIALECTS so that
# replay files can name them.  '<family>+<paramstyle>' names are resolved by corpus.get_dialect itself.
for _n, _f in {
    "postgresql+psycopg2": C._mk("postgresql.psycopg2"),
    "postgresql+pg9": C._mk("postgresql", attrs={"server_version_info": (9, 6)}), "postgresql+pg17": C._mk("postgresql", attrs={"server_version_info": (17, 0)}),
    "postgresql+implicit_returning_off": C._mk("postgresql", attrs={"insert_returning": False, "update_returning": False, "delete_returning": False}),
    "sqlite+pysqlite": C._mk("sqlite.pysqlite"), "sqlite+aiosqlite": C._mk("sqlite.aiosqlite"), "sqlite+pysqlcipher": C._mk("sqlite.pysqlcipher"),
    "sqlite+new": C._mk("sqlite", attrs={"server_version_info": (3, 45, 0)}),
    "mysql+8019": C._mk("mysql", attrs={"server_version_info": (8, 0, 20)}), "mysql+57": C._mk("mysql", attrs={"server_version_info": (5, 7, 30)}),
    "mysql+pymysql": C._mk("mysql.pymysql"), "mysql+mysqldb": C._mk("mysql.mysqldb"), "mysql+aiomysql": C._mk("mysql.aiomysql"), "mysql+asyncmy": C._mk("mysql.asyncmy"),
    "mysql+mysqlconnector": C._mk("mysql.mysqlconnector"), "mysql+mariadbconnector": C._mk("mysql.mariadbconnector"), "mysql+cymysql": C._mk("mysql.cymysql"),
    "mysql+pyodbc": C._mk("mysql.pyodbc"), "mariadb+old": C._mk("mysql", attrs={"server_version_info": (10, 1, 0)}, is_mariadb=True),
}.items():
    C.DIALECTS.setdefault(_n, _f)
OWN_DIALECTS = {
    "quick": {
        "pg": ("postgresql", "postgresql+asyncpg", "postgresql+psycopg", "postgresql+psycopg2", "postgresql+pg8000", "postgresql+named", "postgresql+qmark", "postgresql+label10"),
        "sqlite": ("sqlite", "sqlite+numeric", "sqlite+qmark_old", "sqlite+aiosqlite", "sqlite+named", "sqlite+pyformat", "sqlite+numeric_dollar"),
        "mysql": ("mysql", "mariadb", "mysql+old", "mariadb+new", "mysql+8019", "mysql+pymysql", "mysql+asyncmy", "mysql+mariadbconnector", "mysql+named", "mysql+qmark"),
    },
    "thorough": {
        "pg": ("postgresql", "postgresql+asyncpg", "postgresql+psycopg", "postgresql+psycopg2", "postgresql+pg8000", "postgresql+named", "postgresql+qmark",
               "postgresql+format", "postgresql+numeric", "postgresql+numeric_dollar", "postgresql+label10", "postgresql+pg9", "postgresql+pg17", "postgresql+implicit_returning_off"),
        "sqlite": ("sqlite", "sqlite+numeric", "sqlite+qmark_old", "sqlite+new", "sqlite+pysqlite", "sqlite+aiosqlite", "sqlite+pysqlcipher", "sqlite+named", "sqlite+format", "sqlite+pyformat",
                   "sqlite+numeric_dollar"),
        "mysql": ("mysql", "mariadb", "mysql+old", "mysql+57", "mysql+8019", "mariadb+new", "mariadb+old", "mysql+pymysql", "mysql+mysqldb", "mysql+aiomysql", "mysql+asyncmy",
                  "mysql+mysqlconnector", "mysql+mariadbconnector", "mysql+cymysql", "mysql+pyodbc", "mysql+named", "mysql+qmark", "mysql+numeric", "mysql+pyformat"),
    },
}
EXT_CLASSES_COVERED = {"postgresql.dml.OnConflictDoNothing", "postgresql.dml.OnConflictDoUpdate", "sqlite.dml.OnConflictDoNothing", "sqlite.dml.OnConflictDoUpdate",
                       "mysql.dml.OnDuplicateClause", "mysql.dml.DMLLimitClause", "postgresql.ext.DistinctOnClause"}


def discover_extensions():
    """names of the concrete SyntaxExtension subclasses defined under sqlalchemy.dialects (mechanical: the catalogue
    below must name every one of them, otherwise the run reports the gap under coverage.ext_classes_not_in_catalogue)"""
    import importlib
    import pkgutil
    import sqlalchemy.dialects as D
    from sqlalchemy.sql.base import SyntaxExtension
    for fam in ("postgresql", "sqlite", "mysql", "mssql", "oracle"):
        pkg = importlib.import_module("sqlalchemy.dialects." + fam)
        for m in pkgutil.iter_modules(pkg.__path__):
            if m.name in ("dml", "ext", "base", "named_types", "types"):
                importlib.import_module("sqlalchemy.dialects.%s.%s" % (fam, m.name))

    def subs(c):
        for x in c.__subclasses__():
            yield x
            yield from subs(x)
    out = set()
    for c in subs(SyntaxExtension):
        if c.__module__.startswith("sqlalchemy.dialects.") and getattr(c, "__visit_name__", None) and not c.__subclasses__():
            out.add(c.__module__[len("sqlalchemy.dialects."):] + "." + c.__name__)
    return sorted(out)


def _pairs(*dims):
    return [tuple(x) for x in __import__("itertools").product(*dims)]


def upsert_catalogue():
    """[(family, descriptor)] — see the module docstring for the dimensions"""
    out = []
    SEL0 = C.SEL0

    def wrap(ins, how, fam):
        if how is None:
            return ins
        if how in ("cte_select", "cte_in_update", "ins_from_cte") and not ins.get("returning"):
            ins = dict(ins, returning=[["c", ins["t"] if not ins["t"].startswith("ent:") else "a", "id"]])
        if how == "cte_select":
            return {"k": "select", "cols": [["tbl", "ups"]], "from": [["cte", ins, "ups"]]}
        if how == "add_cte":
            return {"k": "select", "cols": [C.BID], "add_cte": [["cte", ins, "ups"]]}
        if how == "cte_in_update":
            return {"k": "update", "t": "b", "values": {"x": 1}, "where": [["exists", {"k": "select", "cols": [["tbl", "ups"]], "from": [["cte", ins, "ups"]]}]]}
        if how == "ins_from_cte":
            return {"k": "insert", "t": "b", "from_select": [["id"], {"k": "select", "cols": [["litc", "1"]], "from": [["cte", ins, "ups"]]}]}
        raise KeyError(how)
    POS = [None, "cte_select", "add_cte", "cte_in_update", "ins_from_cte"]

    for fam in ("pg", "sqlite", "mysql"):
        ns = "inserted" if fam == "mysql" else "excluded"
        for t in ("a", "c", "ent:A"):
            tn = "a" if t == "ent:A" else t                     # table name for column references
            cid, cx = ["c", tn, "id"], ["c", tn, "x"]
            cs = ["c", "a", "s"] if tn == "a" else ["c", "c", "b_id"]
            nx = [ns, "x"]
            BODIES = [dict(values={"id": 1, "x": 2}), dict(mvalues=[{"id": 1, "x": 2}, {"id": 2, "x": 3}]), dict(from_select=[["id", "x"], {"k": "select", "cols": [C.BID, C.BAID]}]),
                      dict(values={"id": ["bp", "v", 1], "x": ["fn", "abs", [["lit", -2]]]}), dict()]
            KEYS = ["x", "zz", "X y", cx, ["col", "x"], ["col", "zz"], ["col", "x", ["Integer"]], ["litc", "x"], ["c", tn + ":al", "x"], ["c", "b", "x"], [ns, "x"], ["label", cx, "lx"],
                    ["fn", "lower", [cx]]] + ([["attr", "A", "x"]] if tn == "a" else [])
            VALS = [3, "q", None, nx, ["op", "+", cx, nx], ["bp", "up", 5], ["ssq", SEL0], ["fn", "coalesce", [nx, cx]], ["case", [[["op", ">", nx, 0], nx]], cx], ["cast", nx, ["String", 5]],
                    ["null"], ["text", "x + 1"], ["lit", 5, ["Numeric", 10, 2]], ["litc", "DEFAULT"], ["in", cx, [1, 2]]]
            WHERES = [None, ["op", ">", cx, 1], ["op", "<", cx, nx], ["text", "x > 1"], ["in", cx, [1, 2, 3]], ["exists", C.SELC], ["op", "==", cx, ["bp", "w", 3]], ["un", "is_null", nx],
                      ["and", [["op", ">", cx, 1], ["op", "<", cx, 9], ["op", "!=", cx, nx]]]]
            RETS = [None, [cid], [["tbl", tn]], [["label", ["op", "+", cx, 1], "x1"]], [cid, cx]]
            if fam == "mysql":
                FORMS = ["kwargs", "dict", "pairs", "coll"]

                def mk(body=BODIES[0], form="dict", key="x", val=nx, key2=None, ret=None, pos=None):
                    items = [[key, val]] + ([[key2, 7]] if key2 is not None else [])
                    if form == "kwargs":
                        if not all(isinstance(k_, str) and k_.isidentifier() for k_, _ in items):
                            return None
                        od = {k_: v for k_, v in items}
                    elif form == "coll":
                        od = ["coll", "inserted"]
                    else:
                        od = [form, items]
                    d = dict({"k": "insert", "t": t, "fam": fam}, **body)
                    d["on_dup"] = od
                    if ret:
                        d["returning"] = ret
                    return wrap(d, pos, fam)
                combos = [mk()]
                combos += [mk(body=b) for b in BODIES] + [mk(form=f) for f in FORMS] + [mk(key=k_) for k_ in KEYS] + [mk(val=v) for v in VALS] + [mk(ret=r) for r in RETS]
                combos += [mk(pos=p_) for p_ in POS] + [mk(key2=k_) for k_ in KEYS[:6]] + [mk(form="pairs", key="s" if tn == "a" else "b_id", key2="x")]
                if t == "a":
                    combos += [mk(key=k_, val=v) for k_, v in _pairs(KEYS, VALS)] + [mk(key=k_, pos=p_) for k_, p_ in _pairs(KEYS, POS)]
                    combos += [mk(key=k_, form=f) for k_, f in _pairs(KEYS, FORMS)] + [mk(val=v, form=f) for v, f in _pairs(VALS, FORMS)] + [mk(body=b, val=v) for b, v in _pairs(BODIES, VALS)]
                out += [(fam, c_) for c_ in combos if c_ is not None]
                continue
            TARGETS = [dict(index_elements=[cid]), dict(index_elements=[["name", "id"]]), dict(index_elements=[["col", "id"]]), dict(index_elements=[cid, cx]),
                       dict(index_elements=[["fn", "lower", [cs]]]), dict(index_elements=[["collate", cs, "C"]]), dict(constraint="the_pkey"), dict(constraint=["pk"]), dict()]
            if tn == "a":
                TARGETS.append(dict(constraint=["index", 0]))
            if fam == "sqlite":
                TARGETS = [x for x in TARGETS if "constraint" not in x]
            IWHERES = [None, ["op", ">", cx, 0], ["op", "and", ["op", ">", cx, 0], ["op", "<", cx, 9]], ["text", "x > 0"], ["un", "is_not_null", cx], ["in", cx, [1, 2]],
                       ["op", "==", cs, "it's"]]
            FORMS = ["dict", "coll", "coll_table"]

            def mk(body=BODIES[0], tgt=TARGETS[0], iw=None, do="update", form="dict", key="x", val=nx, key2=None, where=None, ret=None, pos=None):
                oc = dict(tgt, do=do)
                if iw is not None:
                    if not tgt.get("index_elements"):
                        return None
                    oc["index_where"] = iw
                if do == "update":
                    if not tgt:
                        return None
                    oc["set"] = ["coll", "excluded"] if form == "coll" else ["coll", "table"] if form == "coll_table" else \
                        ["dict", [[key, val]] + ([[key2, 7]] if key2 is not None else [])]
                    if where is not None:
                        oc["where"] = where
                d = dict({"k": "insert", "t": t, "fam": fam}, **body)
                d["on_conflict"] = oc
                if ret:
                    d["returning"] = ret
                return wrap(d, pos, fam)
            combos = [mk()]
            combos += [mk(body=b) for b in BODIES] + [mk(tgt=x) for x in TARGETS] + [mk(tgt=x, do="nothing") for x in TARGETS] + [mk(iw=x) for x in IWHERES]
            combos += [mk(iw=x, do="nothing") for x in IWHERES] + [mk(form=f) for f in FORMS] + [mk(key=k_) for k_ in KEYS] + [mk(val=v) for v in VALS] + [mk(key2=k_) for k_ in KEYS[:6]]
            combos += [mk(where=x) for x in WHERES] + [mk(ret=r) for r in RETS] + [mk(pos=p_) for p_ in POS] + [mk(do="nothing", pos=p_) for p_ in POS]
            if t == "a":
                combos += [mk(key=k_, val=v) for k_, v in _pairs(KEYS, VALS)] + [mk(key=k_, pos=p_) for k_, p_ in _pairs(KEYS, POS)] + [mk(tgt=x, iw=y) for x, y in _pairs(TARGETS, IWHERES)]
                combos += [mk(where=x, pos=p_) for x, p_ in _pairs(WHERES, POS)] + [mk(key=k_, where=x) for k_, x in _pairs(KEYS, WHERES[:4])] + [mk(body=b, val=v) for b, v in _pairs(BODIES, VALS)]
                combos += [mk(tgt=x, pos=p_) for x, p_ in _pairs(TARGETS, POS)] + [mk(ret=r, pos=p_) for r, p_ in _pairs(RETS, POS)] + [mk(key=k_, body=b) for k_, b in _pairs(KEYS, BODIES)]
            out += [(fam, c_) for c_ in combos if c_ is not None]
    return out


def ext_catalogue():
    """[(family, descriptor)] for all dialect syntax extensions: the upserts + mysql limit() + postgresql distinct_on()"""
    out = upsert_catalogue()
    AX, AID, AS_ = C.AX, C.AID, C.AS_
    lims = [2, 0, ["bp", "lim", 3], ["lit", 4], ["op", "+", ["lit", 1], 2], ["litx", 5], ["ssq", {"k": "select", "cols": [["fn", "count", [C.BID]]]}], ["cast", ["bp", "l", "3"], ["Integer"]]]
    for lim in lims:
        for base in ({"k": "update", "t": "a", "values": {"x": 1}}, {"k": "update", "t": "a", "values": {"x": 1}, "where": [["op", ">", AX, 1]]}, {"k": "delete", "t": "a"},
                     {"k": "delete", "t": "a", "where": [["in", AID, [1, 2]]]}, {"k": "update", "t": "c", "values": {"x": 1}}, {"k": "update", "t": "ent:A", "values": {"x": 1}},
                     {"k": "update", "t": "a", "where": [["op", "==", AID, C.BAID]], "values": {"x": C.BID}}, {"k": "delete", "t": "a", "where": [["op", "==", AID, C.BAID]]},
                     {"k": "update", "t": "a", "values": {"x": 1}, "with_dialect_options": {"mysql_limit": 9}}, {"k": "update", "t": "a", "values": {"x": 1}, "returning": [AID]}):
            out.append(("mysql", dict(base, ext=[["mysql_limit", lim]])))
    dons = [[AX], [AX, AS_], [["op", "+", AX, 1]], [["label", AX, "lx"]], [["fn", "lower", [AS_]]], [["name", "x"]], [["col", "adhoc"]], [["bp", "d", 1]], [["attr", "A", "x"]],
            [["cast", AX, ["String", 5]]], [["ssq", C.SELC]], [["text", "x"]], [["litc", "a.x"]], []]
    for don in dons:
        for base in ({"k": "select", "cols": [AID, AX]}, {"k": "select", "cols": [AID, AX], "order_by": [AX, AID], "limit": 3}, {"k": "select", "cols": [["ent", "A"]]},
                     {"k": "select", "cols": [AID, C.BX], "joins": [["b", None]], "label_style": "tcol"}, {"k": "select", "cols": [AID], "distinct": True},
                     {"k": "select", "cols": [AID], "group_by": [AID], "having": [["op", ">", ["fn", "count", [AX]], 1]], "for_update": {}}):
            d = dict(base, ext=[["pg_distinct_on", don]])
            out.append(("pg", d))
            out.append(("pg", {"k": "select", "cols": [["tbl", "sq"]], "from": [["subq", d, "sq"]]}))
            out.append(("pg", {"k": "union", "selects": [d, {"k": "select", "cols": [C.BID, C.BX] if len(base["cols"]) == 2 else [C.BID]}]}))
    seen, res = set(), []
    for fam, d in out:
        j = fam + C.dj(d)
        if j not in seen:
            seen.add(j)
            res.append((fam, d))
    return res


def statements(tier, seed):
    depth = 2 if tier == "quick" else 3
    descs = C.corpus(depth, seed)
    comp_src = C.corpus(1 if tier == "quick" else 2, seed, kinds=("select", "orm", "dml", "text") if tier == "quick" else ("select", "orm", "dml", "text", "clause"))
    if tier != "quick":
        # thorough: every depth-2 clause statement is composed only through the two cheapest wrappers; shapes through all
        pass
    comps = []
    shapes = {C.dj(d) for d in C.corpus(1, 0, kinds=("select", "orm", "dml", "text"))} | {C.dj(d) for d in C.corpus(2, 0, kinds=("select", "orm", "dml"))}
    for a in comp_src:
        full = tier == "quick" or C.dj(a) in shapes
        for name, c in C.compositions(a):
            if full or name in ("subq", "cte", "ssq", "ins_from"):
                comps.append(c)
    return descs, C._dedup(comps)


def compile_one(stmt, dialect, kw):
    """the call under contract; returns (outcome, detail, exception)"""
    try:
        with warnings.catch_warnings():
            warnings.simplefilter("ignore")
            c = stmt.compile(dialect=dialect, compile_kwargs=dict(kw))
            s = str(c)
    except C.DOCUMENTED as e:
        return "documented", type(e).__name__, None
    except Exception as e:  # noqa: BLE001
        return "internal", type(e).__name__, e
    if not isinstance(s, str) or not s.strip():
        return "empty", repr(s), None
    return "ok", s, None


def _worker(shard, nshards, tier, seed):
    import hashlib
    descs, comps = statements(tier, seed)
    exts = ext_catalogue()
    alld = [("corpus", None, d) for d in descs] + [("composition", None, d) for d in comps] + [("ext", fam, d) for fam, d in exts]
    dnames_all = QUICK_DIALECTS if tier == "quick" else THOROUGH_DIALECTS
    out = dict(evals=0, built=0, rejected=0, reject_classes={}, sql=set(), outcomes={}, failures=[], samples=[], n_corpus=len(descs), n_comp=len(comps), n_ext=len(exts),
               ext_built=0, ext_evals=0, ext_sql=set(), ext_rejected=[])
    for i, (origin, fam, d) in enumerate(alld):
        if i % nshards != shard:
            continue
        stmt, e = C.try_build(d)
        if e is not None:
            out["rejected"] += 1
            k = type(e).__name__
            out["reject_classes"][k] = out["reject_classes"].get(k, 0) + 1
            if origin == "ext" and len(out["ext_rejected"]) < 3:
                out["ext_rejected"].append("%s: %s" % (k, str(e)[:100]))
            continue
        out["built"] += 1
        dnames = dnames_all if origin != "ext" else OWN_DIALECTS[tier][fam]
        if origin == "ext":
            out["ext_built"] += 1
        for dn in dnames:
            dialect = C.get_dialect(dn)
            for kw in KWS:
                out["evals"] += 1
                oc, detail, exc_ = compile_one(stmt, dialect, kw)
                if origin == "ext":
                    out["ext_evals"] += 1
                    if oc == "ok":
                        out["ext_sql"].add(hashlib.md5((dn.split("+")[0] + detail).encode()).digest()[:8])
                if oc == "ok":
                    out["sql"].add(hashlib.md5((dn.split("+")[0] + detail).encode()).digest()[:8])
                    if len(out["samples"]) < 2 and i % 97 == shard:
                        out["samples"].append(dict(stmt=d, dialect=dn, kw=kw, sql=detail[:300]))
                elif oc == "documented":
                    out["outcomes"][detail] = out["outcomes"].get(detail, 0) + 1
                else:
                    fn = "%s:%s:%s" % (dn, detail if oc == "internal" else "EmptyString", C.raising_function(exc_) if exc_ is not None else "compile")
                    out["failures"].append(dict(function=fn, input=dict(stmt=d, dialect=dn, kw=kw), origin=origin,
                                                expected="normal return or CompileError/UnsupportedCompilationError/InvalidRequestError/ArgumentError",
                                                actual="%s: %s" % (detail, str(exc_)[:300]) if exc_ is not None else "empty string"))
    out["sql"] = list(out["sql"])
    out["ext_sql"] = list(out["ext_sql"])
    return out


def run(run, tier, seed, args):
    res = C.shard_run(_worker, 48, (tier, seed))
    sql, ext_sql = set(), set()
    for r in res:
        ext_sql.update(r["ext_sql"])
    found_ext = discover_extensions()
    failures, outcomes, rej = [], {}, {}
    evals = built = rejected = 0
    samples = []
    for r in res:
        sql.update(r["sql"])
        failures += r["failures"]
        evals += r["evals"]
        built += r["built"]
        rejected += r["rejected"]
        samples += r["samples"]
        for k, v in r["outcomes"].items():
            outcomes[k] = outcomes.get(k, 0) + v
        for k, v in r["reject_classes"].items():
            rej[k] = rej.get(k, 0) + v
    dnames = QUICK_DIALECTS if tier == "quick" else THOROUGH_DIALECTS
    C.report(run, failures)
    internal_classes = {f["function"].split(":", 1)[1] for f in failures}
    run.coverage.update(
        evaluations=evals,
        distinct_nontrivial=len(sql) + len(internal_classes),
        rule="every well-formed descriptor of the statement corpus and of the composition set is compiled on every dialect variant with each "
             "compile_kwargs; a case is distinct and non-trivial when it yields a (dialect family, SQL text) not seen before, or a new "
             "(exception type, raising function) class; counted with a set of hashes",
        samples=samples[:4],
        exhaustive=True,
        scope="(1) statement corpus depth %d (%d descriptors; base-choice grammar of rtc/corpus.py) + %d compositions (A as subquery/CTE/lateral/EXISTS/IN/"
              "scalar subquery/compound member/INSERT..FROM SELECT/upsert source/data-modifying CTE of B) x %d dialect variants %s x 3 compile_kwargs "
              "{plain, literal_binds, render_postcompile}; (2) %d dialect syntax-extension statements (pg/sqlite ON CONFLICT, mysql ON DUPLICATE KEY UPDATE, mysql "
              "limit(), pg distinct_on(): base choice over table x body x conflict target x index_where x SET form x SET key kind x SET value kind x WHERE x "
              "RETURNING x position, + the pairs listed in the module docstring) x every variant of their own dialect family %s x the 3 compile_kwargs"
              % (2 if tier == "quick" else 3, res[0]["n_corpus"], res[0]["n_comp"], len(dnames), list(dnames), res[0]["n_ext"], {k: list(v) for k, v in OWN_DIALECTS[tier].items()}),
        ext_statements_built=sum(r["ext_built"] for r in res), ext_evaluations=sum(r["ext_evals"] for r in res), ext_distinct_sql=len(ext_sql),
        ext_rejected_examples=[x for r in res for x in r["ext_rejected"]][:5],
        ext_classes_found_mechanically=found_ext, ext_classes_not_in_catalogue=sorted(set(found_ext) - EXT_CLASSES_COVERED),
        statements_built=built, rejected_by_constructors=rejected, rejected_classes=rej, documented_errors=outcomes,
        distinct_sql=len(sql), internal_error_cases=len(failures))
    run.assumptions += [
        "well-formed = the corpus descriptor is accepted by the SQLAlchemy constructors (rtc/corpus.build); constructor-time exceptions are outside compile()",
        "dialect objects are unconnected (default server versions, or the version tuples set explicitly in rtc/corpus.DIALECTS); no database is contacted",
        "bounded exploration of a finite catalogue, not a proof",
    ]


def replay(data):
    inp = data["input"]
    stmt = C.build(inp["stmt"])
    oc, detail, exc_ = compile_one(stmt, C.get_dialect(inp["dialect"], fresh=True), inp.get("kw") or {})
    if oc in ("internal", "empty"):
        print("REPLAY-FAILS C22 compile() on %s raised %s: %s | input=%s" % (inp["dialect"], detail, str(exc_)[:200], json.dumps(inp["stmt"])[:400]))
        return 1
    print("REPLAY-PASSES C22 outcome=%s %s" % (oc, detail[:200].replace("\n", " ")))
    return 0
