"""C22 — compiling a well-formed construct never fails with an internal error (bounded run-time contract check).

Function under contract: `ClauseElement.compile(dialect=d, compile_kwargs=kw)` (-> `SQLCompiler.__init__` /
`DDLCompiler`), the real code in /repo.

Contract (exceptional postcondition):
    raises  <=  {CompileError (incl. UnsupportedCompilationError), InvalidRequestError, ArgumentError}
    normal return  =>  str(result) is a non-empty string
Any other exception type escaping `compile()` violates it.  "Well-formed" = accepted by the SQLAlchemy constructors
when the corpus descriptor is built (rtc/corpus.py); descriptors the constructors reject are counted, not judged.

Scope: every statement / DDL construct of the shared statement corpus up to the tier's depth, plus the compositions
"statement A as subquery / CTE / LATERAL / EXISTS / IN / scalar subquery / compound member / INSERT..FROM SELECT /
upsert source / data-modifying CTE of statement B", x dialect variants x {plain, literal_binds, render_postcompile}.
"""
import json
import warnings

from rtc import corpus as C

LEVEL = "exploration"

QUICK_DIALECTS = ("default", "sqlite", "postgresql", "mysql", "mariadb", "mssql", "oracle", "postgresql+asyncpg", "sqlite+numeric")
THOROUGH_DIALECTS = QUICK_DIALECTS + ("postgresql+psycopg", "postgresql+pg8000", "mysql+old", "mariadb+new", "mssql+2008", "mssql+legacy_schema", "oracle+11",
                                      "oracle+noansi", "oracle+oracledb", "default+format", "default+numeric_dollar", "default+label12", "postgresql+label10")
KWS = ({}, {"literal_binds": True}, {"render_postcompile": True})


def statements(tier, seed):
    depth = 2 if tier == "quick" else 3
    descs = C.corpus(depth, seed)
    comp_src = C.corpus(1 if tier == "quick" else 2, seed, kinds=("select", "orm", "dml", "text") if tier == "quick" else ("select", "orm", "dml", "text", "clause"))
    if tier != "quick":
        # thorough: every depth-2 clause statement is composed only through the two cheapest wrappers; shapes through all
        pass
    comps = []
    shapes = {C.dj(d) for d in C.corpus(1, 0, kinds=("select", "orm", "dml", "text"))} | {C.dj(d) for d in C.corpus(2, 0, kinds=("select", "orm", "dml"))}
    for a in comp_src:
        full = tier == "quick" or C.dj(a) in shapes
        for name, c in C.compositions(a):
            if full or name in ("subq", "cte", "ssq", "ins_from"):
                comps.append(c)
    return descs, C._dedup(comps)


def compile_one(stmt, dialect, kw):
    """the call under contract; returns (outcome, detail, exception)"""
    try:
        with warnings.catch_warnings():
            warnings.simplefilter("ignore")
            c = stmt.compile(dialect=dialect, compile_kwargs=dict(kw))
            s = str(c)
    except C.DOCUMENTED as e:
        return "documented", type(e).__name__, None
    except Exception as e:  # noqa: BLE001
        return "internal", type(e).__name__, e
    if not isinstance(s, str) or not s.strip():
        return "empty", repr(s), None
    return "ok", s, None


def _worker(shard, nshards, tier, seed):
    import hashlib
    descs, comps = statements(tier, seed)
    alld = [("corpus", d) for d in descs] + [("composition", d) for d in comps]
    dnames = QUICK_DIALECTS if tier == "quick" else THOROUGH_DIALECTS
    out = dict(evals=0, built=0, rejected=0, reject_classes={}, sql=set(), outcomes={}, failures=[], samples=[], n_corpus=len(descs), n_comp=len(comps))
    for i, (origin, d) in enumerate(alld):
        if i % nshards != shard:
            continue
        stmt, e = C.try_build(d)
        if e is not None:
            out["rejected"] += 1
            k = type(e).__name__
            out["reject_classes"][k] = out["reject_classes"].get(k, 0) + 1
            continue
        out["built"] += 1
        for dn in dnames:
            dialect = C.get_dialect(dn)
            for kw in KWS:
                out["evals"] += 1
                oc, detail, exc_ = compile_one(stmt, dialect, kw)
                if oc == "ok":
                    out["sql"].add(hashlib.md5((dn.split("+")[0] + detail).encode()).digest()[:8])
                    if len(out["samples"]) < 2 and i % 97 == shard:
                        out["samples"].append(dict(stmt=d, dialect=dn, kw=kw, sql=detail[:300]))
                elif oc == "documented":
                    out["outcomes"][detail] = out["outcomes"].get(detail, 0) + 1
                else:
                    fn = "%s:%s:%s" % (dn, detail if oc == "internal" else "EmptyString", C.raising_function(exc_) if exc_ is not None else "compile")
                    out["failures"].append(dict(function=fn, input=dict(stmt=d, dialect=dn, kw=kw), origin=origin,
                                                expected="normal return or CompileError/UnsupportedCompilationError/InvalidRequestError/ArgumentError",
                                                actual="%s: %s" % (detail, str(exc_)[:300]) if exc_ is not None else "empty string"))
    out["sql"] = list(out["sql"])
    return out


def run(run, tier, seed, args):
    res = C.shard_run(_worker, 48, (tier, seed))
    sql = set()
    failures, outcomes, rej = [], {}, {}
    evals = built = rejected = 0
    samples = []
    for r in res:
        sql.update(r["sql"])
        failures += r["failures"]
        evals += r["evals"]
        built += r["built"]
        rejected += r["rejected"]
        samples += r["samples"]
        for k, v in r["outcomes"].items():
            outcomes[k] = outcomes.get(k, 0) + v
        for k, v in r["reject_classes"].items():
            rej[k] = rej.get(k, 0) + v
    dnames = QUICK_DIALECTS if tier == "quick" else THOROUGH_DIALECTS
    C.report(run, failures)
    internal_classes = {f["function"].split(":", 1)[1] for f in failures}
    run.coverage.update(
        evaluations=evals,
        distinct_nontrivial=len(sql) + len(internal_classes),
        rule="every well-formed descriptor of the statement corpus and of the composition set is compiled on every dialect variant with each "
             "compile_kwargs; a case is distinct and non-trivial when it yields a (dialect family, SQL text) not seen before, or a new "
             "(exception type, raising function) class; counted with a set of hashes",
        samples=samples[:4],
        exhaustive=True,
        scope="statement corpus depth %d (%d descriptors; base-choice grammar of rtc/corpus.py) + %d compositions (A as subquery/CTE/lateral/EXISTS/IN/"
              "scalar subquery/compound member/INSERT..FROM SELECT/upsert source/data-modifying CTE of B) x %d dialect variants %s x 3 compile_kwargs "
              "{plain, literal_binds, render_postcompile}" % (2 if tier == "quick" else 3, res[0]["n_corpus"], res[0]["n_comp"], len(dnames), list(dnames)),
        statements_built=built, rejected_by_constructors=rejected, rejected_classes=rej, documented_errors=outcomes,
        distinct_sql=len(sql), internal_error_cases=len(failures))
    run.assumptions += [
        "well-formed = the corpus descriptor is accepted by the SQLAlchemy constructors (rtc/corpus.build); constructor-time exceptions are outside compile()",
        "dialect objects are unconnected (default server versions, or the version tuples set explicitly in rtc/corpus.DIALECTS); no database is contacted",
        "bounded exploration of a finite catalogue, not a proof",
    ]


def replay(data):
    inp = data["input"]
    stmt = C.build(inp["stmt"])
    oc, detail, exc_ = compile_one(stmt, C.get_dialect(inp["dialect"], fresh=True), inp.get("kw") or {})
    if oc in ("internal", "empty"):
        print("REPLAY-FAILS C22 compile() on %s raised %s: %s | input=%s" % (inp["dialect"], detail, str(exc_)[:200], json.dumps(inp["stmt"])[:400]))
        return 1
    print("REPLAY-PASSES C22 outcome=%s %s" % (oc, detail[:200].replace("\n", " ")))
    return 0
