"""C23 — Connection transactions and savepoints have nested-transaction semantics (class B, exhaustive exploration).

Drives the REAL ``Connection.begin / begin_nested / commit / rollback / close / execute``, ``RootTransaction`` and
``NestedTransaction`` ``commit / rollback / close / __enter__ / __exit__`` on a file-backed SQLite database
(``create_engine("sqlite:///<tempdir>/c23.db", connect_args={"autocommit": False})`` — the documented non-legacy
transaction mode of the sqlite3 driver, in which SAVEPOINT takes part in the enclosing transaction).  What other
connections see is read through an independent raw ``sqlite3`` connection after EVERY step; what the subject connection
itself sees is read through its own raw DBAPI connection (a plain SELECT, which does not change transaction state).

Ghost model (taken from the documentation of Connection / Transaction / NestedTransaction, not from the code):
a stack of frames — root + live savepoints — each with the keys inserted since it began, the committed set, the handle
``T`` returned by the last successful ``begin()``, the savepoint handles ``N[-1]`` (most recent) and ``N[-2]``, and the
innermost entered context manager ``ctx``:
  begin           no transaction, open, ctx not dead → push root;   otherwise raises
  begin_nested    open, ctx not dead → autobegin if needed, push savepoint;   otherwise raises
  ins             open, ctx not dead → autobegin, key goes to the innermost frame;   otherwise raises
  commit / T.commit (T live)   every frame's keys become committed, stack empty;   T.commit with T ended raises
  rollback / close / T.rollback / T.close (T live)   every frame discarded (close: closed);   on an ended T: no effect, no error
  N.commit (N live)   RELEASE: N and every savepoint inside it merge into N's parent;   N ended: raises
  N.rollback / N.close (N live)   ROLLBACK TO: N and everything inside it discarded, exactly;   N ended: no effect, no error
  h.__enter__     ctx := h;   h.__exit__(None) ≡ h.commit() if h live;   h.__exit__(exc) ≡ h.rollback() if h live; ctx restored
  "ctx dead"      a context manager is entered whose transaction has ended: begin / begin_nested / ins and the savepoint
                  commands of a live N raise until it exits ("Please complete the context manager before emitting further
                  commands"); after a refused savepoint command the rest of the sequence is not judged (undocumented state)

Contract clauses evaluated after EVERY step:
  F1  conn.closed == ghost.closed
  F2  in_transaction() == (ghost stack non-empty)          F3  in_nested_transaction() == (a ghost savepoint is live) and
      get_nested_transaction() is the handle of the innermost live ghost savepoint
  F4  in_nested_transaction() ⇒ in_transaction();  nothing active on a closed connection
  F5  rows visible from the independent connection == ghost.committed                       (no phantom / lost commit)
  F6  rows visible to the subject connection == ghost.committed ∪ keys of all live frames  (a savepoint rollback discards
      exactly the inner writes; an outer rollback / close discards everything uncommitted)
  F7  when the ghost stack is empty (after commit / rollback / close) no connection holds uncommitted writes any more
  E1  anything an operation raises is InvalidRequestError or ResourceClosedError
  E2  an operation the ghost says must raise (ended transaction, closed connection, second begin, dead ctx) raises
  E3  an operation the ghost says is legal does not raise
  R1  recovery (follows from "an outer commit / rollback / close ends everything" + F1-F4, E1-E3): after the first failing
      clause of a sequence the remaining steps are still RUN but not judged (the Connection has left the ghost) until
      the next operation which, in the ghost, ends the outer transaction (commit / rollback / close on the Connection, or
      commit / rollback / close / with-exit on the live begin() handle).  From that step on every clause is judged again:
      the Connection must be back in step with the model - no transaction, no savepoint (get_nested_transaction() is
      None), nothing uncommitted held, and afterwards every handle of the ended transaction behaves as ended (commit
      raises InvalidRequestError, rollback / close do nothing), begin / ins / begin_nested work normally.  The data
      clauses F5 / F6 restart from what the independent connection sees at that step (the data effect of the deviation
      belongs to the deviation).  A clause failing after the resumption is reported as a second, separate failure whose
      input carries ``resumed_after`` (step, operation and clause of the first one).
At most these two failures of a sequence are reported (every prefix is itself an enumerated sequence).

Scope (exact text in coverage.scope), three enumerations run by the same interpreter ``run_seq`` and judged by the same clauses:
  (1) ALL operation sequences of length <= 5 (quick) / <= 6 (thorough) over the 20 operations OPS
      (t = handle of the last successful begin(), n / m = handles of the last / last-but-one successful begin_nested());
  (2) with-block programs, longer than (1) reaches: the block skeletons SKELETONS — ``with conn.begin():`` containing
      ``with conn.begin_nested():``; an autobegun ``with conn.begin_nested():`` containing another; three levels; two inner
      blocks one after the other — every block independently left normally or by exception (the exception being handled
      in the enclosing block), with up to 2 / 1 (quick) or 3 / 2 (thorough) extra operations (two-block / three-block
      skeletons) from EXTRAS (begin, begin_nested, ins, commit, rollback, close and commit / rollback / close on the t / n /
      m handles) inserted at every combination of points inside the block bodies and after the outermost block.  This is
      where an inner block exits by exception or after its transaction was already ended in-block, the enclosing
      transaction is then ended in-block, and further operations are attempted inside the still-open outer block (which
      the "ctx dead" rule says must raise).  ``n3.`` .. ``n9.`` address the 3rd .. 9th most recent begin_nested() handle.
  (3) misuse-recovery programs, longer than (1) reaches (``recovery_programs``): [begin()] + a savepoint stack of depth
      2..4 (quick) / 2..5 (thorough), with or without an insert in every frame + ONE out-of-order operation (commit /
      rollback / close / with-block exit normally / by exception) on a savepoint at ANY position below the innermost one
      + an operation ending the outer transaction (commit / rollback / close on the Connection or the begin() handle)
      + every sequence of <= 1 (quick) / <= 2 (thorough) follow-up operations from {ins, begin, begin_nested, commit,
      rollback, commit / rollback on each savepoint handle and on the begin() handle}.  The out-of-order operation is
      where the recorded findings (known_findings.d/C23.json) make the Connection leave the ghost; R1 judges what the
      end of the outer transaction and the use of the old handles do afterwards.
Bounded; not a proof.
"""
import itertools
import json
import os
import sqlite3
import tempfile
import time
import warnings

from rtc.shard import default_procs, shard_map

LEVEL = "exploration"
FUNCTION = "sqlalchemy.engine.base.Connection/RootTransaction/NestedTransaction"

OPS = ["begin", "begin_nested", "ins", "commit", "rollback", "close",
       "t.commit", "t.rollback", "t.close",
       "n.commit", "n.rollback", "n.close",
       "m.commit", "m.rollback",
       "t.enter", "t.exit_ok", "t.exit_raise", "n.enter", "n.exit_ok", "n.exit_raise"]


class Frame:
    __slots__ = ("kind", "writes", "live", "outer_ctx", "entered", "handle")

    def __init__(self, kind, handle=None):
        self.kind, self.writes, self.live, self.outer_ctx, self.entered, self.handle = kind, [], True, None, False, handle


class Ghost:
    def __init__(self):
        self.closed = False
        self.root = None
        self.sps = []
        self.committed = set()
        self.ctx = None          # Frame of the innermost entered context manager

    def frames(self):
        return ([self.root] if self.root else []) + self.sps

    def end_all(self, commit):
        for f in self.frames():
            if commit:
                self.committed.update(f.writes)
            f.live = False
        self.root, self.sps = None, []

    def release(self, f):
        i = self.sps.index(f)
        parent = self.sps[i - 1] if i > 0 else self.root
        for g in self.sps[i:]:
            parent.writes.extend(g.writes)
            g.live = False
        del self.sps[i:]

    def rollback_to(self, f):
        i = self.sps.index(f)
        for g in self.sps[i:]:
            g.live = False
        del self.sps[i:]

    def visible(self):
        s = set(self.committed)
        for f in self.frames():
            s.update(f.writes)
        return s

    def ctx_dead(self):
        return self.ctx is not None and not self.ctx.live


class Env:
    """one engine + one observer per worker process"""

    def __init__(self):
        from sqlalchemy import create_engine
        base = "/dev/shm" if os.path.isdir("/dev/shm") and os.access("/dev/shm", os.W_OK) else None
        self.tmp = tempfile.TemporaryDirectory(prefix="verif-c23-", dir=base)
        self.path = os.path.join(self.tmp.name, "c23.db")
        self.engine = create_engine(f"sqlite:///{self.path}", connect_args={"autocommit": False})
        self.obs = sqlite3.connect(self.path, isolation_level=None, timeout=0)
        self.obs.execute("create table t (k integer)")

    def observed(self):
        return sorted(r[0] for r in self.obs.execute("select k from t"))

    def write_lock_free(self):
        """True iff no other connection holds uncommitted writes (SQLite RESERVED lock)"""
        try:
            self.obs.execute("begin immediate")
        except sqlite3.OperationalError:
            return False
        self.obs.execute("rollback")
        return True

    def close(self):
        self.obs.close()
        self.engine.dispose()
        self.tmp.cleanup()


def run_seq(env, ops, trace=False, resume=True):
    """returns dict(status='ok'|'pruned'|'fail', steps=n, failure=..., raised=[...], trace=[...])"""
    from sqlalchemy import exc as sa_exc
    try:
        env.obs.execute("delete from t")
    except sqlite3.OperationalError:           # a previous sequence left a lock behind (already reported there): start clean
        env.engine.dispose()
        env.obs.execute("delete from t")
    conn = env.engine.connect()
    G = Ghost()
    T = None            # (handle, Frame)
    N = []              # [(handle, Frame)]
    k = 0
    raised = []
    tr = []
    out = dict(status="ok", steps=0, failure=None, failure2=None, resumed=0, steps_after_resume=0)
    degraded = None      # set at the first failing clause: steps are run but not judged until the ghost's outer transaction ends
    resumed_after = None

    def state():
        def st(x):
            return None if x is None else ("live" if x[1].live else "ended")
        return (f"closed={G.closed} root={'live' if G.root else None} savepoints={len(G.sps)} T={st(T)} "
                f"n={st(N[-1]) if N else None} m={st(N[-2]) if len(N) > 1 else None} "
                f"ctx={None if G.ctx is None else (G.ctx.kind + ('-live' if G.ctx.live else '-ended'))}")

    try:
        for i, op in enumerate(ops):
            pre = state()
            # ---- ghost verdict BEFORE the call: must_raise?, effect thunk
            target = None
            if op.startswith("t."):
                if T is None:
                    out["status"] = "pruned"
                    break
                target = T
            elif op.startswith("n."):
                if not N:
                    out["status"] = "pruned"
                    break
                target = N[-1]
            elif op.startswith("m."):
                if len(N) < 2:
                    out["status"] = "pruned"
                    break
                target = N[-2]
            elif op[0] == "n" and op[1].isdigit():          # "n3." = N[-3] (with-block programs only)
                j = int(op[1])
                if len(N) < j:
                    out["status"] = "pruned"
                    break
                target = N[-j]
            verb = op.split(".")[1] if target else op
            if verb == "enter" and target[1].entered:
                out["status"] = "pruned"
                break
            if verb in ("exit_ok", "exit_raise") and not target[1].entered:
                out["status"] = "pruned"
                break

            tdesc = None
            if target is not None:
                fr_ = target[1]
                tdesc = f"{fr_.kind} {'live' if fr_.live else 'ended'}"
                if fr_.kind == "savepoint" and fr_.live:
                    tdesc += f" inner_live={len(G.sps) - G.sps.index(fr_) - 1}"
            must_raise = False
            if verb == "begin":
                must_raise = G.closed or G.root is not None or G.ctx_dead()
            elif verb in ("begin_nested", "ins"):
                must_raise = G.closed or G.ctx_dead()
            elif target is not None and verb == "commit":
                must_raise = not target[1].live
            undetermined = False
            if target is not None and target[1].kind == "savepoint" and target[1].live and G.ctx_dead() \
                    and verb in ("commit", "rollback", "close", "exit_ok", "exit_raise"):
                # RELEASE / ROLLBACK TO are commands emitted through the Connection: refused while a context manager whose
                # transaction has ended is still entered.  What state the savepoint handle is left in is not documented:
                # the operation must raise; the rest of the sequence is not judged.
                must_raise = True
                undetermined = True

            if G.ctx_dead() and not G.closed and (verb in ("begin", "begin_nested", "ins") or undetermined):
                out["ctx_dead_steps"] = out.get("ctx_dead_steps", 0) + 1       # the dead-context-manager guard is exercised

            # ---- the real call
            err = None
            new_handle = None
            try:
                if op == "begin":
                    new_handle = conn.begin()
                elif op == "begin_nested":
                    new_handle = conn.begin_nested()
                elif op == "ins":
                    k += 1
                    conn.exec_driver_sql("insert into t values (?)", (k,))
                elif op == "commit":
                    conn.commit()
                elif op == "rollback":
                    conn.rollback()
                elif op == "close":
                    conn.close()
                elif verb in ("commit", "rollback", "close"):
                    getattr(target[0], verb)()
                elif verb == "enter":
                    target[0].__enter__()
                elif verb == "exit_ok":
                    target[0].__exit__(None, None, None)
                elif verb == "exit_raise":
                    target[0].__exit__(ValueError, ValueError("body failed"), None)
            except BaseException as ex:  # noqa: classified right here, object not kept
                err = (type(ex).__name__, isinstance(ex, (sa_exc.InvalidRequestError, sa_exc.ResourceClosedError)), str(ex)[:140])
            raised.append((op, err[0] if err else None))
            out["steps"] = i + 1
            if degraded is not None and (undetermined or (err and not must_raise and op in ("begin", "begin_nested"))):
                break       # unjudged part: a handle the ghost counts on was never created / undocumented state: give up

            ends_outer = (not must_raise) and (op in ("commit", "rollback", "close") or (
                target is not None and target[1].kind == "root" and target[1].live
                and verb in ("commit", "rollback", "close", "exit_ok", "exit_raise")))

            # ---- ghost effect (only if the operation is legal; a raising operation must leave everything unchanged)
            if not must_raise:
                if op == "begin":
                    G.root = Frame("root")
                    T = (new_handle, G.root)
                elif op == "begin_nested":
                    if G.root is None:
                        G.root = Frame("root")
                    f = Frame("savepoint", new_handle)
                    G.sps.append(f)
                    N.append((new_handle, f))
                elif op == "ins":
                    if G.root is None:
                        G.root = Frame("root")
                    (G.sps[-1] if G.sps else G.root).writes.append(k)
                elif op == "commit":
                    G.end_all(True)
                elif op == "rollback":
                    G.end_all(False)
                elif op == "close":
                    G.end_all(False)
                    G.closed = True
                elif target is not None:
                    fr = target[1]
                    eff = verb
                    if verb == "enter":
                        fr.outer_ctx = G.ctx
                        G.ctx = fr
                        fr.entered = True
                        eff = None
                    elif verb in ("exit_ok", "exit_raise"):
                        eff = "commit" if verb == "exit_ok" else "rollback"
                        if not fr.live:
                            eff = None
                    if eff and fr.live:
                        if fr.kind == "root":
                            G.end_all(eff == "commit")
                        elif eff == "commit":
                            G.release(fr)
                        else:
                            G.rollback_to(fr)
                    if verb in ("exit_ok", "exit_raise"):
                        if G.ctx is fr:
                            G.ctx = fr.outer_ctx
                        fr.outer_ctx = None
                        fr.entered = False

            # ---- clauses
            fail = None
            if degraded is not None:
                if not ends_outer:
                    if trace:
                        tr.append(dict(op=op, raised=err and err[0], ghost=state(), judged=False))
                    continue
                # R1: the ghost's outer transaction has just ended -> judgement resumes with this step; the data clauses
                # restart from what the independent connection sees now (the data effect of the deviation belongs to it)
                resumed_after = f"step {degraded['step']} {degraded['op']} {degraded['clause']}"
                degraded = None
                out["resumed"] = 1
                if not err:
                    G.committed = set(env.observed())
            if resumed_after is not None:
                out["steps_after_resume"] += 1
            if err and not err[1]:
                fail = ("E1-foreign-exception", f"{err[0]}: {err[2]}")
            elif must_raise and not err:
                fail = ("E2-misuse-did-not-raise", "the ghost says this operation must raise; it returned normally")
            elif err and not must_raise:
                fail = ("E3-legal-operation-raised", f"{err[0]}: {err[2]}")
            if fail is None and undetermined:
                out["status"] = "undetermined"
                break
            if fail is None:
                it, inn, cl = conn.in_transaction(), conn.in_nested_transaction(), conn.closed
                obs = env.observed()
                if cl != G.closed:
                    fail = ("F1-closed-flag", f"conn.closed={cl} ghost={G.closed}")
                elif inn and not it:
                    fail = ("F4-nested-without-transaction", "in_nested_transaction() and not in_transaction()")
                elif cl and (it or inn):
                    fail = ("F4-active-on-closed-connection", f"in_transaction={it} in_nested_transaction={inn}")
                elif it != (G.root is not None):
                    fail = ("F2-in_transaction", f"in_transaction()={it} ghost={G.root is not None}")
                elif inn != bool(G.sps):
                    fail = ("F3-in_nested_transaction", f"in_nested_transaction()={inn} ghost savepoints={len(G.sps)}")
                elif conn.get_nested_transaction() is not (G.sps[-1].handle if G.sps else None):
                    fail = ("F3-current-savepoint", "get_nested_transaction() is not the innermost live savepoint of the ghost")
                elif obs != sorted(G.committed):
                    fail = ("F5-committed-data", f"independent connection sees {obs}, ghost committed {sorted(G.committed)}")
                elif G.root is None and not env.write_lock_free():
                    fail = ("F7-uncommitted-work-survives", "no transaction in the ghost, yet a connection still holds uncommitted writes")
                elif not cl:
                    mine = sorted(r[0] for r in conn.connection.dbapi_connection.execute("select k from t"))
                    if mine != sorted(G.visible()):
                        fail = ("F6-visible-to-subject", f"subject sees {mine}, ghost {sorted(G.visible())}")
                if trace:
                    tr.append(dict(op=op, raised=err and err[0], in_transaction=it, in_nested_transaction=inn, closed=cl,
                                   committed_seen=obs, ghost=state()))
            elif trace:
                tr.append(dict(op=op, raised=err and err[0], ghost=state()))
            if fail:
                out["status"] = "fail"
                if out["failure"] is None:
                    out["failure"] = dict(clause=fail[0], detail=fail[1], step=i, op=op, pre=pre, target=tdesc)
                    if not resume:
                        break
                    degraded = out["failure"]
                    out["steps"] = i + 1
                    out["steps_first"] = i + 1
                    continue
                out["failure2"] = dict(clause=fail[0], detail=fail[1], step=i, op=op, pre=pre, target=tdesc, resumed_after=resumed_after)
                break
    finally:
        try:
            conn.close()
        except BaseException:  # noqa
            pass
        if conn.closed is False or getattr(conn, "_dbapi_connection", None) is not None:
            env.engine.dispose()
    if out["failure"] is not None:
        out["status"] = "fail"      # (a later 'no target' / 'undetermined' cut does not erase the failure already found)
    out["raised"] = raised
    out["trace"] = tr
    return out


def sequences(maxlen):
    """DFS over operation sequences; a prefix whose last operation cannot have a target (no earlier begin() for t.*, fewer
    earlier begin_nested() than needed for n.* / m.*, exit without an earlier enter) is cut together with all its
    extensions — such a sequence equals a shorter one.  (The remaining 'no target' cases depend on whether an earlier
    operation succeeded and are pruned at run time.)"""
    def ok(prefix, op):
        if op.startswith("t.") and "begin" not in prefix:
            return False
        if op.startswith("n.") and "begin_nested" not in prefix:
            return False
        if op.startswith("m.") and prefix.count("begin_nested") < 2:
            return False
        if op.endswith(("exit_ok", "exit_raise")) and (op[:2] + "enter") not in prefix:
            return False
        return True

    def rec(prefix):
        if prefix:
            yield prefix
        if len(prefix) == maxlen:
            return
        for op in OPS:
            if ok(prefix, op):
                yield from rec(prefix + (op,))
    yield from rec(())


EXTRAS = ["begin", "begin_nested", "ins", "commit", "rollback", "close",
          "t.commit", "t.rollback", "t.close", "n.commit", "n.rollback", "n.close", "m.commit", "m.rollback"]

# with-block skeletons: ("root",) = begin(); ("sp", id) = begin_nested(); ("enter"|"exit", id); None = a slot where extra
# operations may be inserted (i.e. every point INSIDE a with-block body, plus the point after the outermost block).
# id "R" is the RootTransaction handle, "A" / "B" / "C" are NestedTransaction handles.
SKELETONS = {
    # with conn.begin(): ... with conn.begin_nested(): ... <inner exit> ... <outer exit> ...
    "root>sp": (2, [("root",), ("enter", "R"), None, ("sp", "A"), ("enter", "A"), None, ("exit", "A"), None, ("exit", "R"), None]),
    # autobegin; with conn.begin_nested(): ... with conn.begin_nested(): ...
    "sp>sp": (2, [("sp", "A"), ("enter", "A"), None, ("sp", "B"), ("enter", "B"), None, ("exit", "B"), None, ("exit", "A"), None]),
    # three levels
    "root>sp>sp": (3, [("root",), ("enter", "R"), None, ("sp", "A"), ("enter", "A"), None, ("sp", "B"), ("enter", "B"), None,
                       ("exit", "B"), None, ("exit", "A"), None, ("exit", "R"), None]),
    # two inner blocks one after the other
    "root>sp,sp": (3, [("root",), ("enter", "R"), None, ("sp", "A"), ("enter", "A"), None, ("exit", "A"), None,
                       ("sp", "B"), ("enter", "B"), None, ("exit", "B"), None, ("exit", "R"), None]),
}


def with_programs(k2, k3, minlen):
    """with-block programs: every skeleton above x every way its blocks exit (normally / by exception, independently) x
    every way of inserting <= k extra operations (k2 for the two-block skeletons, k3 for the three-block ones) from
    EXTRAS into the slots.  Handles are written in the t / n / m / n3.. language of run_seq (n = most recent
    begin_nested() so far, m = the one before, ...), resolved by counting the begin_nested operations before each point;
    programs of length <= minlen are skipped (they are members of the exhaustive scope)."""
    for name, (nblocks, skel) in SKELETONS.items():
        k = k2 if nblocks == 2 else k3
        nslots = sum(1 for x in skel if x is None)
        for exits in itertools.product(("exit_ok", "exit_raise"), repeat=nblocks):
            for n_extra in range(k + 1):
                for slots in itertools.combinations_with_replacement(range(nslots), n_extra):
                    for extras in itertools.product(EXTRAS, repeat=n_extra):
                        ops, count, ordinal, si, xi, bad = [], 0, {}, 0, 0, False
                        fill = {}
                        for sl, e in zip(slots, extras):
                            fill.setdefault(sl, []).append(e)
                        for tok in skel:
                            if tok is None:
                                for e in fill.get(si, ()):
                                    ops.append(e)
                                    if e == "begin_nested":
                                        count += 1
                                si += 1
                                continue
                            if tok[0] == "root":
                                ops.append("begin")
                            elif tok[0] == "sp":
                                ops.append("begin_nested")
                                count += 1
                                ordinal[tok[1]] = count
                            else:
                                if tok[1] == "R":
                                    h = "t"
                                else:
                                    j = count - ordinal[tok[1]] + 1
                                    h = "n" if j == 1 else "m" if j == 2 else f"n{j}"
                                    bad = bad or j > 9
                                if tok[0] == "enter":
                                    ops.append(h + ".enter")
                                else:
                                    ops.append(h + "." + exits[xi])
                                    xi += 1
                        if not bad and len(ops) > minlen:
                            yield tuple(ops)


def _hname(j):
    return "n" if j == 1 else "m" if j == 2 else f"n{j}"


def recovery_programs(dmax, nfollow, minlen):
    """misuse-recovery programs (longer than the exhaustive scope): [begin] + a savepoint stack of depth d = 2..dmax
    (optionally one insert in every frame) + ONE out-of-order operation (commit / rollback / close / a with-block exit,
    normal or by exception) on a savepoint that is not the innermost one (every position below the top) + an operation
    that ends the outer transaction (commit / rollback / close on the Connection or on the begin() handle) + every
    sequence of <= nfollow follow-up operations from {ins, begin, begin_nested, commit, rollback, commit / rollback on
    each of the d savepoint handles and on the begin() handle}."""
    for explicit in (False, True):
        for d in range(2, dmax + 1):
            for with_ins in (False, True):
                head = ["begin"] if explicit else []
                if explicit and with_ins:
                    head.append("ins")
                for _ in range(d):
                    head.append("begin_nested")
                    if with_ins:
                        head.append("ins")
                for j in range(2, d + 1):
                    for mis in (["commit"], ["rollback"], ["close"], ["enter", "exit_ok"], ["enter", "exit_raise"]):
                        misuse = [f"{_hname(j)}.{v}" for v in mis]
                        enders = ["commit", "rollback", "close"] + (["t.commit", "t.rollback", "t.close"] if explicit else [])
                        follow = ["ins", "begin", "begin_nested", "commit", "rollback"]
                        for h in [_hname(x) for x in range(1, d + 1)] + (["t"] if explicit else []):
                            follow += [h + ".commit", h + ".rollback"]
                        for end in enders:
                            for nf in range(nfollow + 1):
                                for fl in itertools.product(follow, repeat=nf):
                                    ops = tuple(head + misuse + [end] + list(fl))
                                    if len(ops) > minlen:
                                        yield ops


def worker(shard, nshards, maxlen, k2=0, k3=0, dmax=0, nfollow=0):
    warnings.simplefilter("ignore")
    env = Env()
    out = dict(sequences=0, evaluated=0, pruned=0, steps=0, failures=[], outcomes={}, samples=[], truncated=0, undetermined=0,
               with_programs=0, with_programs_ctx_dead=0, resumed=0, steps_after_resume=0, recovery_programs=0)
    try:
        n_exh = 0
        n_with = 0
        for idx, ops in enumerate(itertools.chain(sequences(maxlen), [None], with_programs(k2, k3, maxlen), [None],
                                                  recovery_programs(dmax, nfollow, maxlen) if dmax else ())):
            if ops is None:
                if n_exh:
                    n_with = idx
                else:
                    n_exh = idx
                continue
            if idx % nshards != shard:
                continue
            out["sequences"] += 1
            r = run_seq(env, ops)
            if n_with:
                out["recovery_programs"] += 1
            elif n_exh:
                out["with_programs"] += 1
                if r.get("ctx_dead_steps"):
                    out["with_programs_ctx_dead"] += 1
            if r["status"] == "pruned":
                out["pruned"] += 1
                continue
            if r["status"] == "undetermined":
                out["undetermined"] += 1
            out["evaluated"] += 1
            out["steps"] += r["steps"]
            if r["status"] == "fail":
                if r["steps"] < len(ops):
                    out["truncated"] += 1
                f = r["failure"]
                out["failures"].append(dict(ops=list(ops), **f))
                if r["failure2"]:
                    out["failures"].append(dict(ops=list(ops), **r["failure2"]))
                out["resumed"] += r["resumed"]
                out["steps_after_resume"] += r["steps_after_resume"]
            # abstract outcome of the whole sequence: which steps raised what
            key = "|".join(f"{o}:{e or '-'}" for o, e in r["raised"])
            out["outcomes"][key] = out["outcomes"].get(key, 0) + 1
            if len(out["samples"]) < 1 and len(ops) == maxlen and any(e for _, e in r["raised"]) and r["status"] == "ok":
                out["samples"].append(dict(ops=list(ops), raised=r["raised"]))
    finally:
        env.close()
    # distinct non-trivial: distinct evaluated sequences in which at least one step raised OR a savepoint was involved
    out["distinct_outcomes"] = len(out["outcomes"])
    out["with_error_step"] = sum(v for k, v in out["outcomes"].items() if any(not p.endswith(":-") for p in k.split("|")))
    del out["outcomes"]
    return out


def run(run, tier, seed, args):
    warnings.simplefilter("ignore")
    maxlen = 5 if tier == "quick" else 6
    k2, k3 = (2, 1) if tier == "quick" else (3, 2)
    dmax, nfollow = (4, 1) if tier == "quick" else (5, 2)
    procs = default_procs(tier)
    t0 = time.time()
    res = shard_map(worker, procs, procs, maxlen, k2, k3, dmax, nfollow)
    tot = dict(sequences=0, evaluated=0, pruned=0, steps=0, truncated=0, distinct_outcomes=0, with_error_step=0, undetermined=0,
               with_programs=0, with_programs_ctx_dead=0, resumed=0, steps_after_resume=0, recovery_programs=0)
    failures, samples = [], []
    for r in res:
        if r is None or "crash" in r:
            run.crashes.append((r or {}).get("crash", "shard returned nothing"))
            continue
        for k_ in tot:
            tot[k_] += r[k_]
        failures += r["failures"]
        samples += r["samples"]
    env = Env()
    try:
        tr = run_seq(env, ("begin_nested", "ins", "n.rollback", "commit"), trace=True)
    finally:
        env.close()
    samples = samples[:3] + [dict(ops=["begin_nested", "ins", "n.rollback", "commit"], trace=tr["trace"])]
    run.coverage.update(
        evaluations=tot["evaluated"], distinct_nontrivial=tot["with_error_step"],
        rule="(1) every sequence over the 20 operations is enumerated depth-first; (2) every with-block program (see scope) "
             "is enumerated; both kinds are run by the same interpreter and judged by the same clauses; a sequence in which an operation has no "
             "target yet (t.* before a begin(), n.* before a begin_nested(), m.* before two, exit before enter, second enter) "
             "is pruned (statically, or at run time when it depends on an earlier operation having succeeded) because it "
             "equals a shorter enumerated sequence; each remaining sequence is distinct by construction. "
             "A sequence is non-trivial (distinct_nontrivial) when at least one of its steps raised, i.e. it exercises "
             "misuse / an ended transaction / a closed connection; distinct_outcomes (summed per shard) counts distinct "
             "(operation, exception class) traces; with_programs_guard_exercised counts the with-block programs in which "
             "an operation was attempted while an entered context manager's transaction had already ended; "
             "(3) every misuse-recovery program (see scope) is enumerated; sequences_judged_again_after_a_deviation_R1 counts the "
             "sequences in which a clause failed (recorded findings), the outer transaction was then ended and judgement resumed, "
             "steps_judged_after_resumption_R1 the steps judged there",
        samples=samples, exhaustive=True,
        scope=f"all operation sequences of length <= {maxlen} over {OPS} on one Connection (savepoint depth <= {maxlen}), "
              f"PLUS all with-block programs longer than that: the block skeletons {sorted(SKELETONS)} (root = 'with conn.begin()', "
              f"sp = 'with conn.begin_nested()', '>' = nested inside, ',' = one after the other; 'sp>sp' autobegins), every block "
              f"independently exiting normally or by exception, with <= {k2} (two-block skeletons) / <= {k3} (three-block "
              f"skeletons) extra operations from {EXTRAS} inserted at any points inside the block bodies / after the outermost "
              f"block; PLUS all misuse-recovery programs longer than that: [begin] + savepoint stack of depth 2..{dmax} (with / without "
              f"an insert per frame) + one out-of-order commit / rollback / close / with-exit (ok / exception) on a savepoint at any "
              f"position below the innermost + commit / rollback / close of the outer transaction (Connection or begin() handle) + "
              f"<= {nfollow} follow-up operations from ins, begin, begin_nested, commit, rollback, commit / rollback on every handle; "
              f"after a first deviation a sequence is run on and judged again from the step that ends the ghost's outer "
              f"transaction (clause R1); file-backed SQLite in sqlite3 autocommit=False mode, one independent observer connection; every step judged",
        with_programs=tot["with_programs"], with_programs_guard_exercised=tot["with_programs_ctx_dead"],
        recovery_programs=tot["recovery_programs"], sequences_judged_again_after_a_deviation_R1=tot["resumed"],
        steps_judged_after_resumption_R1=tot["steps_after_resume"],
        sequences_enumerated=tot["sequences"], pruned_no_target=tot["pruned"], steps_judged=tot["steps"],
        sequences_cut_short_after_a_failure=tot["truncated"],
        sequences_cut_after_refused_savepoint_command_in_dead_ctx=tot["undetermined"], distinct_outcomes=tot["distinct_outcomes"],
        processes=procs, enumeration_wall_s=round(time.time() - t0, 1))
    run.assumptions += [
        "SQLite (sqlite3 driver, autocommit=False i.e. PEP-249 transaction control) stands for 'a backend'; PostgreSQL / MariaDB are outside",
        "the legacy transaction mode of the sqlite3 driver (documented as handling SAVEPOINT incorrectly) is outside",
        "no faults: DBAPI errors during commit / rollback are C27's subject",
        "two-phase transactions, execution options, asyncio, threads are outside",
    ]
    if tot["evaluated"] < 2 or tot["with_error_step"] < 2 or tot["with_programs_ctx_dead"] < 2 or tot["recovery_programs"] < 2:
        run.crashes.append("vacuity guard: nothing evaluated")
    report(run, failures)


def report(run, failures):
    seen = {}
    for d in sorted(failures, key=lambda d: (len(d["ops"]), d["ops"])):
        desc = dict(ops=d["ops"], step=d["step"], op=d["op"], clause=d["clause"], pre=d["pre"], target=d.get("target"))
        if d.get("resumed_after"):
            desc["resumed_after"] = d["resumed_after"]
        dj = json.dumps(desc, sort_keys=True)
        k = run.match_known(function=FUNCTION, input=dj)
        if k is not None:
            run.known_finding(k, "bounded exploration on the real Connection over SQLite")
            continue
        sig = (d["clause"], d["op"], d["pre"])
        seen[sig] = seen.get(sig, 0) + 1
        if seen[sig] > 1 or len(seen) > 12:
            continue
        run.violation(f"C23-{d['clause']}-{abs(hash(dj)) % 10**8}",
                      dict(function=FUNCTION, input=desc, expected="contract clause " + d["clause"] + " (module docstring)",
                           actual=d["detail"], reason="bounded run-time contract check (exhaustive operation sequences)"))
    if seen:
        run.coverage["violation_classes"] = {" | ".join(k): v for k, v in seen.items()}


def replay(data):
    """re-runs the recorded operation sequence; a failure recorded with ``resumed_after`` is the one found after judgement
    resumed (clause R1) - the first deviation of that sequence (a recorded finding or a violation of its own) is shown
    in the trace but does not decide the replay"""
    warnings.simplefilter("ignore")
    inp = data["input"]
    env = Env()
    try:
        r = run_seq(env, tuple(inp["ops"]), trace=True)
    finally:
        env.close()
    second = bool(inp.get("resumed_after"))
    f = (r["failure2"] if second else r["failure"]) if r["status"] == "fail" else None
    if f:
        print(f"REPLAY-FAILS {FUNCTION} input={json.dumps(inp['ops'])} step={f['step']} op={f['op']} clause={f['clause']} {f['detail']} [before: {f['pre']}]"
              + (f" [judged again after the deviation at {f['resumed_after']}]" if second else ""))
        for s in r["trace"]:
            print("   ", json.dumps(s))
        return 1
    print(f"REPLAY-PASSES {FUNCTION} input={json.dumps(inp['ops'])}"
          + (f" (first deviation at step {r['failure']['step']} {r['failure']['op']} {r['failure']['clause']}; nothing fails after the resumption)" if second and r["failure"] else ""))
    return 0
