"""C05 - literal rendering is equivalent to binding and cannot inject SQL.

Functions under contract (real code): the `process` closures returned by String / Unicode (MSSQL _UnicodeLiteral) /
  Integer / Numeric / Float / Boolean .literal_processor, TypeDecorator.literal_processor (process_literal_param / fallback to
  process_bind_param / plain impl, load_dialect_impl), Enum.literal_processor, Variant types, _Binary.literal_processor, the
  dialects' own string types, _RenderISO8601NoT._literal_processor_* (DateTime, Date, Time) and the
  SQLite / Oracle date overrides; SQLCompiler.render_literal_value and its MySQL / PostgreSQL (backslash doubling) and MSSQL
  overrides; SQLCompiler.render_literal_bindparam (literal_binds), the post-compile path for literal_execute parameters
  (render_postcompile / real execution) and expanding IN with literal values.
  Dialect variants (11): default, sqlite+pysqlite, postgresql+psycopg, postgresql+psycopg with standard_conforming_strings
  off (_backslash_escapes=True), postgresql+asyncpg, mysql+mysqldb, mysql+mysqldb with NO_BACKSLASH_ESCAPES, mysql+mysqlconnector,
  mssql+pyodbc, mssql+pymssql, oracle+oracledb.

Contract K.  wire(x) = what the server receives: the DBAPIs that %-format statements (psycopg, mysqldb) turn %% into % and
  fail on a lone %.  tokens / decode = the *documented* lexer of the dialect (rtc/strspec.py): ANSI '...' with '' inside;
  MySQL, and PostgreSQL with standard_conforming_strings off, additionally backslash escapes; MSSQL optional N prefix.
  [string]     for str s and T in {String, Unicode}, r = render_literal_value(s, T) and r = str(literal(s, T).compile(
               literal_binds)):  wire(r) is exactly ONE string-literal token and decodes to s.
  [typed-string]  the same for every type that renders a quoted string literal, whatever its class: for T in the catalogue below
               and str s, let b = what binding would send = T's real bind processor applied to the value (identity when there is
               none; LargeBinary: value = s encoded as UTF-8, b = s).  r = render_literal_value(value, T), r = str(literal(value,
               T).compile(literal_binds)): wire(r) is exactly ONE string-literal token and decodes to b;  the post-compile
               rendering of select(bindparam(value, T, literal_execute=True)): its tokens equal those of the same statement for
               the value "a" with that one string token replaced by b.
               catalogue (generic, on all 11 variants): String(64), Text, UnicodeText, CHAR(8), Enum whose labels are the strings
               of the scope (native and native_enum=False), String.with_variant(Text, every dialect), TypeDecorator(String) with
               no methods, TypeDecorator(Text) with process_bind_param only, TypeDecorator(Unicode) with process_literal_param,
               TypeDecorator over a TypeDecorator, TypeDecorator with load_dialect_impl -> the dialect's VARCHAR, LargeBinary;
               + on the variants of each dialect its own string types (mysql VARCHAR NVARCHAR CHAR NCHAR TEXT TINYTEXT MEDIUMTEXT
               LONGTEXT ENUM; postgresql VARCHAR CHAR TEXT CITEXT ENUM; mssql VARCHAR NVARCHAR CHAR NCHAR TEXT NTEXT; oracle
               VARCHAR2 NVARCHAR2 VARCHAR NVARCHAR CHAR NCHAR CLOB NCLOB LONG; sqlite VARCHAR CHAR TEXT)
  [statement]  for the statement forms select(literal) / WHERE col = v / col IN (v, 'z') / INSERT / UPDATE with literal_binds
               and literal_execute parameters with render_postcompile: tokens(wire(sql(v))) equals tokens(wire(sql("x")))
               with every string token "x" replaced by v - the literal never changes the shape of the statement.
  [number]     Integer / BigInteger: r is [-]digits and int(r) == int(v).  Float / Numeric: r is one numeric literal
               [+-]digits[.digits][e[+-]digits] (ASCII) and Decimal(r) == Decimal(v) (floats: float(r) == v).
               Boolean: r in the dialect's true/false or 1/0 and agrees with v.  None: r == NULL.
               (on SQLite additionally executed when the value is in the backend's range: integers in [-2^63, 2^63).)
  [datetime]   DateTime / Date / Time: r is one string literal (Oracle: TO_DATE / TO_TIMESTAMP('...', 'format')) whose text
               parses back (fromisoformat) to v; on SQLite it equals what the real bind processor would send.
  [sqlite]     (the lexer assumption made checkable, and the property as stated) `SELECT <r>` on the in-process sqlite3
               returns v; through a real Engine the rows of the literal_binds text, of the literal_execute statement and of
               the bound statement are identical and equal to the Python answer, for WHERE / IN / SELECT-list positions.
  [source]     the literal depends only on the parameter's effective value and type, never on WHERE the value comes from.
               Sources: bindparam(value) / literal() / bindparam(callable_=f) / the same with unique=True / a value (or a
               value overriding a default) given later through Executable.params() / - on the Engine - given to
               Connection.execute(); each also with literal_execute=True (post-compile rendering).
      source-text   on every variant, for 14 statement forms (select list, WHERE =, IN list, expanding IN, INSERT VALUES,
                    UPDATE SET..WHERE, DELETE WHERE, scalar subquery, CTE, UNION ALL, function argument, CASE, INSERT FROM
                    SELECT, HAVING) that contain no other bound value: tokens(wire(literal text from source S)) ==
                    tokens(wire(literal text from the plain value)); the plain value itself obeys [statement].
      source-rows   on a SQLite Engine: rows (DML: table contents afterwards, rolled back) of (a) executing the statement
                    built from S and (b) its literal_binds text == rows of bound execution of the plain-value statement.
                    One compiled cache per source (cache-hit path exercised within a source, never across sources).
      source-cache  two statements differing only in the source share a compiled-cache entry; the second must send ITS value.
      orm-criteria  ORM-generated criteria (their parameters are callables reading the instance): C.par == obj, != obj, on an
                    alias, filter_by(par=obj), P.kids.contains(obj), ~contains, with_parent() both directions, write-only
                    collection .select(), and the lazy loader's own SELECT; x statement forms (WHERE, IN subquery, UNION, CTE,
                    UPDATE..WHERE, DELETE..WHERE) x instance state (persistent, expired, detached, transient with key) x key
                    family (integer, adversarial string, composite, many-to-many): rows of the literal_binds text == rows of
                    Session.execute() with bound parameters (lazy-load: == the collection the loader returns).
  A processor may refuse a value (CompileError) - that is not a violation; rendering something else is.

Scope Bd (exhaustive): alphabet { ' " \\ % : ; - a newline u-umlaut } (10 characters)
  string      all strings of length 0..4 (quick, 11 111) / 0..5 (thorough, 111 111) x 11 variants x {String, Unicode} x 2 paths
  typed       all strings of length 0..3 (quick) / 0..4 (thorough) through render_literal_value, of length 0..2 / 0..3 through
              literal_binds and literal_execute x 11 variants x the [typed-string] catalogue (13 generic + 3..9 dialect types)
  sqlite raw  the same strings, `SELECT <literal>`
  statement   all strings of length 0..2 (quick) / 0..3 (thorough) x 11 variants x 6 statement forms
  engine      all strings of length 0..3 (quick) / 0..4 (thorough) x 5 executions on a table holding every string of the scope
  values      fixed boundary lists: 14 integers (0, +-1, +-2^31, +-2^63, 10^30, numeric strings), 34 floats / Decimals /
              numeric strings (0, -0.0, 5e-324, 1.797e308, 1e16, 1E+5, non-finite, '1_000', full-width digits), booleans,
              None, 17 datetimes / dates / times (min, max, microseconds 0/1/999999, leap day, tz-aware) x 11 variants
  source      11 sources (+4 execution-time sources on the Engine) x 14 forms x values {all strings of length 0..1 (quick) /
              0..2 (thorough), 6 longer adversarial strings, 4 integers, 2 floats, True, a datetime, None as String / Integer}
              x 11 variants (text); the String / Integer / None values on the SQLite Engine; cache sharing: ordered pairs of
              {value, callable, exec} (and their literal_execute forms) x 14 forms x 4 values
  orm         11 criterion generators x 6 forms x 4 instance states x 3 instances x 4 key families (combinations the API
              does not offer - e.g. UPDATE with a criterion on the other entity, write-only select of a transient - are skipped)
"""
import datetime as dt
import decimal
import json
import re
import sqlite3

import warnings

from sqlalchemy import (CHAR, BigInteger, Boolean, Column, Date, DateTime, Enum, Float, ForeignKey, ForeignKeyConstraint, Integer,
                        LargeBinary, MetaData, Numeric, String, Table, Text, Time, TypeDecorator, Unicode, UnicodeText, bindparam, case,
                        create_engine, delete, exc, func, insert, literal, literal_column, or_, select, union_all, update)
from sqlalchemy.orm import Session, aliased, declarative_base, relationship, with_parent
from sqlalchemy.dialects import mssql, mysql, oracle, postgresql, sqlite
from sqlalchemy.dialects.mssql import pymssql
from sqlalchemy.dialects.mysql import mysqlconnector
from sqlalchemy.dialects.postgresql import asyncpg
from sqlalchemy.engine import default
from sqlalchemy.pool import StaticPool

from rtc import strspec as S

LEVEL = "exploration"

ALPHABET = "'\"\\%:;-a\nü"
LB = {"literal_binds": True}


def _pg_backslash():
    d = postgresql.dialect()
    d._backslash_escapes = True  # what PGDialect.initialize() sets when standard_conforming_strings is off
    return d


def _mysql_no_backslash():
    d = mysql.dialect()
    d._backslash_escapes = False  # what MySQLDialect sets when sql_mode has NO_BACKSLASH_ESCAPES
    return d


# label -> (dialect factory, DBAPI %-formats the statement (spec), backslash lexer (spec), N prefix allowed (spec))
VARIANTS = {
    "default": (default.DefaultDialect, False, None, False),
    "sqlite+pysqlite": (sqlite.dialect, False, None, False),
    "postgresql+psycopg": (postgresql.dialect, True, None, False),
    "postgresql+psycopg/standard_conforming_strings=off": (_pg_backslash, True, "pg", False),
    "postgresql+asyncpg": (asyncpg.dialect, False, None, False),
    "mysql+mysqldb": (mysql.dialect, True, "mysql", False),
    "mysql+mysqldb/NO_BACKSLASH_ESCAPES": (_mysql_no_backslash, True, None, False),
    "mysql+mysqlconnector": (mysqlconnector.dialect, False, "mysql", False),
    "mssql+pyodbc": (mssql.dialect, False, None, True),
    "mssql+pymssql": (pymssql.dialect, False, None, True),
    "oracle+oracledb": (oracle.dialect, False, None, False),
}
_CACHE = {}


def variant(label):
    if label not in _CACHE:
        f, pct, bs, npre = VARIANTS[label]
        d = f()
        _CACHE[label] = (d, d.statement_compiler(d, None), "pyformat" if pct else "qmark", bs, npre)
    return _CACHE[label]


STRING_TYPES = {"String": String(), "Unicode": Unicode()}


def _fail(clause, function, label, inp, expected, actual, **extra):
    return dict(function=function, clause=clause, input=dict(inp, dialect=label), expected=expected, actual=actual, **extra)


def sqlite_scalar(con, text):
    """`SELECT <text>` on sqlite3: the value, or a string describing the error (a broken literal must not crash the check)"""
    try:
        rows = con.execute("SELECT " + text).fetchall()
    except (sqlite3.Error, ValueError) as ex:
        return "sqlite3 %s: %s" % (type(ex).__name__, ex)
    return rows[0][0] if len(rows) == 1 and len(rows[0]) == 1 else "unexpected shape: %r" % (rows,)


# ------------------------------------------------------------------------------------------------ [string]

def render_paths(label, value, type_):
    d, comp, _, _, _ = variant(label)
    return (("render_literal_value", comp.render_literal_value(value, type_)),
            ("literal_binds", str(literal(value, type_).compile(dialect=d, compile_kwargs=LB))))


def string_clause(label, s, tname):
    """returns (failures, escaped?, rendering)"""
    d, comp, style, bs, npre = variant(label)
    out = []
    escaped = False
    text = None
    for path, text in render_paths(label, s, STRING_TYPES[tname]):
        wire = S.driver_percent(text, style)
        dec = None if wire is None else S.decode_single_literal(wire, bs, npre)
        if dec != s:
            out.append(_fail("string-literal", "%s/%s.literal_processor" % (path, tname), label, dict(value=s, type=tname, path=path), s, dec,
                             rendered=text, on_the_wire=wire))
        escaped = escaped or text not in ("'%s'" % s, "N'%s'" % s)
    return out, escaped, text


# ------------------------------------------------------------------------------------------------ [typed-string]

class _TDPlain(TypeDecorator):
    """the minimal user type: nothing but an impl"""
    impl = String
    cache_ok = True


class _TDBind(TypeDecorator):
    """the typical user type: only process_bind_param is defined (literal rendering falls back to it)"""
    impl = Text
    cache_ok = True

    def process_bind_param(self, value, dialect):
        return None if value is None else "t:" + value


class _TDLiteral(TypeDecorator):
    """process_literal_param defined (consistently with process_bind_param)"""
    impl = Unicode
    cache_ok = True

    def process_bind_param(self, value, dialect):
        return None if value is None else value + ":b"

    def process_literal_param(self, value, dialect):
        return None if value is None else value + ":b"


class _TDNested(TypeDecorator):
    impl = _TDBind
    cache_ok = True

    def process_bind_param(self, value, dialect):
        return None if value is None else value + value


class _TDDialectImpl(TypeDecorator):
    """load_dialect_impl switches to the dialect's own string type (the documented recipe shape)"""
    impl = String
    cache_ok = True

    def load_dialect_impl(self, dialect):
        mod = {"mysql": mysql, "mariadb": mysql, "postgresql": postgresql, "mssql": mssql, "oracle": oracle}.get(dialect.name)
        return dialect.type_descriptor(mod.VARCHAR(64) if mod else String(64))


_ENUM_LABELS = S.strings(ALPHABET, 3)
# generic types that render a quoted string literal: name -> factory
TYPED_GENERIC = {
    "String(64)": lambda: String(64),
    "Text": Text,
    "UnicodeText": UnicodeText,
    "CHAR(8)": lambda: CHAR(8),
    "Enum(labels = the strings of the scope)": lambda: Enum(*_ENUM_LABELS, name="verif_e"),
    "Enum(labels, native_enum=False)": lambda: Enum(*_ENUM_LABELS, native_enum=False),
    "String.with_variant(Text, every dialect)": lambda: String().with_variant(Text(), "mysql", "mariadb", "postgresql", "mssql", "oracle", "sqlite"),
    "TypeDecorator(String)": _TDPlain,
    "TypeDecorator(Text) + process_bind_param": _TDBind,
    "TypeDecorator(Unicode) + process_literal_param": _TDLiteral,
    "TypeDecorator(TypeDecorator(Text))": _TDNested,
    "TypeDecorator + load_dialect_impl": _TDDialectImpl,
    "LargeBinary": LargeBinary,
}
# the dialects' own string types, evaluated on the variants of that dialect: dialect name -> (module, type names)
TYPED_DIALECT = {
    "mysql": (mysql, ("VARCHAR", "NVARCHAR", "CHAR", "NCHAR", "TEXT", "TINYTEXT", "MEDIUMTEXT", "LONGTEXT", "ENUM")),
    "postgresql": (postgresql, ("VARCHAR", "CHAR", "TEXT", "CITEXT", "ENUM")),
    "mssql": (mssql, ("VARCHAR", "NVARCHAR", "CHAR", "NCHAR", "TEXT", "NTEXT")),
    "oracle": (oracle, ("VARCHAR2", "NVARCHAR2", "VARCHAR", "NVARCHAR", "CHAR", "NCHAR", "CLOB", "NCLOB", "LONG")),
    "sqlite": (sqlite, ("VARCHAR", "CHAR", "TEXT")),
}
_TYPED = {}


def typed_types(label):
    """name -> type instance: the generic catalogue + the own string types of the variant's dialect"""
    d = variant(label)[0]
    if d.name not in _TYPED:
        out = {k: f() for k, f in TYPED_GENERIC.items()}
        mod, names = TYPED_DIALECT.get(d.name, (None, ()))
        for n in names:
            cls = getattr(mod, n)
            if n == "ENUM":
                out["%s.ENUM(labels)" % d.name] = cls(*_ENUM_LABELS, name="verif_e") if d.name == "postgresql" else cls(*_ENUM_LABELS)
            else:
                try:
                    out["%s.%s" % (d.name, n)] = cls(16)
                except TypeError:
                    out["%s.%s" % (d.name, n)] = cls()
        _TYPED[d.name] = out
    return _TYPED[d.name]


def _bound_text(type_, d, s):
    """what binding the value would hand to the driver, as text: the type's REAL bind processor applied to the Python value
    (LargeBinary: the Python value is s encoded; the driver gets those bytes - their text is s)"""
    if isinstance(type_, LargeBinary):
        return s.encode("utf-8"), s
    bp = type_._cached_bind_processor(d)
    b = bp(s) if bp else s
    return s, b


TYPED_PATHS = ("render_literal_value", "literal_binds", "literal_execute")


def typed_render(label, type_, value, path):
    d, comp, _, _, _ = variant(label)
    if path == "render_literal_value":
        return comp.render_literal_value(value, type_)
    if path == "literal_binds":
        return str(literal(value, type_).compile(dialect=d, compile_kwargs=LB))
    return str(select(bindparam("p", value, type_, literal_execute=True)).compile(dialect=d, compile_kwargs=PC))


_TYPED_SHAPE = {}


def typed_string_clause(label, tname, s, paths):
    """[typed-string] returns (failures, evaluations, nontrivial)"""
    d, comp, style, bs, npre = variant(label)
    type_ = typed_types(label)[tname]
    out = []
    n = nt = 0
    try:
        value, want = _bound_text(type_, d, s)
    except Exception:  # the bind side refuses the value: nothing to be equivalent to
        return out, 0, 0
    if not isinstance(want, str):
        return out, 0, 0
    for path in paths:
        try:
            text = typed_render(label, type_, value, path)
        except (exc.CompileError, exc.StatementError):
            continue  # refused: allowed
        n += 1
        inp = dict(value=s, type=tname, path=path)
        wire = S.driver_percent(text, style)
        if path == "literal_execute":  # SELECT <literal> AS anon_1 [FROM DUAL]: the shape of the same statement for the value "x"
            toks = None if wire is None else S.tokens(wire, bs, npre)
            if (label, tname) not in _TYPED_SHAPE:
                _, xwant = _bound_text(type_, d, "a")
                ref = S.tokens(S.driver_percent(typed_render(label, type_, "a".encode() if isinstance(value, bytes) else "a", path), style), bs, npre)
                _TYPED_SHAPE[(label, tname)] = (ref, xwant)
            ref, xwant = _TYPED_SHAPE[(label, tname)]
            expect = [("str", want) if t == ("str", xwant) else t for t in ref]
            if toks != expect:
                out.append(_fail("typed-string-literal", "%s/%s literal rendering" % (path, type(type_).__name__), label, inp,
                                 [list(t) for t in expect], None if toks is None else [list(t) for t in toks], rendered=text, on_the_wire=wire))
                continue
        else:
            dec = None if wire is None else S.decode_single_literal(wire, bs, npre)
            if dec != want:
                out.append(_fail("typed-string-literal", "%s/%s literal rendering" % (path, type(type_).__name__), label, inp, want, dec,
                                 rendered=text, on_the_wire=wire))
                continue
        nt += ("'%s'" % want) not in text  # the rendering had to escape something
    return out, n, nt


# ------------------------------------------------------------------------------------------------ [statement]

_T = Table("t", MetaData(), Column("id", Integer, primary_key=True), Column("x", String))

FORMS = {
    "select-literal": lambda v: (select(literal(v, String), _T.c.id), LB),
    "where-eq": lambda v: (select(_T.c.id).where(_T.c.x == v), LB),
    "in-list": lambda v: (select(_T.c.id).where(_T.c.x.in_([v, "z"])), LB),
    "insert-values": lambda v: (insert(_T).values(id=1, x=v), LB),
    "update-set-where": lambda v: (update(_T).values(x=v).where(_T.c.x != v), LB),
    "literal_execute": lambda v: (select(bindparam("p", v, String, literal_execute=True)).where(
        _T.c.x.in_(bindparam("q", [v, "z"], literal_execute=True, expanding=True))), {"render_postcompile": True}),
}
_REF = {}


def _stmt_tokens(label, form, v):
    d, comp, style, bs, npre = variant(label)
    stmt, kw = FORMS[form](v)
    sql = str(stmt.compile(dialect=d, compile_kwargs=kw))
    wire = S.driver_percent(sql, style)
    return sql, (None if wire is None else S.tokens(wire, bs, npre))


def statement_clause(label, form, v):
    if (label, form) not in _REF:
        _REF[(label, form)] = _stmt_tokens(label, form, "x")[1]
    ref = _REF[(label, form)]
    sql, toks = _stmt_tokens(label, form, v)
    want = [("str", v) if t == ("str", "x") else t for t in ref]
    if toks != want:
        return _fail("statement-shape", "SQLCompiler literal rendering in a statement", label, dict(value=v, form=form),
                     [list(t) for t in want], None if toks is None else [list(t) for t in toks], sql=sql)
    return None


# ------------------------------------------------------------------------------------------------ [number] [datetime]

_NUM = re.compile(r"[+-]?(\d+(\.\d*)?|\.\d+)([eE][+-]?\d+)?", re.ASCII)
_INT = re.compile(r"-?\d+", re.ASCII)
INF = float("inf")
UTC = dt.timezone.utc
IST = dt.timezone(dt.timedelta(hours=5, minutes=30))

INT_VALUES = [0, 1, -1, 7, 2 ** 31 - 1, 2 ** 31, -2 ** 31, 2 ** 63 - 1, 2 ** 63, -2 ** 63, 10 ** 30, True, "12", "1_0"]
FLOAT_VALUES = [0.0, -0.0, 1.5, -1.5, 0.1, 1e-7, 1e16, 1e300, 5e-324, 1.7976931348623157e308, 123456789.125, 3, -2,
                INF, -INF, float("nan"),
                decimal.Decimal("0"), decimal.Decimal("-0"), decimal.Decimal("1.10"), decimal.Decimal("-1.5"), decimal.Decimal("1E+5"),
                decimal.Decimal("1E-10"), decimal.Decimal("123456789.123456789"), decimal.Decimal("NaN"), decimal.Decimal("sNaN"),
                decimal.Decimal("Infinity"), decimal.Decimal("-Infinity"),
                "1.5", "1e5", " 1 ", "nan", "inf", "1_000", "\uff11\uff12"]
BOOL_VALUES = [True, False, 1, 0]
DT_VALUES = [("DateTime", dt.datetime.min), ("DateTime", dt.datetime.max), ("DateTime", dt.datetime(2024, 2, 29, 23, 59, 59, 999999)),
             ("DateTime", dt.datetime(2024, 2, 29, 0, 0, 0, 1)), ("DateTime", dt.datetime(1970, 1, 1)),
             ("DateTime", dt.datetime(2024, 1, 1, 12, 0, tzinfo=UTC)), ("DateTime", dt.datetime(2024, 1, 1, 12, 0, 0, 5, tzinfo=IST)),
             ("Date", dt.date.min), ("Date", dt.date.max), ("Date", dt.date(2024, 2, 29)),
             ("Time", dt.time.min), ("Time", dt.time.max), ("Time", dt.time(23, 59, 59)), ("Time", dt.time(0, 0, 0, 1)),
             ("Time", dt.time(1, 2, 3, tzinfo=UTC)), ("Time", dt.time(1, 2, 3, 4, tzinfo=IST)), ("Time", dt.time(12, 0))]
NUM_TYPES = {"Integer": Integer(), "BigInteger": BigInteger(), "Float": Float(), "Numeric": Numeric(), "Numeric(asdecimal=False)": Numeric(asdecimal=False)}
DT_TYPES = {"DateTime": DateTime(), "DateTime(timezone=True)": DateTime(timezone=True), "Date": Date(), "Time": Time(), "Time(timezone=True)": Time(timezone=True)}


def _jsonable(v):
    if isinstance(v, (dt.datetime, dt.date, dt.time)):
        return dict(kind=type(v).__name__, iso=v.isoformat())
    if isinstance(v, decimal.Decimal):
        return dict(kind="Decimal", text=str(v))
    if isinstance(v, float) and (v != v or v in (INF, -INF)):
        return dict(kind="float", text=repr(v))
    return v


def _unjson(v):
    if isinstance(v, dict):
        if v["kind"] == "Decimal":
            return decimal.Decimal(v["text"])
        if v["kind"] == "float":
            return float(v["text"])
        return getattr(dt, v["kind"]).fromisoformat(v["iso"])
    return v


def _same_number(text, v):
    try:
        if isinstance(v, float):
            return float(text) == v and (str(float(text))[0] == "-") == (str(v)[0] == "-")
        a, b = decimal.Decimal(text), decimal.Decimal(v)
        return a == b and not a.is_nan()
    except Exception:
        return False


def value_clause(label, family, tname, v, con=None):
    """one non-string value through both rendering paths; returns (failures, evaluations, refused?)"""
    d, comp, style, bs, npre = variant(label)
    type_ = {**NUM_TYPES, **DT_TYPES, "Boolean": Boolean(), "String": STRING_TYPES["String"]}[tname]
    out = []
    n = 0
    for path in ("render_literal_value", "literal_binds"):
        n += 1
        try:
            text = (comp.render_literal_value(v, type_) if path == "render_literal_value"
                    else str(literal(v, type_).compile(dialect=d, compile_kwargs=LB)))
        except (exc.CompileError, exc.StatementError):
            return out, n, True  # refused: allowed
        inp = dict(value=_jsonable(v), type=tname, path=path, family=family)
        fn = "%s/%s.literal_processor" % (path, tname.split("(")[0])
        wire = S.driver_percent(text, style)
        toks = None if wire is None else S.tokens(wire, bs, npre)
        ok = False
        want = None
        if v is None:
            want = "NULL"
            ok = text == "NULL"
        elif family == "int":
            want = str(int(v))
            ok = bool(_INT.fullmatch(text)) and int(text) == int(v)
        elif family == "float":
            want = "one numeric literal equal to %r" % (v,)
            ok = bool(_NUM.fullmatch(text.strip())) and _same_number(text, v)  # surrounding whitespace is harmless
        elif family == "bool":
            want = "true/false or 1/0 for %r" % (v,)
            ok = text in (("true", "1") if v else ("false", "0"))
        elif family == "datetime":
            want = v.isoformat()
            lit = None
            if toks is not None and len(toks) == 1 and toks[0][0] == "str":
                lit = toks[0][1]
            elif (label.startswith("oracle") and toks is not None and len(toks) == 6 and toks[0] in (("word", "TO_DATE"), ("word", "TO_TIMESTAMP"))
                  and [t[0] for t in toks[1:]] == ["punct", "str", "punct", "str", "punct"] and [t[1] for t in toks[1::2]] == ["(", ",", ")"]):
                lit = toks[2][1]
            if lit is not None:
                try:
                    ok = type(v).fromisoformat(lit) == v
                except ValueError:
                    ok = False
                if label.startswith("sqlite"):  # equivalence with binding, by the real bind processor
                    bp = type_.dialect_impl(d).bind_processor(d)
                    want = bp(v) if bp else want
                    ok = lit == want
        in_backend_range = family != "int" or -2 ** 63 <= int(v) < 2 ** 63  # SQLite INTEGER is 64-bit; beyond it bound parameters overflow too
        if ok and con is not None and v is not None and in_backend_range:
            got = sqlite_scalar(con, text)
            if family == "datetime":
                ok = got == lit
            elif family == "float" and isinstance(v, (float, int)) and not isinstance(v, bool):
                ok = got == v
            elif family in ("int", "bool"):
                ok = got == int(v)
            if not ok:
                out.append(_fail("sqlite-select-literal", fn, label, inp, want, repr(got), rendered=text))
                continue
        if not ok:
            out.append(_fail("value-literal", fn, label, inp, want, text, tokens=None if toks is None else [list(t) for t in toks]))
    return out, n, False


def value_cases():
    for tname in ("Integer", "BigInteger"):
        for v in INT_VALUES:
            yield "int", tname, v
    for tname in ("Float", "Numeric", "Numeric(asdecimal=False)"):
        for v in FLOAT_VALUES:
            yield "float", tname, v
    for v in BOOL_VALUES:
        yield "bool", "Boolean", v
    for tname in ("Integer", "Float", "Numeric", "String", "Boolean", "DateTime", "Date", "Time"):
        yield "none", tname, None
    for kind, v in DT_VALUES:
        for tname in DT_TYPES:
            if tname.split("(")[0] == kind:
                yield "datetime", tname, v


# ------------------------------------------------------------------------------------------------ [sqlite] through an Engine

def engine_setup(strs):
    eng = create_engine("sqlite://", poolclass=StaticPool)
    md = MetaData()
    t = Table("t", md, Column("id", Integer, primary_key=True), Column("s", String))
    with eng.begin() as conn:
        md.create_all(conn)
        conn.execute(insert(t), [dict(id=i, s=s) for i, s in enumerate(strs)])
    return eng, t, {s: i for i, s in enumerate(strs)}


def engine_clause(eng, t, ids, v):
    """bound vs literal_binds vs literal_execute on a real Engine; returns (failures, executions)"""
    out = []
    n = 0
    zid = [ids["a"]]
    forms = {
        "where-eq": (lambda b: select(t.c.id).where(t.c.s == b).order_by(t.c.id), [[ids[v]]]),
        "in-list": (lambda b: select(t.c.id).where(t.c.s.in_([b, "a"])).order_by(t.c.id), [[i] for i in sorted(set([ids[v]] + zid))]),
        "select-literal": (lambda b: select(b, t.c.id).where(t.c.id == 0), [[v, 0]]),
    }
    with eng.connect() as conn:
        for form, (mk, want) in forms.items():
            sql = str(mk(bindparam("p", v, String)).compile(dialect=eng.dialect, compile_kwargs=LB))
            got = []
            for run_it in (lambda: conn.execute(mk(bindparam("p", v, String))),
                           lambda: conn.execute(mk(bindparam("p", v, String, literal_execute=True))),
                           lambda: conn.exec_driver_sql(sql)):
                try:
                    got.append([list(r) for r in run_it()])
                except exc.SQLAlchemyError as ex:
                    got.append("%s: %s" % (type(ex).__name__, str(ex)[:200]))
            bound, litx, litb = got
            n += 3
            if not (bound == litx == litb == want):
                out.append(_fail("sqlite-rows", "literal_binds / literal_execute vs bound parameter on SQLite", "sqlite+pysqlite",
                                 dict(value=v, form=form), want, dict(bound=bound, literal_execute=litx, literal_binds=litb), sql=sql))
    return out, n


# ------------------------------------------------------------------------------------------------ [source] where the value comes from

PC = {"render_postcompile": True}
_TS = Table("ts", MetaData(), Column("id", Integer, primary_key=True), Column("x", String), Column("n", Integer), Column("f", Float),
            Column("b", Boolean), Column("d", DateTime))
# type name -> (type, column of ts compared with, a second value, a decoy default that must never be rendered)
SRC_TYPES = {
    "String": (String(), "x", "z", "decoy"),
    "Integer": (Integer(), "n", 7, 99),
    "Float": (Float(), "f", 2.5, 9.5),
    "Boolean": (Boolean(), "b", False, False),
    "DateTime": (DateTime(), "d", dt.datetime(2001, 2, 3, 4, 5, 6), dt.datetime(1999, 9, 9)),
}
# every way a BindParameter can get its value.  lx-* = the same with literal_execute=True (rendered by the post-compile step)
SOURCES = ["value", "literal", "callable", "unique-callable", "params", "params-override",
           "lx-value", "lx-callable", "lx-unique-callable", "lx-params", "lx-params-override"]
EXEC_SOURCES = ["exec", "exec-override", "lx-exec", "lx-exec-override"]  # value passed to Connection.execute(): Engine part only


class Src:
    """builds the bound parameters of one statement from one source; collects what has to be passed to Executable.params()
    (self.params) or to Connection.execute() (self.exec_params)"""

    def __init__(self, kind, tname, prefix=None):
        self.kind, self.tname = kind, tname
        # parameter names differ by source unless a shared prefix is asked for: statements of different sources then do not
        # share a compiled-cache entry (cache sharing is the separate [source-cache] clause)
        self.prefix = prefix or re.sub(r"\W", "_", kind) + "_"
        self.type, _, _, self.decoy = SRC_TYPES[tname]
        self.params, self.exec_params, self.n = {}, {}, 0
        self.lx = kind.startswith("lx-")
        self.base = kind[3:] if self.lx else kind

    @property
    def compile_kwargs(self):
        return PC if self.lx else LB

    def __call__(self, value, expanding=False):
        self.n += 1
        name = "%s%d" % (self.prefix, self.n)
        kw = dict(type_=self.type, expanding=expanding, literal_execute=self.lx)
        decoy = [self.decoy] if expanding else self.decoy
        k = self.base
        if k == "value" or (k == "literal" and expanding):
            return bindparam(name, value, **kw)
        if k == "literal":
            return literal(value, self.type)
        if k == "callable":
            return bindparam(name, callable_=lambda: value, **kw)
        if k == "unique-callable":
            return bindparam(self.prefix, callable_=lambda: value, unique=True, **kw)
        if k in ("params", "params-override"):
            self.params[name] = value
            return bindparam(name, **kw) if k == "params" else bindparam(name, decoy, **kw)
        if k in ("exec", "exec-override"):
            self.exec_params[name] = value
            return bindparam(name, **kw) if k == "exec" else bindparam(name, decoy, **kw)
        raise ValueError(k)


_ID = _TS.c.id
_K = literal_column("1000")


def _cte_form(b, c, v, o):
    k = select(_ID, c).where(or_(c == b(v), c == b(o))).cte("k")
    return select(k.c.id).where(k.c[c.key] == b(v)).order_by(k.c.id)


# statement forms: b(value) makes one bound parameter from the source under test, c is the column of the value's type, o a
# second value.  No other bound value appears, so the literal text must not depend on the source.
SRC_FORMS = {
    "select-list": lambda b, c, v, o: select(b(v).label("v"), _ID).order_by(_ID),
    "where-eq": lambda b, c, v, o: select(_ID).where(c == b(v)).order_by(_ID),
    "in-list": lambda b, c, v, o: select(_ID).where(c.in_([b(v), b(o)])).order_by(_ID),
    "in-expanding": lambda b, c, v, o: select(_ID).where(c.in_(b([v, o], expanding=True))).order_by(_ID),
    "insert-values": lambda b, c, v, o: insert(_TS).values({"id": _K, c.key: b(v)}),
    "update-set-where": lambda b, c, v, o: update(_TS).values({c.key: b(v)}).where(or_(c == b(o), c == b(v))),
    "delete-where": lambda b, c, v, o: delete(_TS).where(c == b(v)),
    "scalar-subquery": lambda b, c, v, o: select(_ID).where(_ID == select(func.min(_ID)).where(c == b(v)).scalar_subquery()),
    "cte": _cte_form,
    "union": lambda b, c, v, o: union_all(select(_ID).where(c == b(v)), select(_ID + _K).where(c == b(o))).order_by("id"),
    "func-arg": lambda b, c, v, o: select(_ID, func.coalesce(c, b(v)).label("v")).order_by(_ID),
    "case": lambda b, c, v, o: select(_ID, case((c == b(v), literal_column("1")), else_=literal_column("0")).label("v")).order_by(_ID),
    "insert-from-select": lambda b, c, v, o: insert(_TS).from_select(["id", c.key], select(_ID + _K, b(v)).where(c == b(o))),
    "having": lambda b, c, v, o: select(c, func.count().label("k")).group_by(c).having(c == b(v)),
}
DML_FORMS = ("insert-values", "update-set-where", "delete-where", "insert-from-select")


def source_statement(form, kind, tname, v, prefix=None):
    """(statement with Executable.params() applied, Src) or (None, Src) when the API refuses the combination"""
    src = Src(kind, tname, prefix)
    _, cname, other, _ = SRC_TYPES[tname]
    stmt = SRC_FORMS[form](src, _TS.c[cname], v, other)
    if src.params:
        try:
            stmt = stmt.params(src.params)
        except NotImplementedError:  # INSERT / UPDATE / DELETE have no params(): not a source there
            return None, src
    return stmt, src


def source_text(label, form, kind, tname, v):
    """literal rendering of the statement: (sql, tokens on the wire) / (None, None) when refused"""
    d, comp, style, bs, npre = variant(label)
    stmt, src = source_statement(form, kind, tname, v)
    if stmt is None:
        return None, None
    with warnings.catch_warnings():
        warnings.simplefilter("ignore")
        try:
            sql = str(stmt.compile(dialect=d, compile_kwargs=src.compile_kwargs))
        except (exc.CompileError, exc.StatementError, exc.InvalidRequestError) as ex:
            return "refused: %s" % type(ex).__name__, None
    wire = S.driver_percent(sql, style)
    return sql, (None if wire is None else S.tokens(wire, bs, npre))


_SRC_REF = {}


def source_clause(label, form, tname, v):
    """[source-text] every source renders the tokens that the plain value renders.  returns (failures, evaluations, nontrivial)"""
    out = []
    n = nt = 0
    key = (label, form, tname, json.dumps(_jsonable(v)))
    if key not in _SRC_REF:
        _SRC_REF[key] = source_text(label, form, "value", tname, v)
    ref_sql, ref = _SRC_REF[key]
    if ref is None:
        return out, 1, 0  # the plain value is refused / not renderable for this driver: [string] / [number] judge that
    if tname == "String" and v is not None:  # the plain value itself: shape clause, as in [statement]
        x_sql, x = source_text(label, form, "value", tname, "x")
        want = [("str", v) if t == ("str", "x") else t for t in x]
        n += 1
        if ref != want:
            out.append(_fail("statement-shape", "SQLCompiler literal rendering in a statement", label,
                             dict(value=v, form=form, type=tname, source="value"), [list(t) for t in want], [list(t) for t in ref], sql=ref_sql))
    for kind in SOURCES[1:]:
        sql, toks = source_text(label, form, kind, tname, v)
        if sql is None:
            continue
        n += 1
        if toks != ref:
            out.append(_fail("source-text", "literal rendering of a bound parameter by value source", label,
                             dict(value=_jsonable(v), form=form, type=tname, source=kind), ref_sql, sql))
        elif v is not None:
            nt += 1
    return out, n, nt


def source_values(quick):
    vals = [("String", s) for s in S.strings(ALPHABET, 1 if quick else 2)]
    vals += [("String", s) for s in ("it's 100% \\ :x", "'; DROP TABLE ts; --", "\\'", "%s", ":p1", "a" * 40)]
    vals += [("Integer", i) for i in (0, 2, -1, 2 ** 40)]
    vals += [("Float", 1.5), ("Float", -0.25), ("Boolean", True), ("DateTime", dt.datetime(2024, 2, 29, 23, 59, 59, 999999))]
    vals += [("String", None), ("Integer", None)]
    return vals


# -- the same on a real Engine: rows of every source / rendering mode against bound execution of the plain value

ENG_STRS = None


def source_engine_setup(strs):
    eng = create_engine("sqlite://", poolclass=StaticPool)
    with eng.begin() as conn:
        _TS.metadata.create_all(conn)
        rows = [dict(id=i + 1, x=s, n=i % 5, f=None, b=None, d=None) for i, s in enumerate(strs)]
        rows.append(dict(id=len(strs) + 1, x=None, n=None, f=None, b=None, d=None))
        conn.execute(insert(_TS), rows)
    return eng


def _run_rows(conn, form, how):
    """rows of a SELECT, or the table contents after a DML statement (rolled back)"""
    try:
        if form in DML_FORMS:
            sp = conn.begin_nested()
            try:
                how(conn)
                return [list(r) for r in conn.execute(select(_TS.c.id, _TS.c.x, _TS.c.n).order_by(_TS.c.id))]
            finally:
                sp.rollback()
        return [list(r) for r in how(conn)]
    except (exc.SQLAlchemyError, sqlite3.Error) as ex:
        return "%s: %s" % (type(ex).__name__, str(ex)[:200])


def source_engine_clause(eng, form, tname, v, caches, only=None):
    """[source-rows]  caches: source -> compiled cache (a statement shape is compiled once per source and re-used for the
    following values - the cache-hit path - but never shared between sources).  returns (failures, executions, nontrivial)"""
    out = []
    n = nt = 0
    with warnings.catch_warnings(), eng.connect() as conn:
        warnings.simplefilter("ignore")
        ref_stmt, _ = source_statement(form, "value", tname, v)
        opt = lambda kind: {"compiled_cache": caches.setdefault(kind, {})}  # noqa: E731
        want = _run_rows(conn, form, lambda c: c.execute(ref_stmt, execution_options=opt("value")))
        other_stmt, _ = source_statement(form, "value", tname, SRC_TYPES[tname][3])
        distinct = want != _run_rows(conn, form, lambda c: c.execute(other_stmt, execution_options=opt("value")))  # the value matters
        n += 2
        for kind in SOURCES + EXEC_SOURCES:
            if only and kind != only:
                continue
            stmt, src = source_statement(form, kind, tname, v)
            if stmt is None:
                continue
            got = {}
            sql = None
            ep = [src.exec_params] if src.exec_params else []
            # what bound / post-compile execution of this very statement does
            got["execute"] = _run_rows(conn, form, lambda c: c.execute(stmt, *ep, execution_options=opt(kind)))
            if not src.lx and not src.exec_params:
                try:
                    sql = str(stmt.compile(dialect=eng.dialect, compile_kwargs=LB))
                    got["literal_binds"] = _run_rows(conn, form, lambda c: c.exec_driver_sql(sql))
                except exc.SQLAlchemyError as ex:
                    got["literal_binds"] = "%s: %s" % (type(ex).__name__, str(ex)[:200])
            n += len(got)
            if any(g != want for g in got.values()):
                out.append(_fail("source-rows", "literal_binds / literal_execute vs bound parameter on SQLite, by value source", "sqlite+pysqlite",
                                 dict(value=_jsonable(v), form=form, type=tname, source=kind), want, got, sql=sql,
                                 symptom="differs: " + "+".join(sorted(k for k, g in got.items() if g != want))))
            elif distinct:
                nt += 1
    return out, n, nt


CACHE_SOURCES = ["value", "callable", "exec", "lx-value", "lx-callable", "lx-exec"]
CACHE_VALUES = [("String", "it's 100% \\ :x"), ("String", "'"), ("Integer", 2), ("Integer", 0)]


def source_cache_clause(eng, form, tname, v, first, second):
    """[source-cache] two statements that differ only in where the value comes from share a compiled-cache entry; the second
    one must still send (or render, literal_execute) ITS value.  returns (failure or None, executions)"""
    decoy = SRC_TYPES[tname][3]
    with warnings.catch_warnings(), eng.connect() as conn:
        warnings.simplefilter("ignore")
        ref_stmt, _ = source_statement(form, "value", tname, v)
        want = _run_rows(conn, form, lambda c: c.execute(ref_stmt, execution_options={"compiled_cache": None}))
        cache = {}
        st1, src1 = source_statement(form, first, tname, decoy, prefix="p")
        st2, src2 = source_statement(form, second, tname, v, prefix="p")
        _run_rows(conn, form, lambda c: c.execute(st1, *([src1.exec_params] if src1.exec_params else []), execution_options={"compiled_cache": cache}))
        size = len(cache)
        got = _run_rows(conn, form, lambda c: c.execute(st2, *([src2.exec_params] if src2.exec_params else []), execution_options={"compiled_cache": cache}))
        shared = len(cache) == size
        if got != want:
            return _fail("source-cache", "bound / literal_execute value after a compiled-cache hit, by value source", "sqlite+pysqlite",
                         dict(value=_jsonable(v), form=form, type=tname, first=first, second=second, cache_entry_shared=shared), want, got), 3
    return None, 3


# -- ORM-generated criteria: the parameters are callables that read the instance when the statement is compiled / executed

ORM_FAMILIES = ("int-key", "str-key", "composite-key", "many-to-many")
ORM_STATES = ("persistent", "expired", "detached", "transient")
ORM_KEYS = {"int-key": [1, 2, 3], "str-key": ["plain", "it's 100% \\ :x", "';--"], "composite-key": [(1, "a'"), (1, "b\\"), (2, "a'")]}


def orm_setup(family):
    """returns (engine, P, C, data) - parent / child classes with P.kids (one-to-many or many-to-many), P.kids_wo (write only),
    C.par (many-to-one; absent for many-to-many)"""
    Base = declarative_base()
    eng = create_engine("sqlite://", poolclass=StaticPool)
    if family == "many-to-many":
        link = Table("link", Base.metadata, Column("pid", ForeignKey("p.id"), primary_key=True), Column("cid", ForeignKey("c.id"), primary_key=True))

        class P(Base):
            __tablename__ = "p"
            id = Column(Integer, primary_key=True)
            kids = relationship("C", secondary=link, order_by="C.id")
            kids_wo = relationship("C", secondary=link, lazy="write_only", viewonly=True)

        class C(Base):
            __tablename__ = "c"
            id = Column(Integer, primary_key=True)
            email = Column(String)

        def fill(s):
            cs = [C(id=i, email="e%d" % i) for i in range(1, 6)]
            s.add_all(cs)
            s.add_all([P(id=1, kids=[cs[0], cs[1]]), P(id=2, kids=[cs[1], cs[2], cs[3]]), P(id=3, kids=[])])
        pkeys = [1, 2, 3]
    else:
        keys = ORM_KEYS[family]
        if family == "composite-key":
            class P(Base):
                __tablename__ = "p"
                a = Column(Integer, primary_key=True)
                b = Column(String, primary_key=True)
                kids = relationship("C", back_populates="par", order_by="C.id")
                kids_wo = relationship("C", lazy="write_only", viewonly=True)

            class C(Base):
                __tablename__ = "c"
                id = Column(Integer, primary_key=True)
                pa = Column(Integer)
                pb = Column(String)
                email = Column(String)
                __table_args__ = (ForeignKeyConstraint(["pa", "pb"], ["p.a", "p.b"]),)
                par = relationship(P, back_populates="kids")

            mkp = lambda k: P(a=k[0], b=k[1])  # noqa: E731
        else:
            kt = Integer if family == "int-key" else String

            class P(Base):
                __tablename__ = "p"
                id = Column(kt, primary_key=True)
                kids = relationship("C", back_populates="par", order_by="C.id")
                kids_wo = relationship("C", lazy="write_only", viewonly=True)

            class C(Base):
                __tablename__ = "c"
                id = Column(Integer, primary_key=True)
                pid = Column(ForeignKey("p.id"))
                email = Column(String)
                par = relationship(P, back_populates="kids")

            mkp = lambda k: P(id=k)  # noqa: E731

        def fill(s):
            ps = [mkp(k) for k in keys]
            s.add_all(ps)
            s.add_all([C(id=1, par=ps[0], email="e1"), C(id=2, par=ps[1], email="e2"), C(id=3, par=ps[1], email="e3"),
                       C(id=4, par=None, email="e4"), C(id=5, par=ps[0], email="e5")])
        pkeys = keys
    Base.metadata.create_all(eng)
    with Session(eng) as s:
        fill(s)
        s.commit()
    return eng, P, C, pkeys


def _pk_cols(cls):
    return list(cls.__mapper__.primary_key)


# criterion generators: name -> (instance is "P" or "C", entity selected, criterion(P, C, obj)); None where the family has no such attribute
ORM_CRITERIA = {
    "m2o-eq": ("P", "C", lambda P, C, o: C.par == o),
    "m2o-ne": ("P", "C", lambda P, C, o: C.par != o),
    "m2o-eq-aliased": ("P", "C", None),  # built in orm_statement (needs the alias as the entity)
    "filter_by": ("P", "C", None),
    "o2m-contains": ("C", "P", lambda P, C, o: P.kids.contains(o)),
    "o2m-not-contains": ("C", "P", lambda P, C, o: ~P.kids.contains(o)),
    "with_parent-o2m": ("P", "C", lambda P, C, o: with_parent(o, P.kids)),
    "with_parent-m2o": ("C", "P", lambda P, C, o: with_parent(o, C.par)),
    "write_only-select": ("P", "C", None),
    # the lazy-load clause itself: bound side = the real lazy load of obj.kids (values supplied at execution by the loader),
    # literal side = the with_parent() criterion rendered with literal_binds
    "lazy-load-o2m": ("P", "C", lambda P, C, o: with_parent(o, P.kids)),
}
ORM_M2M_SKIP = ("m2o-eq", "m2o-ne", "m2o-eq-aliased", "filter_by", "with_parent-m2o")
ORM_FORMS = ("select-where", "in-subquery", "union", "cte", "update-where", "delete-where")


def orm_statement(P, C, gen, form, obj):
    """the statement of one case, or None when the combination does not exist"""
    side, ent, mk = ORM_CRITERIA[gen]
    E = C if ent == "C" else P
    cols = _pk_cols(E)
    if gen == "m2o-eq-aliased":
        A = aliased(C)
        base = select(A.id).where(A.par == obj)
        crit = None
    elif gen == "filter_by":
        base = select(C.id).filter_by(par=obj)
        crit = None
    elif gen == "write_only-select":
        base = obj.kids_wo.select().with_only_columns(C.id)
        crit = None
    else:
        crit = mk(P, C, obj)
        base = select(*cols).where(crit)
    if form == "select-where":
        return base.order_by(*base.selected_columns)
    if form == "in-subquery":
        if len(cols) != 1:
            return None
        return select(E.__table__.c.id).where(E.__table__.c.id.in_(base)).order_by(E.__table__.c.id)
    if form == "union":
        return union_all(base, base).order_by(*[c.key for c in cols])
    if form == "cte":
        k = base.cte("k")
        return select(k).order_by(*k.c)
    if crit is None or E is not C:
        return None
    if form == "update-where":
        return update(C).where(crit).values(email="changed")
    if form == "delete-where":
        return delete(C).where(crit)
    raise ValueError(form)


def _orm_object(sess, P, C, pkeys, side, idx, state):
    """the instance the criterion is built from, in the requested state"""
    if side == "P":
        cls, key = P, pkeys[idx]
    else:
        cls, key = C, idx + 1
    if state == "transient":
        if cls is P:
            cols = [c.key for c in _pk_cols(P)]
            return P(**dict(zip(cols, key if isinstance(key, tuple) else (key,))))
        src = sess.get(C, key)
        kw = {c.key: getattr(src, c.key) for c in C.__table__.c}
        sess.expunge(src)
        return C(**kw)
    obj = sess.get(cls, key)
    if state == "expired":
        sess.expire(obj)
    elif state == "detached":
        sess.refresh(obj)
        sess.expunge(obj)
    return obj


def orm_clause(eng, P, C, pkeys, family, gen, form, state, idx):
    """[orm-criteria]  returns (failure or None, executions, nontrivial)"""
    side = ORM_CRITERIA[gen][0]
    inp = dict(family=family, criterion=gen, form=form, state=state, instance=idx)
    with warnings.catch_warnings(), Session(eng) as sess:
        warnings.simplefilter("ignore")
        C_tab = C.__table__
        snap = lambda: [list(r) for r in sess.connection().execute(select(C_tab).order_by(C_tab.c.id))]  # noqa: E731
        try:
            obj = _orm_object(sess, P, C, pkeys, side, idx, state)
            stmt = orm_statement(P, C, gen, form, obj)
        except (exc.SQLAlchemyError, NotImplementedError) as ex:  # e.g. write-only collection of a transient object: refused
            return None, 0, 0
        if stmt is None:
            return None, 0, 0
        dml = form in ("update-where", "delete-where")
        before = snap() if dml else None

        def run_it(how):
            try:
                if dml:
                    sp = sess.begin_nested()
                    try:
                        how()
                        return snap()
                    finally:
                        sp.rollback()
                return [list(r) for r in how()]
            except NotImplementedError:
                return NotImplemented
            except (exc.SQLAlchemyError, sqlite3.Error) as ex:
                return "%s: %s" % (type(ex).__name__, str(ex)[:200])

        if gen == "lazy-load-o2m":
            if form != "select-where" or state not in ("persistent", "expired"):
                return None, 0, 0
            sess.expire(obj, ["kids"])
            bound = run_it(lambda: [[k.id] for k in obj.kids])
        else:
            bound = run_it(lambda: sess.execute(stmt, execution_options={"synchronize_session": False} if dml else {}))
        if bound is NotImplemented:  # e.g. multiple-table criteria in DELETE on this backend: refused
            return None, 0, 0
        if state == "expired" and obj in sess:
            sess.expire(obj)
        try:
            sql = str(stmt.compile(eng, compile_kwargs=LB))
            lit = run_it(lambda: sess.connection().exec_driver_sql(sql))
        except exc.SQLAlchemyError as ex:
            sql, lit = None, "%s: %s" % (type(ex).__name__, str(ex)[:200])
        nontrivial = (bound != before) if dml else bool(bound) and not isinstance(bound, str)
        if bound != lit or isinstance(bound, str):
            return (_fail("orm-criteria", "literal_binds vs bound parameters for ORM-generated criteria", "sqlite+pysqlite", inp, bound, lit, sql=sql),
                    2, 0)
        return None, 2, int(nontrivial)


def orm_cases(family):
    for gen, (side, ent, mk) in ORM_CRITERIA.items():
        if family == "many-to-many" and gen in ORM_M2M_SKIP:
            continue
        for form in ORM_FORMS:
            for state in ORM_STATES:
                for idx in range(3):
                    yield gen, form, state, idx


# ------------------------------------------------------------------------------------------------ workers

def _work(task):
    kind = task[0]
    fails = []
    res = dict(kind=kind, evals=0, nontrivial=0, fails=fails, samples=[], refused=0)
    if kind == "strings":
        _, label, strs = task
        con = sqlite3.connect(":memory:") if label.startswith("sqlite") else None
        for s in strs:
            for tname in STRING_TYPES:
                f, escaped, text = string_clause(label, s, tname)
                res["evals"] += 2
                res["nontrivial"] += escaped
                fails.extend(f)
                if con is not None and tname == "String":
                    got = sqlite_scalar(con, text)
                    res["evals"] += 1
                    if got != s:
                        fails.append(_fail("sqlite-select-literal", "render_literal_value/String.literal_processor", label,
                                           dict(value=s, type="String", path="sqlite3"), s, got, rendered=text))
                if (escaped and not res["samples"] and len(s) > 2 and "'" in s and ("\\" in s or "%" in s)
                        and tname == ("Unicode" if "mssql" in label else "String") and res["nontrivial"] > 40 * list(VARIANTS).index(label)):
                    res["samples"].append(dict(dialect=label, type=tname, value=s, rendered=text))
    elif kind == "typed":
        _, label, strs, n_short = task
        for tname in typed_types(label):
            for v in strs:
                f, n, nt = typed_string_clause(label, tname, v, TYPED_PATHS if len(v) <= n_short else TYPED_PATHS[:1])
                res["evals"] += n
                res["nontrivial"] += nt
                res["refused"] += (len(TYPED_PATHS) if len(v) <= n_short else 1) - n
                fails.extend(f)
        tname = "TypeDecorator(Text) + process_bind_param"
        v = max(strs, key=lambda x: (len(set(x) & set("'\\%")), x))
        res["samples"].append(dict(dialect=label, type=tname, value=v, path="literal_binds",
                                   rendered=typed_render(label, typed_types(label)[tname], v, "literal_binds")))
    elif kind == "statements":
        _, label, strs = task
        for v in strs:
            for form in FORMS:
                f = statement_clause(label, form, v)
                res["evals"] += 1
                res["nontrivial"] += string_clause(label, v, "String")[1]
                if f:
                    fails.append(f)
        res["samples"].append(dict(dialect=label, form="literal_execute", value=strs[-1], sql=_stmt_tokens(label, "literal_execute", strs[-1])[0]))
    elif kind == "values":
        _, label = task
        con = sqlite3.connect(":memory:") if label.startswith("sqlite") else None
        for family, tname, v in value_cases():
            f, n, refused = value_clause(label, family, tname, v, con)
            res["evals"] += n
            res["refused"] += refused
            res["nontrivial"] += 0 if refused else 1
            fails.extend(f)
        res["samples"].append(dict(dialect=label, type="DateTime", value=DT_VALUES[2][1].isoformat(),
                                   rendered=variant(label)[1].render_literal_value(DT_VALUES[2][1], DT_TYPES["DateTime"])))
    elif kind == "engine":
        _, strs, allstrs = task
        eng, t, ids = engine_setup(allstrs)
        for v in strs:
            f, n = engine_clause(eng, t, ids, v)
            res["evals"] += n
            res["nontrivial"] += string_clause("sqlite+pysqlite", v, "String")[1]
            fails.extend(f)
        eng.dispose()
    elif kind == "source-text":
        _, label, vals = task
        for tname, v in vals:
            for form in SRC_FORMS:
                f, n, nt = source_clause(label, form, tname, v)
                res["evals"] += n
                res["nontrivial"] += nt
                fails.extend(f)
        tname, v = vals[0]
        res["samples"].append(dict(dialect=label, form="cte", source="lx-callable", type=tname, value=_jsonable(v),
                                   sql=source_text(label, "cte", "lx-callable", tname, v)[0]))
    elif kind == "source-engine":
        _, vals, strs = task
        eng = source_engine_setup(strs)
        caches = {}
        for tname, v in vals:
            for form in SRC_FORMS:
                f, n, nt = source_engine_clause(eng, form, tname, v, caches)
                res["evals"] += n
                res["nontrivial"] += nt
                fails.extend(f)
        eng.dispose()
    elif kind == "source-cache":
        _, vals, strs = task
        eng = source_engine_setup(strs)
        for tname, v in vals:
            for form in SRC_FORMS:
                for a in CACHE_SOURCES:
                    for b in CACHE_SOURCES:
                        if a != b and a.startswith("lx-") == b.startswith("lx-"):
                            f1, n = source_cache_clause(eng, form, tname, v, a, b)
                            res["evals"] += n
                            if f1:
                                fails.append(f1)
        eng.dispose()
    elif kind == "orm":
        _, family = task
        eng, P, C, pkeys = orm_setup(family)
        for gen, form, state, idx in orm_cases(family):
            f, n, nt = orm_clause(eng, P, C, pkeys, family, gen, form, state, idx)
            res["evals"] += n
            res["nontrivial"] += nt
            if f:
                fails.append(f)
            elif nt and gen == "m2o-eq" and form == "cte" and state == "expired" and idx == 1:
                with Session(eng) as sess:
                    obj = _orm_object(sess, P, C, pkeys, "P", idx, "persistent")
                    res["samples"].append(dict(family=family, criterion=gen, form=form,
                                               sql=str(orm_statement(P, C, gen, form, obj).compile(eng, compile_kwargs=LB))))
        eng.dispose()
    if len(fails) > 300:
        res["dropped_failures"] = len(fails) - 300
        del fails[300:]
    return res


_PRIORITY = {"string-literal": 0, "typed-string-literal": 0, "value-literal": 0, "sqlite-select-literal": 1, "statement-shape": 2, "sqlite-rows": 3,
             "source-text": 4, "source-rows": 4, "orm-criteria": 4, "source-cache": 5}


def run(run, tier, seed, args):
    import sqlalchemy
    quick = tier == "quick"
    n_str, n_stmt, n_eng, n_typed = (4, 2, 3, 3) if quick else (5, 3, 4, 4)
    nj = S.jobs()
    strs = S.strings(ALPHABET, n_str)
    tasks = []
    per = max(1, (nj * 2) // len(VARIANTS)) if quick else nj
    for label in VARIANTS:
        for c in S.chunks(strs, per):
            tasks.append(("strings", label, c))
        for c in S.chunks(S.strings(ALPHABET, n_stmt), 1 if quick else 4):
            tasks.append(("statements", label, c))
        tasks.append(("values", label))
        for c in S.chunks(S.strings(ALPHABET, n_typed), 2 if quick else nj):
            tasks.append(("typed", label, c, n_typed - 1))
    eng_strs = S.strings(ALPHABET, n_eng)
    for c in S.chunks(eng_strs, nj):
        tasks.append(("engine", c, eng_strs))
    src_vals = source_values(quick)
    for label in VARIANTS:
        for c in S.chunks(src_vals, 2 if quick else 8):
            tasks.append(("source-text", label, c))
    src_strs = sorted({v for t, v in src_vals if t == "String" and v is not None} | {"z", "decoy"})
    src_eng_vals = [(t, v) for t, v in src_vals if t in ("String", "Integer")]
    for c in S.chunks(src_eng_vals, nj):
        tasks.append(("source-engine", c, src_strs))
    for tv in CACHE_VALUES:
        tasks.append(("source-cache", [tv], src_strs))
    for family in ORM_FAMILIES:
        tasks.append(("orm", family))
    cost = {"source-cache": lambda t: 3000, "strings": lambda t: len(t[2]), "typed": lambda t: len(t[2]) * 3, "statements": lambda t: len(t[2]), "engine": lambda t: len(t[1]) * 5,
            "source-text": lambda t: len(t[2]) * 300, "source-engine": lambda t: len(t[1]) * 600, "orm": lambda t: 4000}
    tasks.sort(key=lambda t: -cost.get(t[0], lambda t: 0)(t))
    res = S.pmap(_work, tasks)
    F = S.Findings(run, max_replays=12)
    F.extend(sorted((f for r in res for f in r["fails"]),
                    key=lambda f: (_PRIORITY.get(f["clause"], 9), len(json.dumps(f["input"])), json.dumps(f["input"], sort_keys=True))))
    F.finish()
    by = {}
    for r in res:
        d = by.setdefault(r["kind"], dict(evaluations=0, nontrivial=0))
        d["evaluations"] += r["evals"]
        d["nontrivial"] += r["nontrivial"]
    run.coverage.update(
        evaluations=sum(d["evaluations"] for d in by.values()),
        distinct_nontrivial=(by["strings"]["nontrivial"] + by["typed"]["nontrivial"] + by["values"]["nontrivial"]
                             + by["source-text"]["nontrivial"] + by["orm"]["nontrivial"]),
        rule="one evaluation = one real rendering (or one real execution) checked against the contract; inputs are exhaustive "
             "products, each (variant, type, value) enumerated once. Non-trivial, measured on the real output: (variant, type, "
             "string) triples whose rendering differs from plain '<value>' quoting, i.e. the processor had to escape a quote, a "
             "backslash or a percent sign; plus the (variant, type, value) boundary values that were rendered (not refused). "
             "[typed-string]: (variant, type of the catalogue, string, path) whose rendering is not plain '<bound text>' quoting. "
             "The statement / engine parts re-use the same strings and are not added to distinct_nontrivial. [source]: "
             "(variant, form, type, value, source) tuples with a source other than the plain value and a non-NULL value whose "
             "literal text was produced and compared (source-engine re-uses them, not added); [orm-criteria]: (family, "
             "criterion, form, instance state, instance) cases whose bound execution returned rows / changed the table.",
        by_part=by,
        values_refused_by_processor=sum(r["refused"] for r in res),
        variants=list(VARIANTS),
        failures_not_kept=sum(r.get("dropped_failures", 0) for r in res),
        samples=[s for k in by for s in [s for r in res if r["kind"] == k for s in r["samples"]][:3]],
        exhaustive=True,
        typed_string_types={lab: list(typed_types(lab)) for lab in ("default", "mysql+mysqldb", "postgresql+psycopg", "mssql+pyodbc", "oracle+oracledb",
                                                                     "sqlite+pysqlite")},
        scope="alphabet %r; strings of length 0..%d x %d variants x {String, Unicode} x 2 paths; [typed-string] strings of length "
              "0..%d (render_literal_value) / 0..%d (literal_binds, literal_execute) x %d variants x %d generic string-rendering types "
              "(sized / text / enum / variant / TypeDecorator shapes / LargeBinary) + each dialect's own string types; statement forms %s for strings "
              "0..%d; SQLite Engine executions for strings 0..%d; boundary value lists (module docstring); value sources %s "
              "(+ %s on the Engine) x %d statement forms %s x %d values (strings 0..%d + 6 adversarial, 4 integers, 2 floats, "
              "bool, datetime, None) x %d variants as text and on a SQLite Engine (String / Integer values); compiled-cache "
              "sharing between sources %s (values %s); ORM criteria %s x forms %s x instance states %s x 3 instances x families %s; sqlite3 %s"
              % (ALPHABET, n_str, len(VARIANTS), n_typed, n_typed - 1, len(VARIANTS), len(TYPED_GENERIC), sorted(FORMS), n_stmt, n_eng, SOURCES, EXEC_SOURCES, len(SRC_FORMS),
                 sorted(SRC_FORMS), len(src_vals), 1 if quick else 2, len(VARIANTS), CACHE_SOURCES, CACHE_VALUES, sorted(ORM_CRITERIA),
                 list(ORM_FORMS), list(ORM_STATES), list(ORM_FAMILIES), sqlite3.sqlite_version),
        sqlalchemy_tree=sqlalchemy.__file__,
    )
    run.assumptions += [
        "the string / number lexers of PostgreSQL, MySQL, MSSQL and Oracle are assumed contracts taken from their manuals (ANSI '' "
        "doubling; MySQL backslash escapes unless NO_BACKSLASH_ESCAPES; PostgreSQL backslash escapes only with "
        "standard_conforming_strings=off; MSSQL N'...'); only SQLite's lexer is exercised for real (in-process sqlite3)",
        "which DBAPIs %-format the statement text (psycopg, mysqldb: yes; asyncpg, mysqlconnector, pyodbc, pymssql, oracledb, "
        "pysqlite: no) is taken from the drivers' documentation; no driver other than sqlite3 is run",
        "whether Oracle's TO_DATE / TO_TIMESTAMP format masks accept the rendered text (time zones, fractional seconds) needs a server: outside",
        "NUL characters, lone surrogates, strings longer than the scope and characters outside the 10-character alphabet are outside",
        "[source]: executemany, bindparam values inside text() / lambda statements, ORM criteria with custom primaryjoin / "
        "remote_side / composite secondary, and loader strategies other than the lazy 'select' loader are outside",
        "[typed-string]: 'what binding sends' is the type's real bind processor applied to the value (identity when there is none); a "
        "TypeDecorator whose process_literal_param deliberately differs from process_bind_param is outside; LargeBinary: the connection "
        "character set is assumed to be UTF-8 (the text literal stands for the bytes of its UTF-8 encoding)",
        "types not enumerated (Uuid, JSON and its index / path types, ARRAY, Interval, Enum over a Python enum class) and collation / "
        "charset conversion on the server are outside",
    ]


def replay(data):
    inp = data["input"]
    clause = data.get("clause", "")
    label = inp["dialect"]
    v = _unjson(inp["value"]) if "value" in inp else None
    if clause == "statement-shape" and "source" in inp:
        fails, _, _ = source_clause(label, inp["form"], inp["type"], v)
        fails = [f for f in fails if f["clause"] == clause]
    elif clause == "statement-shape":
        f = statement_clause(label, inp["form"], v)
        fails = [f] if f else []
    elif clause == "typed-string-literal":
        fails, _, _ = typed_string_clause(label, inp["type"], v, [inp["path"]])
    elif clause == "sqlite-rows":
        strs = sorted({v, "a", ""})
        eng, t, ids = engine_setup(strs)
        fails, _ = engine_clause(eng, t, ids, v)
        fails = [f for f in fails if f["input"]["form"] == inp["form"]]
    elif clause == "source-text":
        fails, _, _ = source_clause(label, inp["form"], inp["type"], v)
        fails = [f for f in fails if f["input"]["source"] == inp["source"]]
    elif clause in ("source-rows", "source-cache"):
        strs = sorted({"z", "decoy", "a"} | ({v} if isinstance(v, str) else set()))
        eng = source_engine_setup(strs)
        if clause == "source-rows":
            fails, _, _ = source_engine_clause(eng, inp["form"], inp["type"], v, {}, only=inp["source"])
        else:
            f, _ = source_cache_clause(eng, inp["form"], inp["type"], v, inp["first"], inp["second"])
            fails = [f] if f else []
    elif clause == "orm-criteria":
        eng, P, C, pkeys = orm_setup(inp["family"])
        f, _, _ = orm_clause(eng, P, C, pkeys, inp["family"], inp["criterion"], inp["form"], inp["state"], inp["instance"])
        fails = [f] if f else []
    elif inp.get("family"):
        con = sqlite3.connect(":memory:") if label.startswith("sqlite") else None
        fails, _, _ = value_clause(label, inp["family"], inp["type"], v, con)
        fails = [f for f in fails if f["input"]["path"] == inp["path"]] or fails
    else:
        fails, _, text = string_clause(label, v, inp["type"])
        if inp.get("path") == "sqlite3":
            got = sqlite_scalar(sqlite3.connect(":memory:"), text)
            fails = [] if got == v else [_fail("sqlite-select-literal", data["function"], label, inp, v, got, rendered=text)]
        else:
            fails = [f for f in fails if f["input"]["path"] == inp["path"]] or fails
    if fails:
        f = fails[0]
        print("REPLAY-FAILS C05 %s input=%r clause=%s expected=%r actual=%r %s" % (f["function"], inp, f["clause"], f["expected"],
              f["actual"], {k: f[k] for k in ("rendered", "on_the_wire", "sql") if k in f}))
        return 1
    print("REPLAY-PASSES C05 input=%r clause=%s" % (inp, clause))
    return 0
