"""C10 — Result objects deliver exactly the underlying rows: BufferedRowCursorFetchStrategy under proof (every row once, in
order, for any row count and any sequence of fetch calls), the Result API as the bounded complement."""
import importlib
import contracts.cursor_fetch  # noqa: F401
from pyvc.contract import FUNCS
from vlib.proof import run_proofs

LEVEL = "proof"
KEYS = [k for k, c in FUNCS.items() if "C10" in c.props and c.proof and not c.abstract]


def run(run, tier, seed, args):
    run_proofs(run, KEYS, tier, update_baseline=args.update_baseline, source_root=args.source_root)
    if not args.source_root:
        importlib.import_module("checks.C10_bounded").bounded(run, tier, seed)
    run.assumptions += [
        "assumed DBAPI cursor contract (PEP 249): fetchmany(n >= 1) returns and removes the next n remaining rows, fetchall() all of them; fetchmany(0) is driver-defined and proved never to be issued",
        "handle_exception never returns; CursorResult._soft_close clears the strategy's row buffer and marks the result closed",
        "each fetch* contract says: the call returns a prefix of (buffer ++ cursor rows) and leaves exactly the rest — so any sequence of calls returns consecutive segments of the initial rows (each row once, in order)",
        "Result / ScalarResult / MappingResult / FrozenResult / MergedResult / ChunkedIteratorResult (closures of _result_cy) are in the bounded complement only",
    ]
