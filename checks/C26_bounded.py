"""C26 — bounded complement (run-time contracts over the fake DBAPI, NOT proof): the pool recovers from any fault without
leaking or reusing dead connections.

``bounded(run, tier, seed)`` drives REAL pools (``QueuePool`` with pre_ping on/off, recycle on/off, with/without a checkout
listener that raises ``DisconnectionError`` / ``InvalidatePoolError``; ``NullPool``; ``StaticPool``; ``SingletonThreadPool``)
through every history of the operations of rtc/poolhist.py and injects a fault at EVERY DBAPI call position of every history
(connect / rollback-on-return / close / ping / cursor / execute / checkout-event), in each of FOUR exception classes: an
ordinary DBAPI error, a disconnect-classified DBAPI error, an ``Exception`` that is no DBAPI error ("plain") and a
``BaseException`` that is no ``Exception`` ("base": what KeyboardInterrupt / asyncio.CancelledError / GreenletExit look like to
the pool — ``except Exception`` does not see it); short histories additionally with a second fault (same four classes) at every
later position.  The property quantifies over "any sequence of faults": the class of the exception is a dimension of the fault.

Contract (clauses P5, P6, P7, P3, P4 after EVERY step — a handed-out connection is never ledger-closed, never one that was
soft/hard invalidated, never older than a pool-wide invalidation of its generation or than ``recycle``; no DBAPI call reaches a
closed connection; ``checkedout()`` == live holders — and, once every holder has released: R1 ``checkedout() == 0``, R2 every
ledger-open connection is idle in the pool, R3 no idle connection is closed, R4 no slot leaked: the pool can again hand out
``pool_size + max_overflow`` connections).  Stated in full in rtc/poolhist.py.  The ledger counts a ``close()`` attempt as
closed (the pool discards the connection whether or not close() succeeded).

StaticPool / SingletonThreadPool: their documentation says invalidation / recycle are "only partially supported" resp. that
the pool is for testing; for them only hard invalidation, check-in, gc and use are driven (no soft / pool-wide invalidation,
no recycle), with ONE holder at a time (simultaneous checkouts share the one connection by design, so invalidating it under
another holder is outside), and the exclusivity / count clauses do not apply.

Known findings (known_findings.d/C26.json, both with a native replay in their ``what``): a "base" fault out of the DBAPI
``close()`` (Pool._close_connection re-raises it, the callers skip their clean-up) and a "base" fault out of the reset of a
garbage-collected checkout (swallowed inside the weakref callback before checkin()).  They are matched by the clause, the
operation and the (call kind, exception class) of the LAST fault that fired — recorded in the failure descriptor as ``fired`` —
so any other consequence of a BaseException fault (e.g. at connect / ping / cursor / execute / checkout-event) is reported.

It appends exactly one block to ``run.coverage["bounded"]`` and reports failures through ``run``.
"""
import json

from rtc import fakedbapi as F
from rtc import poolhist as H
from rtc.shard import default_procs, shard_map

FUNCTION = "sqlalchemy.pool.base._ConnectionRecord/_ConnectionFairy._checkout/_finalize_fairy"
EXCS = ["error", "disconnect", "plain", "base"]

CONFIGS = [
    dict(name="queue", pool="queue", pool_size=1, max_overflow=1),
    dict(name="queue+pre_ping", pool="queue", pool_size=1, max_overflow=1, pre_ping=True),
    dict(name="queue+recycle", pool="queue", pool_size=1, max_overflow=1, recycle=1000),
    dict(name="queue+pre_ping+recycle", pool="queue", pool_size=1, max_overflow=1, pre_ping=True, recycle=1000),
    dict(name="queue+checkout_listener", pool="queue", pool_size=1, max_overflow=1, checkout_listener=True),
    dict(name="queue(2,0)+pre_ping+lifo", pool="queue", pool_size=2, max_overflow=0, pre_ping=True, lifo=True),
    dict(name="null", pool="null"),
    dict(name="null+pre_ping", pool="null", pre_ping=True),
    dict(name="static", pool="static"),
    dict(name="static+pre_ping", pool="static", pre_ping=True),
    dict(name="singleton", pool="singleton"),
]
OPS_Q = ["co", "ci0", "ci1", "inv0", "inv1", "soft0", "poolinv0", "gc0", "use0"]
OPS_SHARED = ["co", "ci0", "ci1", "inv0", "gc0", "use0"]


def ops_for(cfg):
    if cfg["pool"] in ("static", "singleton"):
        return list(OPS_SHARED)
    return OPS_Q + (["tick"] if cfg.get("recycle") else [])


def histories(cfg, maxlen):
    ops = ops_for(cfg)

    def ok(prefix, op):
        made = sum(1 for o in prefix if o == "co")
        released = sum(1 for o in prefix if o[:2] in ("ci", "in", "gc", "po"))
        if op == "co":
            # the one-connection pools share their connection between simultaneous checkouts by design: one holder at a time
            return cfg["pool"] not in ("static", "singleton") or made - released == 0
        if op == "tick":
            return True
        return made - released > int(op[-1])

    def rec(prefix):
        if prefix:
            yield prefix
        if len(prefix) == maxlen:
            return
        for op in ops:
            if ok(prefix, op):
                yield from rec(prefix + (op,))
    yield from rec(())


def _quiet_unraisable():
    # a BaseException that leaves a weakref callback (gc of a checkout, "base" fault in its reset) is printed by the interpreter
    import sys
    sys.unraisablehook = lambda *a: None


def worker(shard, nshards, maxlen, two_len):
    F.quiet()
    _quiet_unraisable()
    out = dict(runs=0, fired_distinct=0, histories=0, na=0, failures=[], by_kind={}, by_exc={}, per_config={}, two_fault_runs=0, samples=[])
    idx = 0
    for cfg in CONFIGS:
        pc = out["per_config"].setdefault(cfg["name"], dict(histories=0, runs=0, fired=0))
        for ops in histories(cfg, maxlen):
            idx += 1
            if idx % nshards != shard:
                continue
            base = H.run_history(cfg, ops)
            out["runs"] += 1
            if base["na"]:
                out["na"] += 1
                continue
            out["histories"] += 1
            pc["histories"] += 1
            pc["runs"] += 1
            if base["failure"]:
                out["failures"].append(dict(config=cfg["name"], ops=list(ops), faults=[], **base["failure"]))
                continue
            for n in range(1, base["calls"] + 1):
                for x in EXCS:
                    r = H.run_history(cfg, ops, [(n, x)])
                    out["runs"] += 1
                    pc["runs"] += 1
                    _account(out, pc, cfg, ops, [(n, x)], r)
                    if len(ops) <= two_len and r["fired"] and not r["failure"]:
                        for m in range(n + 1, r["calls"] + 1):
                            for y in EXCS:
                                r2 = H.run_history(cfg, ops, [(n, x), (m, y)])
                                out["runs"] += 1
                                pc["runs"] += 1
                                out["two_fault_runs"] += 1
                                _account(out, pc, cfg, ops, [(n, x), (m, y)], r2)
    return out


def _account(out, pc, cfg, ops, faults, r):
    if len(r["fired"]) >= len(faults):
        out["fired_distinct"] += 1
        pc["fired"] += 1
        k = "+".join(f[0] for f in r["fired"])
        out["by_kind"][k] = out["by_kind"].get(k, 0) + 1
        k = "+".join(f[2] for f in r["fired"])
        out["by_exc"][k] = out["by_exc"].get(k, 0) + 1
        if len(out["samples"]) < 1 and len(ops) >= 2 and len(faults) == 1 and not r["failure"]:
            out["samples"].append(dict(config=cfg["name"], ops=list(ops), faults=[list(f) for f in faults], fired=r["fired"]))
    if r["failure"]:
        out["failures"].append(dict(config=cfg["name"], ops=list(ops), faults=[list(f) for f in faults],
                                    fired=[[f[0], f[2]] for f in r["fired"]], **r["failure"]))


def cfg_by_name(name):
    return next(c for c in CONFIGS if c["name"] == name)


def bounded(run, tier, seed):
    F.quiet()
    maxlen = 5 if tier == "quick" else 6
    two = 3 if tier == "quick" else 4
    procs = default_procs(tier)
    res = shard_map(worker, procs, procs, maxlen, two)
    tot = dict(runs=0, fired_distinct=0, histories=0, na=0, two_fault_runs=0)
    by_kind, by_exc, per_config, failures, samples = {}, {}, {}, [], []
    for r in res:
        if r is None or "crash" in r:
            run.crashes.append("C26 bounded: " + (r or {}).get("crash", "shard returned nothing"))
            continue
        for k in tot:
            tot[k] += r[k]
        for k, v in r["by_kind"].items():
            by_kind[k] = by_kind.get(k, 0) + v
        for k, v in r["by_exc"].items():
            by_exc[k] = by_exc.get(k, 0) + v
        for k, v in r["per_config"].items():
            d = per_config.setdefault(k, dict(histories=0, runs=0, fired=0))
            for kk in d:
                d[kk] += v[kk]
        failures += r["failures"]
        samples += r["samples"]
    tr = H.run_history(cfg_by_name("queue+pre_ping"), ("co", "ci0", "co"), [(4, "disconnect")], trace=True)
    samples = samples[:2] + [dict(config="queue+pre_ping", ops=["co", "ci0", "co"], faults=[[4, "disconnect"]], trace=tr["steps"],
                                  failure=tr["failure"])]
    tr = H.run_history(cfg_by_name("queue"), ("co", "co"), [(1, "base")], trace=True)
    samples.append(dict(config="queue", ops=["co", "co"], faults=[[1, "base"]], trace=tr["steps"], failure=tr["failure"]))
    blk = dict(
        label="bounded (not proof)", property="C26",
        scope=f"every history of length <= {maxlen} over {OPS_Q} (+tick with recycle; {OPS_SHARED} for StaticPool / "
              f"SingletonThreadPool) on {[c['name'] for c in CONFIGS]}; one fault at EVERY DBAPI call position (connect, "
              f"rollback, close, ping, cursor, execute, checkout-event) x exception class {EXCS} (ordinary DBAPI error, "
              f"disconnect-classified DBAPI error, non-DBAPI Exception, BaseException that is not an Exception); "
              f"two faults (all {len(EXCS) ** 2} class pairs) for histories of length <= {two}; single thread",
        evaluations=tot["runs"], distinct_nontrivial=tot["fired_distinct"],
        rule="each history is run once without fault to count the DBAPI calls it makes, then once per (call position, exception "
             "class) [and per later second position for short histories]; counted in distinct_nontrivial when every planned "
             "fault actually fired (read from the ledger); the (config, history, positions, exceptions) tuples are enumerated "
             "once each",
        samples=samples, exhaustive=True, histories=tot["histories"], pruned_no_target=tot["na"],
        two_fault_runs=tot["two_fault_runs"], fired_by_dbapi_call_kinds=by_kind, fired_by_exception_classes=by_exc,
        per_config=per_config)
    run.coverage.setdefault("bounded", []).append(blk)
    if tot["fired_distinct"] < 2:
        run.crashes.append("C26 bounded: vacuity guard: fewer than 2 faults fired")
    report(run, failures, "C26")


def report(run, failures, tag):
    seen = {}
    for d in sorted(failures, key=lambda d: (len(d["ops"]), len(d["faults"]), d["config"], d["ops"], d["faults"])):
        desc = dict(config=d["config"], ops=d["ops"], faults=d["faults"], clause=d["clause"], at_op=d["at_op"], at_fired=d["at_fired"])
        if d.get("fired"):
            desc["fired"] = d["fired"]          # [[DBAPI call kind, exception class]] of the faults that fired, in order
        dj = json.dumps(desc, sort_keys=True)
        k = run.match_known(function=FUNCTION, input=dj)
        if k is not None:
            run.known_finding(k, "bounded fault enumeration on the real pool")
            continue
        sig = (d["clause"], d["config"].split("+")[0].split("(")[0], d["at_op"], d["at_fired"])
        seen[sig] = seen.get(sig, 0) + 1
        if seen[sig] > 1 or len(seen) > 12:
            continue
        run.violation(f"{tag}-bounded-{d['clause']}-{abs(hash(dj)) % 10**8}",
                      dict(function=FUNCTION, bounded_module=f"checks.{tag}_bounded", input=desc,
                           expected="contract clause " + d["clause"] + " (rtc/poolhist.py)", actual=d["detail"],
                           reason=f"bounded run-time contract check ({tag}_bounded)"))
    if seen:
        run.coverage.setdefault("bounded_violation_classes", {}).update({" | ".join(k): v for k, v in seen.items()})


def replay(data):
    F.quiet()
    _quiet_unraisable()
    inp = data["input"]
    r = H.run_history(cfg_by_name(inp["config"]), tuple(inp["ops"]), [tuple(f) for f in inp["faults"]], trace=True)
    if r["failure"]:
        print(f"REPLAY-FAILS {FUNCTION} input={json.dumps(inp, sort_keys=True)} clause={r['failure']['clause']} {r['failure']['detail']}")
        for s in r["steps"]:
            print("   ", json.dumps(s, default=repr))
        return 1
    print(f"REPLAY-PASSES {FUNCTION} input={json.dumps(inp, sort_keys=True)} fired={r['fired']}")
    return 0
