"""C26 — the pool recovers from any fault without leaking or reusing dead connections: the _ConnectionRecord layer under proof,
fault enumeration on a fake DBAPI as the bounded complement."""
import importlib
import contracts.pool_record  # noqa: F401
import contracts.finalize_fairy  # noqa: F401  (_finalize_fairy: shared by C24 and C26)
import contracts.fairy_checkout  # noqa: F401
import contracts.pool_queue  # noqa: F401  (QueuePool._do_get: the overflow claim is given back when the creator fails with any exception)
from pyvc.contract import FUNCS
from vlib.proof import run_proofs

LEVEL = "proof"
KEYS = [k for k, c in FUNCS.items() if "C26" in c.props and c.proof and not c.abstract]


def run(run, tier, seed, args):
    run_proofs(run, KEYS, tier, update_baseline=args.update_baseline, source_root=args.source_root)
    if not args.source_root:
        importlib.import_module("checks.C26_bounded").bounded(run, tier, seed)
    run.assumptions += [
        "assumed externals: pool._invoke_creator returns a new open DBAPI connection or raises with nothing opened; pool._close_connection closes (close attempted counts as closed, exceptions swallowed there); pool._return_conn is counted by a ghost counter",
        "event hooks (dispatch.*) and logging do not touch the ghost state and do not raise; time.time() is an arbitrary integer (no monotonicity is needed by the clauses)",
        "QueuePool._do_get (shared with C25): creator failures of any exception class leave the overflow accounting as it was",
        "under proof: __init__, __close, __connect, close, invalidate, get_connection, checkin, _checkin_failed, _is_hard_or_soft_invalidated; _finalize_fairy (sync, non-detached: checked in exactly once, invalidated when the reset fails with an Exception), _ConnectionFairy._checkout (first checkout: pre-ping / checkout-event retry loop -- what is handed out is live, is the record's connection, and is never a connection on which a disconnect was detected); _ConnectionRecord.checkout / _ConnectionFairy._checkout (retry loop, pre-ping) and the pool classes are in the bounded complement",
    ]
