"""C26 — bounded run-time contract check (see checks/C26_bounded.py for the contract and scope); proof kernel: see DESIGN §5 C26."""
from vlib.thin import run_bounded_only

LEVEL = "fault_enumeration"


def run(run, tier, seed, args):
    run_bounded_only(run, "C26", tier, seed)
