"""C50 — ordering lists and association proxies behave as their collection types: OrderingList position bookkeeping and the
list proxy _AssociationList (append, extend, pop, int-index get/set/del, clear, len) and the dict proxy _AssociationDict
(__getitem__, __setitem__, __delitem__, __contains__, get, setdefault, clear, popitem) and the set proxy _AssociationSet (__contains__, add, discard, clear,
remove, pop, -=, |=, update, difference_update, __bool__, __len__), all against the view of proxied values, under proof; operation sequences (bound / un-instrumented OrderingList, association proxies) as the bounded complement."""
import importlib
import contracts.orderinglist  # noqa: F401
import contracts.assoc_list  # noqa: F401
from pyvc.contract import FUNCS
from vlib.proof import run_proofs

LEVEL = "proof"
KEYS = [k for k, c in FUNCS.items() if "C50" in c.props and c.proof and not c.abstract]


def run(run, tier, seed, args):
    run_proofs(run, KEYS, tier, update_baseline=args.update_baseline, source_root=args.source_root)
    if not args.source_root:
        importlib.import_module("checks.C50_bounded").bounded(run, tier, seed)
    run.assumptions += [
        "the ordering attribute is a ghost field `pos` read/written by _get_order_value/_set_order_value (getattr/setattr on the configured name); ordering_func is pure",
        "no entity occurs twice in the list (precondition); super().<op> is the builtin list operation",
        "under proof: _order_entity, reorder, append, insert, pop, remove, __delitem__(int); __setitem__ (known defects DESIGN §6 #6/#7), inherited extend/sort/reverse (#18) are in the bounded complement",
        "_AssociationSet: view = {getter(m) for m in col}; `==` between a proxied value and the argument is read as identity of the modelled values; distinct members carry "
        "distinct values (precondition of add / discard / remove / pop / -=, re-established by each); `x in self` inside add() is the call of __contains__ (its contract); "
        "the binary operators / _bulk_replace are in the bounded complement",
        "_AssociationList: view = [getter(m) for m in col]; getter / creator are pure and _create(value) returns an object whose proxied value is value (the round trip the class documents as assumed); `col` (lazy_collection()) is read as a list attribute; list insert / slices / remove / iteration, dict setdefault / get / update / _bulk_replace and the set proxy are in the bounded complement",
    ]
