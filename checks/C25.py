"""C25 — the pool respects its limits: QueuePool overflow accounting + util.queue.Queue representation invariant.

Proved sequentially per critical section (monitor reading, DESIGN §2.6) plus a syntactic lock-discipline obligation.
Schedules are not explored."""
import ast
import importlib
import contracts.pool_queue  # noqa: F401
from pyvc.contract import FUNCS, REPO_LIB
from vlib.proof import run_proofs

LEVEL = "proof"
KEYS = [k for k, c in FUNCS.items() if "C25" in c.props and c.proof and not c.abstract]


def lock_discipline(run, source_root=None):
    """every store to QueuePool._overflow is inside `with self._overflow_lock:` — or in __init__/dispose (excluded by name,
    stated) or guarded by `self._max_overflow == -1` (limit-free); every store to Queue.queue's contents is in a method that
    is only called with the mutex held (_put/_get/_init)."""
    root = source_root or REPO_LIB
    tree = ast.parse(open(root + "/pool/impl.py").read())
    sites = []
    bad = []
    for cls_ in [n for n in tree.body if isinstance(n, ast.ClassDef) and n.name == "QueuePool"]:
        for meth in [m for m in cls_.body if isinstance(m, ast.FunctionDef)]:
            parents = {}
            for p in ast.walk(meth):
                for ch in ast.iter_child_nodes(p):
                    parents[id(ch)] = p
            for n in ast.walk(meth):
                tgt = None
                if isinstance(n, ast.AugAssign):
                    tgt = n.target
                elif isinstance(n, ast.Assign):
                    tgt = n.targets[0]
                if tgt is None or not (isinstance(tgt, ast.Attribute) and tgt.attr == "_overflow"):
                    continue
                ok = meth.name in ("__init__", "dispose")
                why = "excluded by name" if ok else ""
                p = parents.get(id(n))
                while p is not None and not ok:
                    if isinstance(p, ast.With) and any(ast.unparse(i.context_expr) == "self._overflow_lock" for i in p.items):
                        ok, why = True, "inside with self._overflow_lock"
                    if isinstance(p, ast.If) and ast.unparse(p.test) == "self._max_overflow == -1" and n in ast.walk(ast.Module(body=p.body, type_ignores=[])):
                        ok, why = True, "limit-free arm (max_overflow == -1)"
                    p = parents.get(id(p))
                sites.append(dict(method=meth.name, line=n.lineno, ok=ok, why=why))
                if not ok:
                    bad.append(dict(method=meth.name, line=n.lineno, stmt=ast.unparse(n)))
    cov = run.coverage
    cov["obligations"] = cov.get("obligations", 0) + len(sites)
    cov["discharged"] = cov.get("discharged", 0) + sum(1 for s in sites if s["ok"])
    cov["lock_discipline_sites"] = sites
    if not sites:
        run.crashes.append("lock discipline: no store to _overflow found (vacuity guard)")
    for b in bad:
        run.violation(f"lock-discipline-{b['method']}-{b['line']}", dict(function="pool/impl.py::QueuePool." + b["method"],
                      failed_obligations=[f"lock-discipline: store `{b['stmt']}` to _overflow outside self._overflow_lock"], input=b), no_input=True)


def run(run, tier, seed, args):
    run_proofs(run, KEYS, tier, update_baseline=args.update_baseline, source_root=args.source_root)
    lock_discipline(run, args.source_root)
    if not args.source_root:
        try:
            m = importlib.import_module("checks.C25_bounded")
        except ModuleNotFoundError:
            m = None
        if m is not None:
            m.bounded(run, tier, seed)
    run.assumptions += [
        "assumed contracts: Pool._create_connection creates exactly one record or raises with nothing created; record.close() on the Full path retires the slot; Condition.wait() may change the queue arbitrarily but re-establishes the monitor invariant",
        "interference model (rely/guarantee reading of the monitor): other threads may change _overflow, the ghost counters and the queue at every statement outside the lock, at lock acquisition and around calls out of the pool, subject to the monitor invariant, which this thread proves before each such point; `+=` on an int attribute is one atomic step; dispose() is excluded by name",
        "ghost statements (pending/mine bookkeeping) are attached to `self._overflow += 1` / `-= 1` by source text; they touch ghost fields only",
        "'no connection record is handed to two holders' is proved thread-modularly (QueuePool._do_get / _do_return_conn, contracts '#unique'): ghost set of records held by the current thread (a ghost field of the queue, updated atomically with get / put / create), monitor invariant 'the idle queue is duplicate free and contains no record this thread holds'; rely (assumed contract of Condition.wait = the other threads): they keep the queue duplicate free, never put a record this thread holds, and only put existing objects; precondition of _do_return_conn: the record is held by the caller (its call sites are in the bounded complement)",
        "NOT decided: fairness; that a *DBAPI connection* (as opposed to its record) is not shared -- one record wraps one connection (C26 record layer); AsyncAdaptedQueuePool, SingletonThreadPool, StaticPool, NullPool; real interleavings",
        "partial correctness for the recursive QueuePool._do_get",
    ]
