"""C55 — compiled and pure-Python implementations of the ``_*_cy`` modules are interchangeable (bounded, class B).

Not only a differential test: both builds are driven through the *same contracts*, each in its own process —

  pure      a fresh interpreter in which a meta-path finder makes every ``sqlalchemy.**._*_cy`` import load the ``.py``
            source (``rtc.cymods.force_pure_imports``), so the whole library (Result, Row, processors, collections, cache-key
            maps) runs on the pure-Python implementations;
  compiled  a fresh interpreter with the normal imports (the ``.so`` extensions), restricted to the sections whose modules are
            compiled **and fresh** — freshness decided mechanically from the source lines embedded in the Cython ``.c`` file
            (DESIGN §2.5).  A stale or absent extension is reported as "not evaluated", never as a violation; the claim then
            reduces to the pure side.

Contract per section (module under contract in brackets)

  collections   [util._collections_cy]    OrderedSet / IdentitySet / unique_list reference models (C54 contracts, rtc/coll_contracts.py)
  immutabledict [util._immutabledict_cy]  immutabledict / ImmutableDictBase contracts (C54)
  processors    [engine._processors_cy]   int_to_boolean(v) == (None if v is None else bool(v)); to_str == str; to_float == float;
                                          str_to_datetime/date/time == the class' fromisoformat; to_decimal_processor_factory(T, k)(v) ==
                                          T("%.kf" % v); None -> None; exception *types* of the underlying conversion propagate
  engine_util   [engine._util_cy]         _distill_params_20 / _distill_raw_params: None -> (), mapping -> [mapping], list/tuple of
                                          mappings (raw: or tuples) returned as is, anything else ArgumentError; tuplegetter(*i)(row) ==
                                          tuple(row[k] for k in i)
  row           [engine._row_cy]          a Row behaves as the tuple of its processed data (len/iter/index/slice/in/hash/compare), name and
                                          mapping access return the value at the key's index, unknown names raise AttributeError / KeyError,
                                          rows are immutable, pickle round-trips, each processor is applied exactly once per cell
  result        [engine._result_cy]       IteratorResult against the list model: every fetch method delivers the next rows of the
                                          underlying list in order, exactly once; first/one/one_or_none/scalar* hard-close; a closed
                                          result raises ResourceClosedError; one() raises NoResultFound / MultipleResultsFound exactly
                                          when 0 / >1 rows remain; scalars / mappings / columns / unique deliver the derived list
  cursor_result [engine._result_cy + _row_cy + _processors_cy]  CursorResult on in-memory SQLite: delivered rows form a prefix of the
                                          table's rows in order and only documented exception types occur (the full C10 contract is C10's)
  sql_util      [sql._util_cy]            anon_map: first access of a key yields the next index 0,1,2.. and is stable afterwards, get_anon
                                          reports (index, seen-before); prefix_anon_map: "<id> <name>" -> "<name>_<k>", k counting per name
                                          from 1; compiled SQL / cache keys of statements with anonymous labels are deterministic

  builds-differ   for every case evaluated on both builds: same value (canonical form), same exception type, same side effect
"""
import hashlib
import json
import os
import subprocess
import sys
import tempfile
import time

LEVEL = "exploration"

SECTION_MODULES = {
    "collections": ["sqlalchemy.util._collections_cy"],
    "immutabledict": ["sqlalchemy.util._immutabledict_cy"],
    "processors": ["sqlalchemy.engine._processors_cy"],
    "engine_util": ["sqlalchemy.engine._util_cy"],
    "row": ["sqlalchemy.engine._row_cy", "sqlalchemy.engine._result_cy"],
    "result": ["sqlalchemy.engine._result_cy", "sqlalchemy.engine._row_cy"],
    "cursor_result": ["sqlalchemy.engine._result_cy", "sqlalchemy.engine._row_cy", "sqlalchemy.engine._processors_cy", "sqlalchemy.engine._util_cy"],
    "sql_util": ["sqlalchemy.sql._util_cy", "sqlalchemy.util._collections_cy"],
}


# =============================================================================================== sections (run inside a worker)
def _outcome(f):
    try:
        return None, f()
    except Exception as e:      # noqa: BLE001 - exception type is part of the contract
        return type(e).__name__, None


def sec_collections(tier, impl):
    import sqlalchemy.util._collections_cy as m
    from rtc import coll_contracts as CC
    return [CC.check_orderedset(m.OrderedSet, tier, impl, True), CC.check_identityset(m.IdentitySet, tier, impl, True),
            CC.check_unique_list(m.unique_list, tier, impl, True)]


def sec_immutabledict(tier, impl):
    import sqlalchemy.util._immutabledict_cy as m
    from rtc import coll_contracts as CC
    return [CC.check_immutabledict(m, tier, impl, True)]


def sec_processors(tier, impl):
    import datetime as dt
    import decimal
    import fractions
    import sqlalchemy.engine._processors_cy as p
    from rtc import coll_contracts as CC
    res = CC.Result("processors", "7 processors x catalogue of 60 values (None, ints, bools, floats incl. inf/nan, Decimal, Fraction, numeric and ISO "
                                  "date/time strings valid and invalid, bytes, containers) x scales 0,2,10 x target types Decimal / float / str", True)

    class Weird:
        def __bool__(self):
            raise RuntimeError("no truth value")

        def __str__(self):
            return "weird"
    vals = [None, 0, 1, 2, -1, True, False, "", "0", "1", "x", " 1.5 ", "1.5", "1e3", "nan", "inf", 1.5, -0.0, 0.1, 1e308, float("inf"), float("nan"),
            decimal.Decimal("1.25"), decimal.Decimal("-0.005"), decimal.Decimal("NaN"), fractions.Fraction(1, 3), 2**70, b"x", b"1", [], [0], (), {}, object,
            "2020-01-02", "2020-01-02 03:04:05", "2020-01-02T03:04:05", "2020-01-02 03:04:05.123456", "2020-01-02 03:04:05.1", "2020-01-02 03:04", "03:04:05",
            "03:04:05.000001", "03:04", "24:00:00", "2020-13-45", "2020-02-30", "0001-01-01", "9999-12-31 23:59:59.999999", "2020-01-02 03:04:05+02:00",
            "20200102", "2020-01-02 ", "bad", dt.date(2020, 1, 2), dt.datetime(2020, 1, 2), 10**400, -10**400, "١٢", Weird()]
    specs = {
        "int_to_boolean": lambda v: None if v is None else (True if v else False),
        "to_str": lambda v: None if v is None else str(v),
        "to_float": lambda v: None if v is None else float(v),
        "str_to_datetime": lambda v: None if v is None else dt.datetime.fromisoformat(v),
        "str_to_time": lambda v: None if v is None else dt.time.fromisoformat(v),
        "str_to_date": lambda v: None if v is None else dt.date.fromisoformat(v),
    }

    def canon(x):
        return (type(x).__name__, repr(x))
    for name, spec in specs.items():
        fn = getattr(p, name)
        for i, v in enumerate(vals):
            res.evaluations += 1
            got = _outcome(lambda: fn(v))
            want = _outcome(lambda: spec(v))
            g = (got[0], None if got[0] else canon(got[1]))
            w = (want[0], None if want[0] else canon(want[1]))
            if v is not None and got[0] is None:
                res.nontrivial += 1
            res.record(json.dumps(["processors", name, i]), repr(g))
            if g != w:
                res.fails.append(CC.Fail("_processors_cy." + name, "spec", dict(section="processors", impl=impl, fn=name, value_index=i, value=repr(v)[:80]),
                                         f"returned {g}, contract {w}"))
    for tname, T in (("Decimal", decimal.Decimal), ("float", float), ("str", str)):
        for scale in (0, 2, 10):
            proc = p.to_decimal_processor_factory(T, scale)
            for i, v in enumerate(vals):
                res.evaluations += 1
                got = _outcome(lambda: proc(v))
                want = _outcome(lambda: None if v is None else T(("%." + str(scale) + "f") % v))
                g = (got[0], None if got[0] else canon(got[1]))
                w = (want[0], None if want[0] else canon(want[1]))
                if got[0] is None and v is not None:
                    res.nontrivial += 1
                res.record(json.dumps(["processors", "to_decimal", tname, scale, i]), repr(g))
                if g != w:
                    res.fails.append(CC.Fail("_processors_cy.to_decimal_processor_factory", "spec",
                                             dict(section="processors", impl=impl, fn="to_decimal", target=tname, scale=scale, value_index=i, value=repr(v)[:80]),
                                             f"returned {g}, contract {w}"))
    res.samples.append(dict(fn="str_to_datetime", value="2020-01-02 03:04:05.1", result=repr(p.str_to_datetime("2020-01-02 03:04:05.1"))))
    return [res]


def sec_engine_util(tier, impl):
    import collections
    import itertools
    import types
    import warnings
    import sqlalchemy.engine._util_cy as u
    from sqlalchemy.util import immutabledict
    from rtc import coll_contracts as CC
    res = CC.Result("engine_util", "_distill_params_20 / _distill_raw_params x 40 parameter shapes; tuplegetter for every index tuple of length 1..3 over 0..3 "
                                   "on tuple and list rows", True)

    class MyMap(collections.abc.Mapping):
        def __init__(self, d):
            self.d = d

        def __getitem__(self, k):
            return self.d[k]

        def __iter__(self):
            return iter(self.d)

        def __len__(self):
            return len(self.d)
    shapes = [None, (), [], {}, {"a": 1}, [{"a": 1}], [{"a": 1}, {"a": 2}], ({"a": 1},), ({"a": 1}, {"b": 2}), (1, 2), [(1, 2)], [(1, 2), (3, 4)], [[1, 2]], [1, 2], "abc",
              5, 1.5, [{"a": 1}, (1,)], [(1,), {"a": 1}], [()], [[]], [{}], immutabledict({"a": 1}), [immutabledict({"a": 1})], types.MappingProxyType({"a": 1}),
              [types.MappingProxyType({"a": 1})], MyMap({"a": 1}), [MyMap({"a": 1})], collections.OrderedDict(a=1), [None], [None, {"a": 1}], ("a",), ["a"], b"x", {1, 2},
              frozenset(), iter([{"a": 1}]), range(2), [range(2)], object()]
    M = (dict, collections.abc.Mapping)

    def spec20(p):
        if p is None:
            return ("ok", "()")
        if isinstance(p, (list, tuple)):
            if len(p) and not isinstance(p[0], M):
                return ("exc", "ArgumentError")
            return ("ok", "is-arg")
        if isinstance(p, M):
            return ("ok", "[arg]")
        return ("exc", "ArgumentError")

    def specraw(p):
        if p is None:
            return ("ok", "()")
        if isinstance(p, list):
            if len(p) and not isinstance(p[0], M + (tuple,)):
                return ("exc", "ArgumentError")
            return ("ok", "is-arg")
        if isinstance(p, M + (tuple,)):
            return ("ok", "[arg]")
        return ("exc", "ArgumentError")

    def classify(p, r):
        if r is p:
            return "is-arg"
        if isinstance(r, tuple) and r == ():
            return "()"
        if isinstance(r, list) and len(r) == 1 and r[0] is p:
            return "[arg]"
        return repr(r)
    for fname, spec in (("_distill_params_20", spec20), ("_distill_raw_params", specraw)):
        fn = getattr(u, fname)
        for i, p in enumerate(shapes):
            res.evaluations += 1
            with warnings.catch_warnings(record=True) as w:
                warnings.simplefilter("always")
                e, r = _outcome(lambda: fn(p))
            got = ("exc", e) if e else ("ok", classify(p, r))
            want = spec(p)
            warned = sorted({x.category.__name__ for x in w})
            res.nontrivial += 1 if p is not None else 0
            res.record(json.dumps(["engine_util", fname, i]), repr((got, warned)))
            if got != want:
                res.fails.append(CC.Fail("_util_cy." + fname, "spec", dict(section="engine_util", impl=impl, fn=fname, shape_index=i, shape=repr(p)[:80]), f"got {got}, contract {want}"))
            if fname == "_distill_params_20" and isinstance(p, (list, tuple)) and len(p) == 0 and not warned:
                res.fails.append(CC.Fail("_util_cy." + fname, "deprecation-warning", dict(section="engine_util", impl=impl, fn=fname, shape_index=i, shape=repr(p)), "no warning for an empty sequence"))
    rows = [(10, 11, 12, 13), [20, 21, 22, 23]]
    for k in (1, 2, 3):
        for idx in itertools.product(range(4), repeat=k):
            for ri, row in enumerate(rows):
                res.evaluations += 1
                e, r = _outcome(lambda: u.tuplegetter(*idx)(row))
                want = tuple(row[j] for j in idx)
                res.nontrivial += 1
                res.record(json.dumps(["engine_util", "tuplegetter", list(idx), ri]), repr((e, r)))
                ok = e is None and (r == want if ri == 0 else tuple(r) == want)
                if not ok:
                    res.fails.append(CC.Fail("_util_cy.tuplegetter", "spec", dict(section="engine_util", impl=impl, fn="tuplegetter", indexes=list(idx), row=ri), f"got {e or r!r}, contract {want!r}"))
    e, r = _outcome(lambda: u.tuplegetter())
    res.record(json.dumps(["engine_util", "tuplegetter", [], 0]), repr(e))
    res.samples.append(dict(fn="_distill_params_20", arg="[{'a': 1}, (1,)]", result="returned as is (only the first element is inspected)"))
    return [res]


def _mk_result(keys, rows, processors=None):
    from sqlalchemy.engine.result import IteratorResult, SimpleResultMetaData
    md = SimpleResultMetaData(keys, _processors=processors)
    return IteratorResult(md, iter([tuple(r) for r in rows]))


def sec_row(tier, impl):
    import operator
    import pickle
    from rtc import coll_contracts as CC
    res = CC.Result("row", "Row objects from IteratorResult over 4 data tuples (ints, strings, None, nested tuple, equal cells) with and without processors: "
                           "len / iter / int index -5..4 / 12 slices / in / hash / 6 comparisons x 5 operands / attribute and mapping access for every key + unknown keys / "
                           "setattr / delattr / _asdict / _fields / _tuple / count / index / pickle / repr", True)
    calls = []

    def proc(v):
        calls.append(v)
        return ("p", v)
    datas = [(1, "x", None), (0, 0, 0), ((1, 2), "ü", 3.5), (None, None, None)]
    keys = ["a", "b", "c"]
    for di, data in enumerate(datas):
        for with_proc in (False, True):
            del calls[:]
            r = _mk_result(keys, [data], [proc, None, proc] if with_proc else None)
            row = r.fetchone()
            want = tuple((("p", v) if with_proc and i != 1 else v) for i, v in enumerate(data))
            base = dict(section="row", impl=impl, data=repr(data), processors=with_proc)

            def chk(name, got, exp, extra=None):
                res.evaluations += 1
                res.nontrivial += 1
                res.record(json.dumps(["row", di, with_proc, name]), repr(got))
                if got != exp:
                    res.fails.append(CC.Fail("BaseRow." + name.split(" ")[0], "tuple-model", dict(base, op=name), f"got {got!r}, contract {exp!r}"))
            chk("processor-calls", list(calls), [data[0], data[2]] if with_proc else [])
            # BaseRow.__init__ with processors (the path Row._filter_on_values uses), data as tuple and as list
            from sqlalchemy.engine.row import Row
            md = r._metadata
            for form in (tuple, list):
                del calls[:]
                e, direct = _outcome(lambda: Row(md, [proc, None, proc] if with_proc else None, md._key_to_index, form(data)))
                chk(f"__init__ direct {form.__name__}", (e, None if e else tuple(direct), list(calls)), (None, want, [data[0], data[2]] if with_proc else []))
            chk("__init__ processors/data length mismatch", _outcome(lambda: Row(md, [proc], md._key_to_index, tuple(data)))[0], "AssertionError")
            chk("__len__", len(row), 3)
            chk("__iter__", list(row), list(want))
            chk("_tuple", _outcome(lambda: row._tuple()), (None, want))
            chk("_to_tuple_instance", row._to_tuple_instance(), want)
            chk("_values_impl", row._values_impl(), list(want))
            chk("__hash__", _outcome(lambda: hash(row)), _outcome(lambda: hash(want)))
            chk("__repr__", repr(row), repr(want))
            chk("_fields", row._fields, tuple(keys))
            chk("_asdict", row._asdict(), dict(zip(keys, want)))
            chk("_mapping", dict(row._mapping), dict(zip(keys, want)))
            for i in range(-5, 5):
                chk(f"__getitem__ {i}", _outcome(lambda: row[i]), _outcome(lambda: want[i]))
            for sl in [(None, None, None), (0, 2, None), (1, None, None), (None, -1, None), (None, None, -1), (5, None, None), (-5, 5, 2), (2, 0, None), (0, 0, None), (None, None, 2), (-1, None, None), (1, 2, 1)]:
                chk(f"__getitem__ slice{sl}", _outcome(lambda: row[slice(*sl)]), _outcome(lambda: want[slice(*sl)]))
            chk("__getitem__ 'a'", _outcome(lambda: row["a"])[0], "TypeError")
            for v in list(want) + ["zz", ("p", 1)]:
                chk(f"__contains__ {v!r}", _outcome(lambda: v in row), _outcome(lambda: v in want))
                chk(f"count {v!r}", _outcome(lambda: row.count(v)), _outcome(lambda: want.count(v)))
                chk(f"index {v!r}", _outcome(lambda: row.index(v)), _outcome(lambda: want.index(v)))
            others = [want, want[:2], want + (1,), (), tuple(reversed(want))]
            for opn in ("eq", "ne", "lt", "le", "gt", "ge"):
                for oi, o in enumerate(others):
                    chk(f"__{opn}__ {oi}", _outcome(lambda: getattr(operator, opn)(row, o)), _outcome(lambda: getattr(operator, opn)(want, o)))
            for k, v in zip(keys, want):
                chk(f"__getattr__ {k}", _outcome(lambda: getattr(row, k)), (None, v))
                chk(f"_mapping[{k}]", _outcome(lambda: row._mapping[k]), (None, v))
            chk("__getattr__ unknown", _outcome(lambda: row.nope)[0], "AttributeError")
            chk("__getattr__ _private", _outcome(lambda: row._nope)[0], "AttributeError")
            e = _outcome(lambda: row._mapping["nope"])[0]
            chk("_mapping[unknown]", e in ("NoSuchColumnError", "KeyError"), True)
            chk("_mapping[0]", _outcome(lambda: row._mapping[0])[0] in ("NoSuchColumnError", "KeyError"), True)
            chk("__setattr__", _outcome(lambda: setattr(row, "a", 1))[0], "AttributeError")
            chk("__setattr__ new", _outcome(lambda: setattr(row, "zz", 1))[0], "AttributeError")
            chk("__delattr__", _outcome(lambda: delattr(row, "a"))[0], "AttributeError")
            chk("__setitem__", _outcome(lambda: row.__setitem__(0, 1))[0] in ("TypeError", "AttributeError"), True)
            if not with_proc:
                chk("pickle", _outcome(lambda: tuple(pickle.loads(pickle.dumps(row)))), (None, want))
                chk("pickle-keys", _outcome(lambda: pickle.loads(pickle.dumps(row))._fields), (None, tuple(keys)))
            chk("row is unchanged", tuple(row), want)
    res.samples.append(dict(data=repr(datas[0]), processors=True, row="(('p', 1), 'x', ('p', None))"))
    return [res]


# ---- Result list model
_RESULT_OPS = ["fetchone", "fetchmany1", "fetchmany2", "fetchmany5", "all", "first", "one", "one_or_none", "scalar", "scalar_one", "scalar_one_or_none", "next", "partition2",
               "scalars_all", "mappings_all", "columns_all", "unique_all", "close", "fetchmany_none", "scalars_first", "mappings_one", "unique_fetchone"]
_MODELLED = set(_RESULT_OPS) - {"fetchmany_none", "unique_fetchone"}


def _apply_result_op(r, op, keys):
    if op == "fetchone":
        return r.fetchone()
    if op.startswith("fetchmany") and op != "fetchmany_none":
        return r.fetchmany(int(op[9:]))
    if op == "fetchmany_none":
        return r.fetchmany()
    if op == "next":
        return next(r)
    if op == "partition2":
        return next(r.partitions(2))
    if op == "scalars_all":
        return r.scalars().all()
    if op == "scalars_first":
        return r.scalars().first()
    if op == "mappings_all":
        return [dict(m) for m in r.mappings().all()]
    if op == "mappings_one":
        return dict(r.mappings().one())
    if op == "columns_all":
        return r.columns(1, 0).all()
    if op == "unique_all":
        return r.unique().all()
    if op == "unique_fetchone":
        return r.unique().fetchone()
    return getattr(r, op)()


class _ListModel:
    def __init__(self, rows, keys):
        self.rows, self.keys, self.pos, self.hard = [tuple(x) for x in rows], keys, 0, False

    def take(self, n=None):
        rest = self.rows[self.pos:] if n is None else self.rows[self.pos:self.pos + n]
        self.pos += len(rest)
        return rest

    def apply(self, op):
        """-> ('exc', name) | ('ok', value)"""
        if op == "close":
            self.hard = True
            self.pos = len(self.rows)
            return ("ok", None)
        if self.hard:
            return ("exc", "ResourceClosedError")
        if op == "fetchone":
            t = self.take(1)
            return ("ok", t[0] if t else None)
        if op.startswith("fetchmany"):
            return ("ok", self.take(int(op[9:])))
        if op == "all":
            return ("ok", self.take())
        if op == "next":
            t = self.take(1)
            return ("ok", t[0]) if t else ("exc", "StopIteration")
        if op == "partition2":
            t = self.take(2)
            return ("ok", t) if t else ("exc", "StopIteration")
        if op in ("scalars_all", "mappings_all", "columns_all", "unique_all"):
            t = self.take()
            if op == "scalars_all":
                return ("ok", [x[0] for x in t])
            if op == "mappings_all":
                return ("ok", [dict(zip(self.keys, x)) for x in t])
            if op == "columns_all":
                return ("ok", [(x[1], x[0]) for x in t])
            out = []
            for x in t:
                if x not in out:
                    out.append(x)
            return ("ok", out)
        # the "only one row" family: always leaves the result hard-closed
        rest = self.rows[self.pos:]
        self.pos = len(self.rows)
        self.hard = True
        scalar = op.startswith("scalar")
        if op in ("first", "scalar", "scalars_first"):
            if not rest:
                return ("ok", None)
            return ("ok", rest[0][0] if scalar else rest[0])
        if op in ("one", "scalar_one", "mappings_one"):
            if not rest:
                return ("exc", "NoResultFound")
            if len(rest) > 1:
                return ("exc", "MultipleResultsFound")
            return ("ok", dict(zip(self.keys, rest[0])) if op == "mappings_one" else rest[0][0] if scalar else rest[0])
        if op in ("one_or_none", "scalar_one_or_none"):
            if not rest:
                return ("ok", None)
            if len(rest) > 1:
                return ("exc", "MultipleResultsFound")
            return ("ok", rest[0][0] if scalar else rest[0])
        raise ValueError(op)


def _canon_rows(v):
    from sqlalchemy.engine.row import Row
    if isinstance(v, Row):
        return ("row", tuple(v))
    if isinstance(v, list):
        return [_canon_rows(x) for x in v]
    return v


def _strip(v):
    if isinstance(v, tuple) and len(v) == 2 and v[0] == "row":
        return v[1]
    if isinstance(v, list):
        return [_strip(x) for x in v]
    return v


def sec_result(tier, impl):
    import itertools
    from rtc import coll_contracts as CC
    length = 4 if tier == "thorough" else 3
    ops = _RESULT_OPS if tier == "thorough" else [o for o in _RESULT_OPS if o not in ("fetchmany5", "scalar_one_or_none", "scalars_first", "mappings_one")]
    rowsets = [[], [(1, "a")], [(1, "a"), (2, "b")], [(1, "a"), (2, "b"), (1, "a")], [(None, None), (None, None)]]
    res = CC.Result("result", f"IteratorResult: all sequences of {length} operations over {len(ops)} Result operations x {len(rowsets)} row lists (0-3 rows, duplicates, NULLs) "
                              f"against the list model", True)
    keys = ["x", "y"]
    for ri, rows in enumerate(rowsets):
        for seq in itertools.product(ops, repeat=length):
            r = _mk_result(keys, rows)
            model = _ListModel(rows, keys)
            trace = []
            modelled = True
            for op in seq:
                e, v = _outcome(lambda: _apply_result_op(r, op, keys))
                got = ("exc", e) if e else ("ok", _canon_rows(v))
                trace.append(got)
                if op not in _MODELLED:
                    modelled = False
                if modelled:
                    want = model.apply(op)
                    g = ("exc", e) if e else ("ok", _strip(got[1]))
                    if g != want:
                        res.fails.append(CC.Fail("Result." + op, "list-model", dict(section="result", impl=impl, rows=ri, ops=list(seq)),
                                                 f"step {len(trace) - 1} {op}: got {g}, list model {want}"))
                        modelled = False
            res.evaluations += 1
            if rows and any(t[0] == "ok" and t[1] not in (None, []) for t in trace):
                res.nontrivial += 1
            res.record(json.dumps(["result", ri, list(seq)]), repr(trace))
    res.samples.append(dict(rows=rowsets[3], ops=["fetchone", "one", "all"], model=[(1, "a"), "MultipleResultsFound", "ResourceClosedError"]))
    return [res]


def sec_cursor_result(tier, impl):
    import itertools
    from sqlalchemy import Boolean, Column, DateTime, Integer, MetaData, Numeric, String, Table, create_engine, select
    import datetime as dt
    import decimal
    from rtc import coll_contracts as CC
    eng = create_engine("sqlite://")
    md = MetaData()
    t = Table("verif_c55", md, Column("id", Integer, primary_key=True), Column("s", String), Column("b", Boolean), Column("n", Numeric(10, 2)), Column("d", DateTime))
    md.create_all(eng)
    data = [dict(id=1, s="a", b=True, n=decimal.Decimal("1.50"), d=dt.datetime(2020, 1, 2, 3, 4, 5, 6)), dict(id=2, s=None, b=False, n=None, d=None),
            dict(id=3, s="a", b=None, n=decimal.Decimal("-0.01"), d=dt.datetime(1, 1, 1))]
    ops = [o for o in _RESULT_OPS if o not in ("fetchmany5", "fetchmany_none", "scalars_first", "mappings_one", "scalar_one_or_none")]
    res = CC.Result("cursor_result", f"CursorResult on in-memory SQLite (String / Boolean / Numeric / DateTime result processors): all sequences of {3 if tier == 'thorough' else 2} operations over {len(ops)} "
                                     f"operations x 0..3 rows x (default, stream_results + max_row_buffer=1, yield_per=2)", True)
    allowed = {"ResourceClosedError", "NoResultFound", "MultipleResultsFound", "StopIteration"}
    with eng.begin() as conn:
        conn.execute(t.insert(), data)
    for nrows in range(0, 4):
        full = [tuple(d[k] for k in ("id", "s", "b", "n", "d")) for d in data[:nrows]]
        for oi, opts in enumerate(({}, dict(stream_results=True, max_row_buffer=1), dict(yield_per=2))):
            for seq in itertools.product(ops, repeat=3 if tier == "thorough" else 2):
                res.evaluations += 1
                with eng.connect() as conn:
                    r = conn.execution_options(**opts).execute(select(t).where(t.c.id <= nrows).order_by(t.c.id))
                    trace, delivered = [], []
                    for op in seq:
                        e, v = _outcome(lambda: _apply_result_op(r, op, ["id", "s", "b", "n", "d"]))
                        trace.append(("exc", e) if e else ("ok", _canon_rows(v)))
                        if e and e not in allowed:
                            res.fails.append(CC.Fail("CursorResult." + op, "exception", dict(section="cursor_result", impl=impl, rows=nrows, options=oi, ops=list(seq)), f"undocumented exception {e}"))
                        if e is None and op in ("fetchone", "fetchmany1", "fetchmany2", "all", "first", "one", "one_or_none", "next", "partition2"):
                            vv = _strip(_canon_rows(v))
                            delivered += [] if vv is None else vv if isinstance(vv, list) else [vv]
                    r.close()
                if all(o in ("fetchone", "fetchmany1", "fetchmany2", "all", "first", "one", "one_or_none", "next", "partition2", "close") for o in seq):
                    if delivered != full[:len(delivered)]:
                        res.fails.append(CC.Fail("CursorResult." + seq[-1], "prefix", dict(section="cursor_result", impl=impl, rows=nrows, options=oi, ops=list(seq)),
                                                 f"delivered {delivered}, not a prefix of {full}"))
                    if delivered:
                        res.nontrivial += 1
                res.record(json.dumps(["cursor_result", nrows, oi, list(seq)]), repr(trace))
    res.samples.append(dict(rows=3, options="yield_per=2", ops=["fetchmany2", "all"], delivered="rows 1-2, then row 3"))
    return [res]


def sec_sql_util(tier, impl):
    import itertools
    import sqlalchemy.sql._util_cy as su
    from sqlalchemy import Column, Integer, MetaData, String, Table, bindparam, func, literal, select
    from sqlalchemy.dialects import mysql, postgresql, sqlite
    from rtc import coll_contracts as CC
    res = CC.Result("sql_util", "anon_map: all access sequences of length <= 4 over 3 keys x {[], get_anon, in, get}; prefix_anon_map: all sequences of length <= 4 over "
                                "5 keys of 2 names; 14 statements with anonymous labels / binds compiled on 3 dialects + cache keys", True)
    objs = [object(), object(), object()]
    acts = [("getitem", 0), ("getitem", 1), ("getitem", 2), ("get_anon", 0), ("get_anon", 1), ("contains", 0), ("get", 2), ("getitem", "k")]
    for n in range(1, 5):
        for seq in itertools.product(range(len(acts)), repeat=n):
            res.evaluations += 1
            am = su.anon_map()
            model, nxt = {}, 0
            trace = []
            bad = None
            for ai in seq:
                kind, k = acts[ai]
                key = id(objs[k]) if isinstance(k, int) else k
                if kind == "getitem":
                    e, v = _outcome(lambda: am[key])
                    if key not in model:
                        model[key] = nxt
                        nxt += 1
                    want = (None, model[key])
                elif kind == "get_anon":
                    e, v = _outcome(lambda: am.get_anon(objs[k]))
                    seen = key in model
                    if not seen:
                        model[key] = nxt
                        nxt += 1
                    want = (None, (model[key], seen))
                elif kind == "contains":
                    e, v = _outcome(lambda: key in am)
                    want = (None, key in model)
                else:
                    e, v = _outcome(lambda: am.get(key, "dflt"))
                    want = (None, model.get(key, "dflt"))
                trace.append((e, v))
                if (e, v) != want and bad is None:
                    bad = f"step {len(trace) - 1} {kind}: got {(e, v)}, contract {want}"
            if dict(am) != model and bad is None:
                bad = f"final map {dict(am)} != {model}"
            if n > 1:
                res.nontrivial += 1
            res.record(json.dumps(["sql_util", "anon_map", list(seq)]), repr(trace))
            if bad:
                res.fails.append(CC.Fail("anon_map", "spec", dict(section="sql_util", impl=impl, actions=[list(acts[a]) for a in seq]), bad))
    pkeys = ["1 a", "2 a", "3 b", "1 a b", "4 b"]
    for n in range(1, 5):
        for seq in itertools.product(range(len(pkeys)), repeat=n):
            res.evaluations += 1
            pm = su.prefix_anon_map()
            counters, names, trace, bad = {}, {}, [], None
            for ki in seq:
                key = pkeys[ki]
                e, v = _outcome(lambda: pm[key])
                if key not in names:
                    derived = key.split(" ", 1)[1]
                    c = counters.get(derived, 1)
                    counters[derived] = c + 1
                    names[key] = f"{derived}_{c}"
                trace.append((e, v))
                if (e, v) != (None, names[key]) and bad is None:
                    bad = f"step {len(trace) - 1} [{key!r}]: got {(e, v)}, contract {names[key]!r}"
            if n > 1:
                res.nontrivial += 1
            res.record(json.dumps(["sql_util", "prefix_anon_map", list(seq)]), repr(trace))
            if bad:
                res.fails.append(CC.Fail("prefix_anon_map", "spec", dict(section="sql_util", impl=impl, keys=[pkeys[k] for k in seq]), bad))
    e, v = _outcome(lambda: su.prefix_anon_map()["nospace"])
    res.record(json.dumps(["sql_util", "prefix_anon_map", "nospace"]), repr(e))
    md = MetaData()
    a = Table("a", md, Column("id", Integer), Column("x", String))
    b = Table("b", md, Column("id", Integer), Column("a_id", Integer))
    sq = select(a.c.id, func.count(b.c.id)).join(b, a.c.id == b.c.a_id).group_by(a.c.id).subquery()
    stmts = [select(a.c.id + 1, a.c.id + 2), select(func.count(a.c.id), func.max(a.c.x)), select(a).where(a.c.id == 5).where(a.c.x == "q"),
             select(a.alias().c.id, a.alias().c.id), select(sq), select(a.c.id).where(a.c.id.in_([1, 2, 3])), select(literal(1), literal("x"), literal(1)),
             select(a.c.id.label(None), a.c.x.label(None)), select(a.c.id).where(a.c.id == bindparam(None, 7)).union(select(b.c.id).where(b.c.id == 9)),
             select(func.coalesce(a.c.x, "z"), func.coalesce(a.c.x, "y")), select(a.c.id).order_by(a.c.id + 1).limit(5).offset(2),
             select(select(a.c.id).where(a.c.id == b.c.a_id).scalar_subquery(), b.c.id), select(a.join(b, a.c.id == b.c.a_id).alias()), select(a.c.id.cast(String) + "x")]
    for si, st in enumerate(stmts):
        for dn, d in (("sqlite", sqlite.dialect()), ("postgresql", postgresql.dialect()), ("mysql", mysql.dialect())):
            res.evaluations += 1
            res.nontrivial += 1
            e, c = _outcome(lambda: st.compile(dialect=d))
            sql1 = None if e else (str(c), sorted((k, repr(v)) for k, v in c.params.items()))
            e2, c2 = _outcome(lambda: st.compile(dialect=d))
            sql2 = None if e2 else (str(c2), sorted((k, repr(v)) for k, v in c2.params.items()))
            res.record(json.dumps(["sql_util", "compile", si, dn]), repr((e, sql1)))
            if (e, sql1) != (e2, sql2):
                res.fails.append(CC.Fail("prefix_anon_map (compile)", "deterministic", dict(section="sql_util", impl=impl, statement=si, dialect=dn), f"two compilations differ: {sql1} / {sql2}"))
        k1, k2 = st._generate_cache_key(), st._generate_cache_key()
        res.evaluations += 1
        # object ids inside the key differ between processes: compare its shape only
        shape = repr(type(k1).__name__) + ":" + str(len(k1.key)) + ":" + str(len(k1.bindparams))
        res.record(json.dumps(["sql_util", "cache_key", si]), shape)
        if k1 != k2:
            res.fails.append(CC.Fail("anon_map (cache key)", "deterministic", dict(section="sql_util", impl=impl, statement=si), "two cache keys of one statement differ"))
    res.samples.append(dict(statement="select(a.c.id + 1, a.c.id + 2)", sqlite=str(stmts[0].compile(dialect=sqlite.dialect()))))
    return [res]


SECTIONS = dict(collections=sec_collections, immutabledict=sec_immutabledict, processors=sec_processors, engine_util=sec_engine_util, row=sec_row,
                result=sec_result, cursor_result=sec_cursor_result, sql_util=sec_sql_util)


# =============================================================================================== worker
def worker_main(argv):
    mode, tier, sections, out = argv[0], argv[1], argv[2].split(","), argv[3]
    from rtc import cymods
    if mode == "pure":
        cymods.force_pure_imports()
    import warnings
    warnings.simplefilter("ignore")
    import sqlalchemy
    state = cymods.compiled_state()
    doc = dict(mode=mode, sqlalchemy=sqlalchemy.__file__, compiled_state=state, sections={})
    if mode == "pure" and any(state.values()):
        doc["error"] = f"pure mode but compiled modules were imported: {[k for k, v in state.items() if v]}"
    for sec in sections:
        t0 = time.time()
        try:
            results = SECTIONS[sec](tier, mode)
            # outcomes go to a sorted text file next to the report; the parent compares digests and only parses on a mismatch
            lines = sorted(k + "\t" + v.replace("\n", "\\n") for r in results for k, v in (r.outcomes or {}).items())
            blob = "\n".join(lines).encode("utf-8", "backslashreplace")
            with open(out + "." + sec + ".tsv", "wb") as f:
                f.write(blob)
            # at most 40 failures per (function, clause) travel to the parent, with the true count
            per, kept = {}, []
            for r in results:
                for fl in r.fails:
                    key = (fl.function, fl.clause)
                    per[key] = per.get(key, 0) + 1
                    if per[key] <= 40:
                        kept.append(fl.as_dict())
            doc["sections"][sec] = dict(
                wall_s=round(time.time() - t0, 2),
                suites=[dict(r.summary(), samples=r.samples[:3]) for r in results],
                fails=kept, fail_counts=[[k[0], k[1], v] for k, v in per.items()],
                outcomes_count=len(lines), outcomes_sha256=hashlib.sha256(blob).hexdigest())
        except Exception as e:      # noqa: BLE001
            import traceback
            doc["sections"][sec] = dict(error=f"{type(e).__name__}: {e}", traceback=traceback.format_exc()[-1500:])
    with open(out, "w") as f:
        json.dump(doc, f, default=repr)


# =============================================================================================== parent
def _spawn(mode, tier, sections, out):
    root = os.path.dirname(os.path.dirname(os.path.abspath(__file__)))
    env = dict(os.environ)
    env.setdefault("PYTHONHASHSEED", "0")
    return subprocess.Popen([sys.executable, "-c", "import sys; from checks import C55; C55.worker_main(sys.argv[1:])", mode, tier, ",".join(sections), out],
                            cwd=root, env=env, stdout=subprocess.PIPE, stderr=subprocess.PIPE, text=True)


def plan():
    from rtc import cymods
    fresh = {m: cymods.freshness(m) for m in cymods.CY_MODULES}
    compiled_sections = [s for s, mods in SECTION_MODULES.items() if all(fresh[m]["status"] == "fresh" for m in mods)]
    return fresh, compiled_sections


def _load_tsv(path):
    out = {}
    with open(path, encoding="utf-8") as f:
        for line in f.read().split("\n"):
            if line:
                k, _, v = line.partition("\t")
                out[k] = v
    return out


def run_modes(tier, sections_pure, sections_compiled, timeout, diff_sections=()):
    """-> {mode: report}; reports of both modes get ['sections'][sec]['diff'] = [(case key, pure outcome, compiled outcome)] for diff_sections"""
    docs = {}
    with tempfile.TemporaryDirectory() as td:
        procs = {}
        for mode, secs in (("pure", sections_pure), ("compiled", sections_compiled)):
            if secs:
                procs[mode] = (_spawn(mode, tier, secs, os.path.join(td, mode + ".json")), os.path.join(td, mode + ".json"))
        for mode, (p, path) in procs.items():
            try:
                _o, err = p.communicate(timeout=timeout)
            except subprocess.TimeoutExpired:
                p.kill()
                docs[mode] = dict(error=f"worker timed out after {timeout}s")
                continue
            if p.returncode != 0 or not os.path.exists(path):
                docs[mode] = dict(error=f"worker exit {p.returncode}: {err[-800:]}")
                continue
            docs[mode] = json.load(open(path))
        if "pure" in docs and "compiled" in docs and not docs["pure"].get("error") and not docs["compiled"].get("error"):
            for sec in diff_sections:
                ps, cs = docs["pure"]["sections"].get(sec, {}), docs["compiled"]["sections"].get(sec, {})
                if "outcomes_sha256" not in ps or "outcomes_sha256" not in cs:
                    continue
                diff = []
                if ps["outcomes_sha256"] != cs["outcomes_sha256"]:
                    po, co = _load_tsv(os.path.join(td, "pure.json." + sec + ".tsv")), _load_tsv(os.path.join(td, "compiled.json." + sec + ".tsv"))
                    for k in sorted(set(po) | set(co)):
                        if po.get(k) != co.get(k):
                            diff.append((k, po.get(k), co.get(k)))
                ps["diff"] = diff
    return docs


def run(run, tier, seed, args):
    fresh, compiled_sections = plan()
    all_sections = list(SECTIONS)
    docs = run_modes(tier, all_sections, compiled_sections, 240 if tier == "quick" else 1500, diff_sections=compiled_sections)
    for mode, d in docs.items():
        if d.get("error"):
            run.crashes.append(f"{mode} worker: {d['error']}")
        for sec, sd in d.get("sections", {}).items():
            if sd.get("error"):
                run.crashes.append(f"{mode} worker, section {sec}: {sd['error']} {sd.get('traceback', '')[-400:]}")
    pure, comp = docs.get("pure", {}), docs.get("compiled", {})
    if comp and not comp.get("error"):
        for sec in compiled_sections:
            for m in SECTION_MODULES[sec]:
                if not comp["compiled_state"].get(m):
                    run.crashes.append(f"compiled worker: {m} reported fresh but _is_compiled() is False")
    fails = []                  # (impl, function, clause, input, detail)
    fail_counts = {}
    evaluations = nontrivial = 0
    suites, samples = [], []
    for mode, d in (("pure", pure), ("compiled", comp)):
        for sec, sd in d.get("sections", {}).items():
            if sd.get("error"):
                continue
            for s in sd["suites"]:
                evaluations += s["evaluations"]
                nontrivial += s["distinct_nontrivial"]
                samples += [dict(x, build=mode) for x in s.pop("samples", [])[:1]] if mode == "pure" else []
                suites.append(dict(s, build=mode, section=sec, wall_s=sd["wall_s"]))
            for f in sd["fails"]:
                fails.append((mode, f["function"], f["clause"], f["input"], f["detail"]))
            for fn_, cl_, cnt in sd.get("fail_counts", []):
                fail_counts[(mode, fn_, cl_)] = cnt
    # cross-build comparison of every case evaluated on both builds
    compared = differ = 0
    for sec in compiled_sections:
        ps = pure.get("sections", {}).get(sec, {})
        cs = comp.get("sections", {}).get(sec, {})
        if "diff" not in ps:
            continue
        if ps["outcomes_count"] != cs["outcomes_count"]:
            run.crashes.append(f"section {sec}: the two builds evaluated different case sets ({ps['outcomes_count']} vs {cs['outcomes_count']})")
        compared += min(ps["outcomes_count"], cs["outcomes_count"])
        for k, a, b in ps["diff"]:
            if a is None or b is None:
                continue
            differ += 1
            case = json.loads(k)
            fails.append(("both", f"{sec}: {case[0]}", "builds-differ", dict(section=sec, case=case), f"pure: {a[:300]} | compiled: {b[:300]}"))
    known, new = {}, {}
    for impl, function, clause, inp, detail in fails:
        k = run.match_known(function=function, clause=clause, input=json.dumps(inp, sort_keys=True, default=repr), impl=impl)
        if k is not None:
            ent = known.setdefault(k["what"], [k, 0, set(), (function, inp, detail)])
            ent[1] += 1
            ent[2].add(impl)
        else:
            new.setdefault((function, clause, impl), []).append((inp, detail))
    for what, (k, cnt, impls, (function, inp, detail)) in known.items():
        cnt = sum(v for (m_, f_, c_), v in fail_counts.items() if run.match_known(function=f_, clause=c_, input=json.dumps(inp, sort_keys=True, default=repr)) is k) or cnt
        run.known_finding(k, f"{cnt} failing cases on {'+'.join(sorted(impls))}, e.g. {function} {json.dumps(inp.get('op', inp), default=repr)[:120]}: {detail[:140]}")
    for (function, clause, impl), lst in sorted(new.items()):
        inp, detail = min(lst, key=lambda t: len(json.dumps(t[0], default=repr)))
        run.violation(f"{function}-{clause}-{impl}", dict(function=function, clause=clause, impl=impl, input=inp, detail=detail, failing_inputs_in_this_class=len(lst),
                                                           reason="contract failed on one build / the two builds disagree"))
    not_eval = {m: f"{f['status']}: {f['detail']}" for m, f in fresh.items() if f["status"] != "fresh"}
    run.coverage.update(
        evaluations=evaluations, distinct_nontrivial=nontrivial, exhaustive=True,
        rule="every case of each section's finite scope is enumerated once per build (distinct by construction); non-trivial by the section's rule "
             "(the call raised / changed state / returned a non-empty result; rows were delivered; the access sequence has more than one step); "
             "cases evaluated on both builds are additionally compared pairwise",
        scope="; ".join(f"[{s['section']}/{s['suite']}] {s['scope']}" for s in suites if s["build"] == "pure"),
        sections_on_pure=all_sections, sections_on_compiled=compiled_sections, cross_build_cases_compared=compared, cross_build_differences=differ,
        compiled_not_evaluated=not_eval, freshness={m: f["status"] for m, f in fresh.items()}, suites=suites, samples=samples[:10],
        contract_failures=sum(fail_counts.values()) + differ, sqlalchemy=pure.get("sqlalchemy"))
    run.assumptions += [
        "the compiled side is evaluated only for modules whose Cython-generated .c embeds exactly the current source lines (DESIGN 2.5); "
        + ("all seven extensions are fresh in this tree" if not not_eval else "NOT evaluated on the compiled side: " + "; ".join(f"{m} ({v})" for m, v in not_eval.items())),
        "the .so is assumed to be the build product of the .c next to it (same mtime order); no Cython is installed to rebuild it",
        "contracts of the result / cursor_result sections are the list model and the prefix property; the complete C10 contract lives in C10",
        "hash randomisation is fixed (PYTHONHASHSEED=0) in both worker processes so that set iteration order is comparable",
    ]
    if not compiled_sections:
        run.assumptions.append("no fresh compiled extension exists: the claim reduces to the pure side (counts cover only what ran)")
    if evaluations < 1000:
        run.crashes.append(f"vacuity guard: only {evaluations} evaluations")


def replay(data):
    """re-run the recorded case in a fresh worker per build and print what happens now"""
    inp = data["input"]
    sec = inp.get("section") or ("immutabledict" if inp.get("cls") in ("immutabledict", "ImmutableDictBase") else "collections")
    fresh, compiled_sections = plan()
    modes = ["pure"] + (["compiled"] if sec in compiled_sections else [])
    docs = run_modes(data.get("tier", "quick"), [sec], [sec] if "compiled" in modes else [], 600, diff_sections=[sec] if "compiled" in modes else [])
    failing = []
    for mode, d in docs.items():
        if d.get("error") or d.get("sections", {}).get(sec, {}).get("error"):
            print(f"REPLAY-ERROR {mode}: {d.get('error') or d['sections'][sec]['error']}")
            return 3
        for f in d["sections"][sec]["fails"]:
            if f["function"] == data["function"] and {k: v for k, v in f["input"].items() if k != "impl"} == {k: v for k, v in inp.items() if k != "impl"}:
                failing.append((mode, f["clause"], f["detail"]))
    if data.get("clause") == "builds-differ" and len(docs) == 2:
        for k, a, b in docs["pure"]["sections"][sec].get("diff", []):
            if json.loads(k) == inp["case"]:
                failing.append(("both", "builds-differ", f"pure {a} | compiled {b}"))
    if failing:
        for mode, clause, detail in failing:
            print(f"REPLAY-FAILS {data['function']} build={mode} clause={clause} input={json.dumps(inp, default=repr)[:300]} :: {detail[:300]}")
        return 1
    print(f"REPLAY-PASSES {data['function']} on builds {modes} input={json.dumps(inp, default=repr)[:300]}")
    return 0
