"""C23 — connection transactions and savepoints have nested-transaction semantics: the context-manager protocol
(engine/util.py::TransactionalContext.__enter__/__exit__/_trans_ctx_check) under proof — the link to the enclosing transaction is
restored on every path — and the operation-sequence exploration on SQLite (checks/C23_explore.py) as the bounded complement."""
import contracts.transaction_ctx  # noqa: F401
import contracts.transaction_root  # noqa: F401
import contracts.transaction_nested  # noqa: F401
from pyvc.contract import FUNCS
from vlib.proof import run_proofs
from checks import C23_explore

LEVEL = "proof"
KEYS = [k for k, c in FUNCS.items() if "C23" in c.props and c.proof and not c.abstract]
replay = C23_explore.replay


def run(run, tier, seed, args):
    run_proofs(run, KEYS, tier, update_baseline=args.update_baseline, source_root=args.source_root)
    proof_cov = {k: run.coverage[k] for k in ("obligations", "discharged", "functions_under_contract", "samples", "checker_cmd", "trusted_base", "backends", "solver_ms_total")}
    if not args.source_root:
        C23_explore.run(run, tier, seed, args)
        # keep the exploration's own counters as a labelled block, the proof counters on top
        expl = {k: run.coverage.get(k) for k in ("evaluations", "distinct_nontrivial", "rule", "scope", "exhaustive")}
        run.coverage.setdefault("bounded", []).append(dict(expl, label="bounded (not proof)", function="Connection / Transaction operation sequences (checks/C23_explore.py)"))
        run.coverage["samples_exploration"] = run.coverage.get("samples")
    run.coverage.update(proof_cov)
    run.assumptions += [
        "abstract contracts for commit / rollback / close / _transaction_is_active / _transaction_is_closed / _rollback_can_be_called of the concrete transaction classes: they may change the transaction's own state and may raise; they do not touch the context-manager links",
        "under proof: TransactionalContext.__enter__, __exit__ (26 paths), _trans_ctx_check; RootTransaction.__init__/_close_impl/_do_commit/_do_close/_do_rollback/_deactivate_from_connection and Transaction.close/rollback/commit on a root and on a savepoint handle (the `assert not self.is_active` of their finally blocks is discharged on every exit); NestedTransaction.__init__ (pushing keeps the chain well formed; a failing SAVEPOINT leaves the stack as it was)/_deactivate_from_connection/_cancel (recursive, over a ghost chain of savepoint handles)/_close_impl/_do_commit. Connection.begin (refused while a transaction object exists), commit, rollback, in_transaction are under proof; begin_nested/_autobegin and the savepoint SQL are in the bounded complement",
        "NestedTransaction._cancel: the ghost parameter `chain` is the list of handles linked by _previous_nested (acyclic, one connection): well-formedness is established by __init__ (proved: head linked to the old head, same connection, not a member of the old chain) and assumed at the call from RootTransaction; the recursion is checked against its own contract (partial correctness)",
    ]
