"""C21 (bounded complement, not proof) — generated and truncated names are bounded by the dialect's maximum identifier
length, deterministic across compilations, unique within a statement.

Real functions driven (in /repo): naming-convention expansion (`sql/naming.py` ConventionDict via MetaData(naming_convention=)),
`IdentifierPreparer.truncate_and_render_index_name / truncate_and_render_constraint_name /
_truncate_and_render_maxlen_name`, `DDLCompiler` (CreateTable / CreateIndex / AddConstraint), and for labels / binds
`SQLCompiler._truncated_identifier`, `_truncate_bindparam` through `select(...).compile(dialect=d)`.

Contract clauses evaluated on every case
  N1 bound        len(rendered constraint / index name) <= (max_constraint_name_length | max_index_name_length) or
                  max_identifier_length of the dialect — or the documented IdentifierError for a non-convention name
  N2 determinism  the same construct built and compiled twice (fresh MetaData, fresh dialect) renders the same name
  N3 distinct     two different convention names in one MetaData (same long prefix, different tail) render differently
  N4 in-DDL       the DDL text contains exactly that (quoted) name
  L0 compiles     the label / bind statements compile (a CompileError would be e.g. two binds truncated to one name)
  L1 bound        every generated label in the result map (anonymous, table-qualified, de-duplicated; not a label the
                  user spelled out, which is rendered as given) and every bind name has len <= label_length (or
                  max_identifier_length)
  L2 distinct     distinct select-list expressions get distinct result names; distinct binds get distinct names
  L3 determinism  two compilations give the same SQL text

Select lists with colliding names and repeated entries (`SelectsRows._generate_columns_plus_names`: anonymous `name_N`, table-
qualified and de-duplicating `name__N` labels).  Scope: ALL select lists of length 1..4 (thorough: 1..5) over a pool of elements
that collide in every way the function distinguishes — two tables' columns of one name (a.id, b.id, a_b.id), columns whose
table-qualified labels coincide (a.b_id / a_b.id), an annotated copy of a column (same hash), anonymous expressions (a.x + 1,
a.id + 1, foo(a.x)), a wrapped column (CAST(a.x)), a user-spelled label equal to a column name — every element may occur any
number of times at any position; x the three label styles (DISAMBIGUATE_ONLY, TABLENAME_PLUS_COL, NONE) x {short names on the
default dialect, 11..14-character names with label_length=10 so that every generated label is also truncated}.  Clauses, on
`compiled._result_columns` of the real compilation:
  S0 compiles     the statement compiles
  S1 bound        a generated label (rendered name != the element's own name / table-qualified name / user label) has
                  len <= label_length
  S2 distinct     a generated label is not the name of any other entry of the same columns clause (LABEL_STYLE_NONE does not
                  de-duplicate: there another occurrence of the very same element may repeat its anonymous label); under the two
                  label-generating styles two entries may share a name only if neither name is generated and one of them is
                  a label the user spelled out
  S3 determinism  the same select list built from a second, independently built pool compiles to the same SQL text

`bounded(run, tier, seed)` appends ONE block to run.coverage["bounded"] and reports through `run`.
"""
import hashlib
import json
import warnings

from rtc import corpus as C

FAMILIES = ("default", "sqlite", "postgresql", "mysql", "mariadb", "mssql", "oracle")
USER_MAX = (6, 7, 8, 9, 12, 30)
TEMPLATES = {
    "ix": ["ix_%(column_0_label)s", "ix_%(table_name)s_%(column_0_N_name)s", "%(column_0N_key)s_idx"],
    "uq": ["uq_%(table_name)s_%(column_0_name)s", "uq_%(table_name)s_%(column_0_N_label)s"],
    "ck": ["ck_%(table_name)s_%(constraint_name)s", "ck_%(table_name)s_%(column_0_name)s"],
    "fk": ["fk_%(table_name)s_%(column_0_name)s_%(referred_table_name)s", "fk_%(table_name)s_%(column_0_N_key)s_%(referred_column_0_N_name)s"],
    "pk": ["pk_%(table_name)s", "pk_%(table_name)s_%(column_0_name)s"],
}


def _dialect(family, max_ident=None, label_length=None):
    import importlib
    kw = {}
    if max_ident:
        kw["max_identifier_length"] = max_ident
    if label_length:
        kw["label_length"] = label_length
    if family == "default":
        from sqlalchemy.engine import default
        return default.DefaultDialect(**kw)
    if family == "mariadb":
        return importlib.import_module("sqlalchemy.dialects.mysql").dialect(is_mariadb=True, **kw)
    return importlib.import_module("sqlalchemy.dialects." + family).dialect(**kw)


def _limits(d):
    return dict(ix=d.max_index_name_length or d.max_identifier_length, con=d.max_constraint_name_length or d.max_identifier_length, ident=d.max_identifier_length)


def _tname(n):
    return ("tbl_" + "t" * n)[:max(n, 1)]


def naming_meta(kind, template, tlen, explicit=None):
    """metadata descriptor: table <tlen chars> with two sibling constraints / indexes of `kind` whose convention names share
    a long prefix and differ in the tail; parent table for the FK"""
    t = _tname(tlen)
    cols = [["id", ["Integer"], {"primary_key": True}], ["col_a", ["Integer"]], ["col_b", ["Integer"]]]
    cons = []
    if kind == "ix":
        cons = [["index", ["col_a"], explicit], ["index", ["col_b"], None]]
    elif kind == "uq":
        cons = [["unique", ["col_a"], explicit], ["unique", ["col_b"], None]]
    elif kind == "ck":
        cons = [["check", "col_a > 0", explicit or "pos_a"], ["check", "col_b > 0", "pos_b"]] if "constraint_name" in template else [["check", sa_col("col_a"), explicit], ["check", sa_col("col_b"), None]]
    elif kind == "fk":
        cons = [["fk", ["col_a"], ["parent.id"], explicit], ["fk", ["col_b"], ["parent.id"], None]]
    naming = {kind: template}
    if kind == "ck" and "constraint_name" not in template:
        # column_0_name of a CHECK needs a column-bound SQL expression: use a Boolean-typed column instead (generates a CHECK on non-native-boolean dialects)
        cols = [["id", ["Integer"], {"primary_key": True}], ["col_a", ["Boolean"]], ["col_b", ["Boolean"]]]
        cons = []
    return {"naming": naming, "tables": [{"name": "parent", "cols": [["id", ["Integer"], {"primary_key": True}]]}, {"name": t, "cols": cols, "cons": cons}]}


def sa_col(n):
    return n + " > 0"


def naming_cases(tier):
    out = []
    for fam in FAMILIES:
        variants = [None] + (list(USER_MAX) if fam in ("default", "postgresql", "oracle") or tier != "quick" else [6, 8, 30])
        for mx in variants:
            lim = _limits(_dialect(fam, mx))
            for kind, templates in TEMPLATES.items():
                m = lim["ix"] if kind == "ix" else lim["con"]
                if m >= 9999:
                    tls = [5, 300]
                else:
                    offs = (-24, -16, -12, -10, -9, -8, -7, -6, -5, -4, -3, -2, -1, 0, 1, 2, 30) if tier == "quick" else tuple(range(-40, 4)) + (30, 200)
                    tls = sorted({max(1, m + o) for o in offs})
                for template in templates:
                    for tl in tls:
                        out.append(dict(kind="naming", family=fam, max_ident=mx, con=kind, template=template, tlen=tl))
            # explicit (non-convention) names around the limit
            for kind in ("ix", "uq"):
                m = lim["ix"] if kind == "ix" else lim["con"]
                if m < 9999:
                    for n in (m - 1, m, m + 1):
                        out.append(dict(kind="naming", family=fam, max_ident=mx, con=kind, template="x", tlen=5, explicit="n" * n))
    return out


def _named_objects(meta, con, tname):
    from sqlalchemy import UniqueConstraint, CheckConstraint, ForeignKeyConstraint
    tbl = meta.tables[tname]
    if con == "ix":
        return sorted(tbl.indexes, key=lambda i: [c.name for c in i.columns])
    if con == "pk":
        return [tbl.primary_key]
    cls = {"uq": UniqueConstraint, "ck": CheckConstraint, "fk": ForeignKeyConstraint}[con]
    return sorted([c for c in tbl.constraints if type(c) is cls or (con == "ck" and isinstance(c, CheckConstraint))], key=lambda c: str(c.name) + str(sorted(col.name for col in c.columns)))


def eval_naming(case):
    """(n evaluations, failures[(clause, detail)], rendered names)"""
    from sqlalchemy import exc
    from sqlalchemy.schema import CreateTable, CreateIndex, AddConstraint
    fails, names_out, n = [], [], 0
    md = naming_meta(case["con"], case["template"], case["tlen"], case.get("explicit"))
    tname = md["tables"][1]["name"]
    runs = []
    for rep in range(2):
        d = _dialect(case["family"], case["max_ident"])
        lim = _limits(d)
        meta = C.build_meta(md)
        prep = d.identifier_preparer
        got = []
        for obj in _named_objects(meta, case["con"], tname):
            isix = case["con"] == "ix"
            try:
                with warnings.catch_warnings():
                    warnings.simplefilter("ignore")
                    raw = (prep.truncate_and_render_index_name if isix else prep.truncate_and_render_constraint_name)(obj.name, _alembic_quote=False) if obj.name is not None else None
                    rendered = prep.format_index(obj) if isix else prep.format_constraint(obj)
                    ddl = str((CreateIndex(obj) if isix else (CreateTable(obj.table) if case["con"] in ("pk",) else AddConstraint(obj))).compile(dialect=d))
            except exc.IdentifierError:
                got.append(("IdentifierError", None, None, str(obj.name)))
                continue
            except C.DOCUMENTED as e:
                got.append((type(e).__name__, None, None, str(obj.name)))
                continue
            got.append((raw, rendered, ddl, str(obj.name)))
        runs.append((got, lim))
    got, lim = runs[0]
    m = lim["ix"] if case["con"] == "ix" else lim["con"]
    for raw, rendered, ddl, src in got:
        if rendered is None and raw in ("IdentifierError",):
            n += 1
            if case.get("explicit") is None or len(src) <= lim["ident"]:
                fails.append(("N1_bound", "IdentifierError for %r (len %d, max_identifier_length %d) which is %s" % (src[:40], len(src), lim["ident"],
                                                                                                                  "a convention name" if case.get("explicit") is None else "within the limit")))
            continue
        if raw is None or rendered is None:
            continue
        n += 2
        names_out.append(raw)
        if len(raw) > m:
            fails.append(("N1_bound", "rendered name %r has %d characters, limit %d (source name %d characters)" % (raw, len(raw), m, len(src))))
        if rendered not in ddl:
            fails.append(("N4_in_ddl", "name %r not found in DDL %r" % (rendered, ddl[:200])))
    n += 1
    if [g[:3] for g in runs[0][0]] != [g[:3] for g in runs[1][0]]:
        fails.append(("N2_determinism", "two builds render %r and %r" % ([g[0] for g in runs[0][0]], [g[0] for g in runs[1][0]])))
    raws = [g[0] for g in got if g[1] is not None]
    srcs = [g[3] for g in got if g[1] is not None]
    if len(raws) > 1:
        n += 1
        if len(set(srcs)) == len(srcs) and len(set(raws)) != len(raws):
            fails.append(("N3_distinct", "different source names %r render to the same name %r" % ([s[-12:] for s in srcs], raws)))
    return n, fails, names_out


# ------------------------------------------------------------------------------------------------ labels / binds
def label_cases(tier):
    out = []
    fams = ("default", "postgresql", "oracle", "mysql") if tier == "quick" else FAMILIES
    for fam in fams:
        base_max = _dialect(fam).max_identifier_length
        settings = [(None, None)] + [(None, ll) for ll in (6, 7, 10, 30)] + [(mx, None) for mx in (8, 12, 30)]
        for mx, ll in settings:
            eff = ll or mx or base_max
            lens = [5, 300] if eff >= 9999 else sorted({max(1, eff + o) for o in ((-7, -6, -5, -2, -1, 0, 1, 2, 40) if tier == "quick" else tuple(range(-10, 4)) + (40, 500))})
            for n_ in lens:
                for shape in ("labels", "tcol_subquery", "binds", "many"):
                    out.append(dict(kind="label", family=fam, max_ident=mx, label_length=ll, n=n_, shape=shape))
    return out


def label_stmt(case):
    n_ = case["n"]
    L = "l" * n_
    if case["shape"] == "labels":
        return {"k": "select", "cols": [["label", C.AX, L + "a"], ["label", C.AID, L + "b"], ["label", ["op", "+", C.AX, 1], L + "c"], ["op", "+", C.AID, 2]]}
    if case["shape"] == "tcol_subquery":
        inner = {"k": "select", "cols": [["label", C.AX, L + "a"], ["label", C.AID, L + "b"]]}
        return {"k": "select", "cols": [["tbl", "sq" + L]], "from": [["subq", inner, "sq" + L]], "label_style": "tcol"}
    if case["shape"] == "binds":
        return {"k": "select", "cols": [C.AID], "where": [["op", "==", ["col", L + "a", ["Integer"]], 5], ["op", "==", ["col", L + "b", ["Integer"]], 6], ["op", ">", ["col", L + "a", ["Integer"]], 7],
                                                           ["in", ["col", L + "b", ["Integer"]], [1, 2]]]}
    cols = [["label", ["op", "+", C.AX, i], L + "%02d" % i] for i in range(20)]
    return {"k": "select", "cols": cols, "where": [["op", "==", ["col", L + "%02d" % i, ["Integer"]], i] for i in range(20)]}


def eval_label(case):
    fails, names, n = [], [], 0
    desc = label_stmt(case)
    texts = []
    comp = None
    for rep in range(2):
        d = _dialect(case["family"], case["max_ident"], case["label_length"])
        stmt = C.build(desc)
        try:
            with warnings.catch_warnings():
                warnings.simplefilter("ignore")
                comp = stmt.compile(dialect=d)
                texts.append(str(comp))
        except C.DOCUMENTED as e:
            # these SELECTs are plain and compile on every dialect; a CompileError here is e.g. two binds truncated to one name
            return 1, [("L0_compiles", "%s: %s" % (type(e).__name__, str(e)[:200]))], []
    d = comp.dialect
    eff = d.label_length or d.max_identifier_length
    rnames = [rc.keyname for rc in comp._result_columns]
    bnames = list(comp.bind_names.values())
    explicit = set()

    def walk(x):
        if isinstance(x, list):
            if x and x[0] == "label":
                explicit.add(x[2])
            for y in x:
                walk(y)
        elif isinstance(x, dict):
            for y in x.values():
                walk(y)
    walk(desc["cols"])
    for what, lst in (("result label", rnames), ("bind name", bnames)):
        for nm in lst:
            n += 1
            names.append(str(nm))
            if str(nm) in explicit:
                continue        # a label the user spelled out is rendered as given (not a generated / truncated name)
            if len(str(nm)) > eff:
                fails.append(("L1_bound", "%s %r has %d characters, limit %d" % (what, str(nm)[:60], len(str(nm)), eff)))
        n += 1
        if len(set(lst)) != len(lst):
            fails.append(("L2_distinct", "%ss collide: %r" % (what, sorted(x for x in set(lst) if lst.count(x) > 1)[:3])))
    n += 1
    if texts[0] != texts[1]:
        fails.append(("L3_determinism", "two compilations differ: %r vs %r" % (texts[0][:200], texts[1][:200])))
    return n, fails, names


# ------------------------------------------------------------------------------------------------ select lists (name collisions / repeats)
SEL_STYLES = ("dis", "tq", "none")
SEL_CONFIGS = {"short": ("", None), "long": ("l" * 10, 10)}      # name prefix, label_length
_POOLS = {}


def sel_pool(config, rep=0):
    """element key -> (element, own name, table-qualified name, user-spelled label?); built once per process, `rep` = an
    independent second build (determinism clause).  The SAME element object is used for every occurrence of a key."""
    if (config, rep) not in _POOLS:
        from sqlalchemy import Column, Integer, MetaData, Table, cast, func
        pfx = SEL_CONFIGS[config][0]
        m = MetaData()
        a = Table("a", m, Column(pfx + "id", Integer), Column(pfx + "x", Integer), Column("b_" + pfx + "id", Integer))
        b = Table("b", m, Column(pfx + "id", Integer))
        ab = Table("a_b", m, Column(pfx + "id", Integer))
        aid, ax, abid = a.c[pfx + "id"], a.c[pfx + "x"], a.c["b_" + pfx + "id"]
        _POOLS[(config, rep)] = {
            "a.id": (aid, pfx + "id", "a_" + pfx + "id", False),
            "b.id": (b.c[pfx + "id"], pfx + "id", "b_" + pfx + "id", False),
            "a.x": (ax, pfx + "x", "a_" + pfx + "x", False),
            "a.b_id": (abid, "b_" + pfx + "id", "a_b_" + pfx + "id", False),
            "a_b.id": (ab.c[pfx + "id"], pfx + "id", "a_b_" + pfx + "id", False),
            "a.x+1": (ax + 1, None, None, False),
            "a.id+1": (aid + 1, None, None, False),
            "cast(a.x)": (cast(ax, Integer), pfx + "x", "a_" + pfx + "x", False),
            "a.x.label(id)": (ax.label(pfx + "id"), pfx + "id", pfx + "id", True),
            "annot(a.id)": (aid._annotate({"k": 1}), pfx + "id", "a_" + pfx + "id", False),
            "foo(a.x)": (func.foo(ax), None, None, False),
        }
    return _POOLS[(config, rep)]


SEL_KEYS = ("a.id", "b.id", "a.x", "a.b_id", "a_b.id", "a.x+1", "a.id+1", "cast(a.x)", "a.x.label(id)", "annot(a.id)", "foo(a.x)")
SEL_SAME = {"annot(a.id)": "a.id"}          # an annotated column IS the column (same hash): "the very same element"


def sel_maxlen(tier):
    return 4 if tier == "quick" else 5


def sellist_cases(tier):
    """generator (the thorough tier has ~10**6 select lists)"""
    import itertools
    for config in SEL_CONFIGS:
        for style in SEL_STYLES:
            for L in range(1, sel_maxlen(tier) + 1):
                for seq in itertools.product(SEL_KEYS, repeat=L):
                    yield dict(kind="sellist", config=config, style=style, cols=list(seq))


def n_sellist(tier):
    return len(SEL_CONFIGS) * len(SEL_STYLES) * sum(len(SEL_KEYS) ** L for L in range(1, sel_maxlen(tier) + 1))


def eval_sellist(case):
    from sqlalchemy import select
    from sqlalchemy.sql import LABEL_STYLE_DISAMBIGUATE_ONLY, LABEL_STYLE_NONE, LABEL_STYLE_TABLENAME_PLUS_COL
    style = {"dis": LABEL_STYLE_DISAMBIGUATE_ONLY, "tq": LABEL_STYLE_TABLENAME_PLUS_COL, "none": LABEL_STYLE_NONE}[case["style"]]
    seq = case["cols"]
    fails, n, texts, comp = [], 0, [], None
    for rep in range(2):
        pool = sel_pool(case["config"], rep)
        d = _dialect("default", None, SEL_CONFIGS[case["config"]][1])
        stmt = select(*[pool[k][0] for k in seq]).set_label_style(style)
        try:
            with warnings.catch_warnings():
                warnings.simplefilter("ignore")
                c = stmt.compile(dialect=d)
                texts.append(str(c))
        except C.DOCUMENTED as e:
            return 1, [("S0_compiles", "%s: %s" % (type(e).__name__, str(e)[:200]), None)], [], 0
        comp = comp or c
    pool = sel_pool(case["config"], 0)
    eff = comp.dialect.label_length or comp.dialect.max_identifier_length
    names = [str(rc.keyname) for rc in comp._result_columns]
    n += 1
    if len(names) != len(seq):
        return n, [("S2_distinct", "%d entries in the columns clause but %d result columns %r" % (len(seq), len(names), names), None)], names, 0
    own = [pool[k][2 if case["style"] == "tq" else 1] for k in seq]
    user = [pool[k][3] for k in seq]
    gen = [names[i] != own[i] for i in range(len(seq))]
    ident = [SEL_SAME.get(k, k) for k in seq]
    for i in range(len(seq)):
        if gen[i]:
            n += 1
            if len(names[i]) > eff:
                fails.append(("S1_bound", "generated label %r of entry %d (%s) has %d characters, limit %d" % (names[i], i, seq[i], len(names[i]), eff), None))
        for j in range(i + 1, len(seq)):
            n += 1
            if names[i] != names[j]:
                continue
            if case["style"] == "none":
                ok = ident[i] == ident[j] or not (gen[i] or gen[j])
            else:
                ok = not gen[i] and not gen[j] and (user[i] or user[j])
            if not ok:
                fails.append(("S2_distinct", "entries %d (%s) and %d (%s) of one columns clause share the result name %r: %s" % (i, seq[i], j, seq[j], names[i], texts[0][:200]), [seq[i], seq[j]]))
    n += 1
    if texts[0] != texts[1]:
        fails.append(("S3_determinism", "two builds differ: %r vs %r" % (texts[0][:200], texts[1][:200]), None))
    return n, fails, names, sum(gen)


def evaluate(case):
    if case["kind"] == "sellist":
        n, fails, names, _ = eval_sellist(case)
        return n, [f[:2] for f in fails], names
    return eval_naming(case) if case["kind"] == "naming" else eval_label(case)


def _worker(shard, nshards, tier, seed):
    import random
    cases = naming_cases(tier) + label_cases(tier)
    if seed:
        random.Random(seed).shuffle(cases)
    import itertools
    out = dict(evals=0, failures=[], names=set(), truncated=0, ncases=len(cases), nsel=n_sellist(tier), sel_generated=[0, 0, 0], sel_lists=set(), samples=[], crashes=[])
    for i, case in enumerate(itertools.chain(cases, sellist_cases(tier))):
        if i % nshards != shard:
            continue
        try:
            if case["kind"] == "sellist":
                n, fails3, names, ngen = eval_sellist(case)
                out["evals"] += n
                out["sel_generated"][min(ngen, 2)] += 1
                if ngen:
                    out["sel_lists"].add(hashlib.md5(json.dumps([case["config"], case["style"], names]).encode()).digest()[:8])
                for nm in names:
                    out["names"].add(hashlib.md5(("sellist-" + case["config"] + nm).encode()).digest()[:8])
                for clause, detail, collide in fails3:
                    out["failures"].append(dict(function="%s:sellist.%s" % (clause, case["style"]), input=dict(case, collide=collide) if collide else case, detail=detail, bounded_module="checks.C21_bounded"))
                if ngen >= 2 and len(out["samples"]) < 2 and i % 997 == shard:
                    out["samples"].append(dict(case=case, rendered=names))
                continue
            n, fails, names = evaluate(case)
        except Exception as e:  # noqa: BLE001
            out["crashes"].append("%s on %s: %s" % (type(e).__name__, json.dumps(case), str(e)[:200]))
            continue
        out["evals"] += n
        for nm in names:
            out["names"].add(hashlib.md5((case["family"] + nm).encode()).digest()[:8])
        for clause, detail in fails:
            out["failures"].append(dict(function="%s:%s" % (clause, "naming." + case["con"] if case["kind"] == "naming" else "label." + case["shape"]), input=case, detail=detail, bounded_module="checks.C21_bounded"))
        if len(out["samples"]) < 1 and names and i % 37 == shard:
            out["samples"].append(dict(case=case, rendered=names[:4]))
    out["names"] = list(out["names"])
    out["sel_lists"] = list(out["sel_lists"])
    return out


def bounded(run, tier, seed):
    res = C.shard_run(_worker, 32, (tier, seed))
    names, failures, samples, crashes = set(), [], [], []
    evals = 0
    sel_gen, sel_lists = [0, 0, 0], set()
    for r in res:
        sel_gen = [x + y for x, y in zip(sel_gen, r["sel_generated"])]
        sel_lists.update(r["sel_lists"])
        names.update(r["names"])
        failures += r["failures"]
        samples += r["samples"]
        crashes += r["crashes"]
        evals += r["evals"]
    for c in crashes[:3]:
        run.crashes.append("C21 bounded harness: " + c)
    fc_before = run.coverage.get("failure_classes")
    summary = C.report(run, failures, max_new=10)
    if fc_before is not None:
        run.coverage["failure_classes"] = fc_before
    else:
        run.coverage.pop("failure_classes", None)
    run.coverage.setdefault("bounded", []).append(dict(
        label="bounded (not proof)",
        scope="naming conventions: %d dialect families %s with their own max_identifier_length / max_index_name_length / max_constraint_name_length and user max_identifier_length in %s; "
              "templates %s; table-name lengths placing the generated name from well below to above each limit; two sibling names per table; explicit names at max-1, max, max+1. "
              "labels / binds: label_length in {None, 6, 7, 10, 30}, max_identifier_length in {dialect, 8, 12, 30}; label lengths around the effective limit; shapes {3 long labels + anonymous, "
              "tablename_plus_col over a subquery with a long name, binds from long column names, 20 labels + 20 binds sharing a long prefix}; %d cases. "
              "select lists (label de-duplication, _generate_columns_plus_names): ALL sequences of length 1..%d over the %d elements %s (same element object for every occurrence of a key; "
              "annot(a.id) = annotated copy of a.id) x label styles %s x %s (name prefix, label_length); %d select lists"
              % (len(FAMILIES), list(FAMILIES), list(USER_MAX), json.dumps(TEMPLATES), res[0]["ncases"], sel_maxlen(tier), len(SEL_KEYS), list(SEL_KEYS), list(SEL_STYLES),
                 json.dumps(SEL_CONFIGS), res[0]["nsel"]),
        evaluations=evals,
        distinct_nontrivial=len(names),
        rule="every case builds the construct twice from its descriptor and evaluates N1-N4 / L1-L3 / S0-S3 on the real preparer / compiler; evaluations = clause evaluations; "
             "distinct_nontrivial = distinct (family, rendered name) seen, counted by hash; select lists: non-trivial = the compiler generated a label for at least one entry",
        select_lists=dict(cases=res[0]["nsel"], no_generated_label=sel_gen[0], one_generated_label=sel_gen[1], two_or_more_generated_labels=sel_gen[2],
                          distinct_nontrivial=len(sel_lists), rule="distinct (config, style, rendered names) among the select lists with >= 1 generated label, counted by hash"),
        samples=samples[:3],
        exhaustive=True,
        contract_failures=len(failures),
        failure_classes=summary))
    return summary


def replay(data):
    case = data["input"]
    n, fails, names = evaluate(case)
    cl = data.get("function", "").split(":")[0]
    mine = [f for f in fails if f[0] == cl] or fails
    if mine:
        print("REPLAY-FAILS C21 %s on %s: %s" % (mine[0][0], json.dumps(case), mine[0][1]))
        return 1
    print("REPLAY-PASSES C21 %s: %d clause evaluations hold, names %r" % (json.dumps(case), n, [x[:40] for x in names[:4]]))
    return 0
