"""C10 — bounded complement (class B, *not* proof): Result objects deliver exactly the underlying rows.

Contract (evaluated on the real classes of sqlalchemy.engine.result / engine.cursor; nothing is copied):

  ghost   rem : list of raw rows not yet delivered, seen : set (per unique() call), hard : bool (hard-closed)
  every public fetch method m of Result / ScalarResult / MappingResult (and of the IteratorResult,
  ChunkedIteratorResult, MergedResult, CursorResult subclasses, and of the Result produced by FrozenResult())
      ensures   value(m) == model(m)(rem, seen, projection)   and   rem' == rem minus what was delivered
      ensures   hard  ==>  raises ResourceClosedError
      ensures   first / one / one_or_none / scalar / scalar_one / scalar_one_or_none / close  ==>  hard'
      ensures   result.closed == hard   (after every call)
  inv     delivered ++ rem == initial rows     (checked by a final all() after every sequence)

The list model is the documented behaviour: rows in order, each once; columns()/scalars()/mappings() project;
unique() filters against the rows delivered since it was called (strategy=None: hash of the projected row);
fetchmany(n)/partitions(n) give n objects *after* uniquing; fetchmany(None)/partitions(None) use yield_per if set and
otherwise the source's default size, which is backend-defined: 1 for the sqlite3 cursor (cursor.arraysize), "all" for
buffered strategies and in-memory iterators (stated assumption, taken from the DBAPI / docs, not from the code under
check).  cursor.fetchmany(0) is driver-defined, so fetchmany(0) is exercised only on IteratorResult-based results.

Scope: see `scope` in the coverage block.  Reports through `run` only.
"""
import copy
import json
import multiprocessing
import random
import time
import warnings

LABEL = "bounded (not proof)"

ROWSETS = {
    "e0": [],
    "s1": [[1, "a"]],
    "d2": [[1, "a"], [2, "b"]],
    "dup3": [[1, "a"], [1, "a"], [2, "b"]],
    "dup4": [[1, "a"], [2, "b"], [1, "a"], [3, "c"]],
    "col4": [[1, "a"], [1, "b"], [2, "b"], [1, "a"]],     # duplicates per column differ from duplicates per row
    "unh3": [[1, [1]], [2, [2]], [1, [1]]],               # second column unhashable (JSON -> list), with a duplicate
}
MERGE_ROWS = {False: [[9, "z"], [1, "a"]], True: [[9, [9]], [1, [1]]]}
SOURCES = ["iter", "cur_default", "cur_stream", "cur_yp", "chunked", "chunked_dyn"]
ITER_LIKE = ("iter", "frozen", "merged", "chunked", "chunked_dyn")

FETCH_OPS = ["next", "fetchone", "fetchmany(None)", "fetchmany(0)", "fetchmany(1)", "fetchmany(2)", "fetchall", "all",
             "partitions(2)", "partitions(None)", "partitions(2):first", "iter", "iter:first",
             "first", "one", "one_or_none", "scalar", "scalar_one", "scalar_one_or_none"]
VIEW_OPS = ["scalars(0)", "scalars(1)", "mappings", "columns(1,0)", "columns(1)", "unique", "unique(key0)", "yield_per(2)",
            "freeze", "merge", "close", "keys"]
ALL_OPS = FETCH_OPS + VIEW_OPS
ONLY_ONE = {"first": (False, False, False), "one": (True, True, False), "one_or_none": (True, False, False),
            "scalar": (False, False, True), "scalar_one": (True, True, True), "scalar_one_or_none": (True, False, True)}


def key0(obj):
    """explicit uniqueness strategy: first element of the row / the object itself"""
    try:
        return obj[0]
    except TypeError:
        return obj


class Expected(Exception):
    def __init__(self, name):
        self.name = name


class NotApplicable(Exception):
    pass


# ------------------------------------------------------------------------------------------------- the list model
class Model:
    def __init__(self, source, rows):
        self.source = source
        self.kind = source                     # changes to 'frozen' / 'merged'
        self.rem = [tuple(r) for r in rows]
        self.delivered = 0
        self.hard = False
        self.closed_by = None                  # (op, exhausted-before?)
        self.exhausted = False                 # a fetch has seen the end of the rows (source soft-closed)
        self.yp = 2 if source in ("cur_yp", "chunked_dyn") else None
        self.cls = "Result"
        self.keys = ["x", "y"]
        self.cols = [0, 1]
        self.uniq = None                       # [set, strategy-name]
        self.diag = []
        self.unh = any(isinstance(v, list) for r in rows for v in r)
        self.raw_keys = ["x", "y"]             # columns of the raw rows (changes at freeze)
        self.notes = []                        # preconditions the sequence has met (diagnostic, part of the failure description)
        self.view_fetched = False              # a fetch went through the current view object since it was (re)configured
        self.rowwise = False                   # a row-at-a-time fetch has happened
        self.first_fetch = None

    # -- helpers
    @property
    def default_size(self):
        """rows returned by an unsized fetchmany when yield_per is not set (backend-defined; see module docstring)"""
        return 1 if self.kind == "cur_default" else None

    def clone(self):
        m = copy.copy(self)
        m.rem = list(self.rem)
        m.keys = list(self.keys)
        m.cols = list(self.cols)
        m.diag = []
        m.notes = list(self.notes)
        m.raw_keys = list(self.raw_keys)
        if self.uniq is not None:
            m.uniq = [set(self.uniq[0]), self.uniq[1]]
        return m

    def proj(self, raw):
        return tuple(raw[i] for i in self.cols)

    def deliver(self, raw):
        p = self.proj(raw)
        if self.cls == "ScalarResult":
            return p[0]
        if self.cls == "MappingResult":
            return {"map": [[k, v] for k, v in zip(self.keys, p)]}
        return p

    def hashkey(self, raw):
        p = self.proj(raw)
        k = p[0] if self.uniq[1] == "key0" else p
        try:
            hash(k)
        except TypeError:
            raise Expected("TypeError")
        return k

    def check_open(self):
        if self.hard:
            raise Expected("ResourceClosedError")

    def take_raw(self):
        if self.rem:
            self.delivered += 1
            return self.rem.pop(0)
        self.exhausted = True
        return None

    def next_obj(self):
        """one object through the unique filter, or None at the end"""
        while True:
            raw = self.take_raw()
            if raw is None:
                return None
            if self.uniq is not None:
                k = self.hashkey(raw)
                if k in self.uniq[0]:
                    continue
                self.uniq[0].add(k)
            return [self.deliver(raw)]

    def many(self, size):
        """fetchmany(size): `size` objects after uniquing, consuming the shortest prefix of rem that yields them"""
        out = []
        if size is None:
            size = self.yp
        if size is None:
            d = self.default_size
            first = list(self.rem) if d is None else self.rem[:d]
            del self.rem[:len(first)]
            self.delivered += len(first)
            if not first or d is None:
                self.exhausted = True
            if self.uniq is None:
                return [self.deliver(r) for r in first]
            for raw in first:
                k = self.hashkey(raw)
                if k not in self.uniq[0]:
                    self.uniq[0].add(k)
                    out.append(self.deliver(raw))
            size = len(first)
        if self.uniq is None:
            part = self.rem[:size]
            del self.rem[:size]
            self.delivered += len(part)
            if size > 0 and len(part) < size:
                self.exhausted = True
            return out + [self.deliver(r) for r in part]
        while len(out) < size:
            o = self.next_obj()
            if o is None:
                break
            out.append(o[0])
        return out

    def everything(self):
        out = []
        while True:
            o = self.next_obj()
            if o is None:
                return out
            out.append(o[0])

    def merge_rows(self):
        """rows of the result merged in: same columns as the raw rows of the current result (precondition of merge())"""
        return [tuple(r["xy".index(k)] for k in self.raw_keys) for r in MERGE_ROWS[self.unh]]

    def drain_op(self):
        """the final observation re-uses the kind of getter the sequence used first (memoized getters are re-exercised)"""
        f = self.first_fetch or "all"
        if f in ("next", "fetchone"):
            return "next"
        if f.startswith("fetchmany") or f.startswith("partitions"):
            return "fetchmany(2)"
        if f == "iter:first":
            return "iter"
        return "all"

    def hard_close(self, op):
        if not self.hard:
            self.closed_by = [op, self.exhausted]
        self.hard = True
        self.rem = []

    # -- operations; return the expected value (JSON-able) or raise Expected / NotApplicable
    def note(self, n):
        if n not in self.notes:
            self.notes.append(n)

    def apply(self, op):
        m = self
        if op in FETCH_OPS and not m.hard:
            if m.first_fetch is None:
                m.first_fetch = op
            if m.kind == "chunked_dyn" and m.rowwise and (op.startswith("fetchmany") or op.startswith("partitions")):
                m.note("chunked_dyn:sized-fetch-after-rowwise-fetch")
        try:
            return m._apply(op)
        finally:
            if op in FETCH_OPS:
                m.view_fetched = True
                if op in ("next", "fetchone", "iter:first"):
                    m.rowwise = True

    def _apply(self, op):
        m = self
        if op == "close":
            m.hard_close(op)
            return None
        if op == "keys":
            if m.cls == "ScalarResult" or m.hard:
                raise NotApplicable()
            return list(m.keys)
        if op in ("scalars(0)", "scalars(1)", "mappings", "freeze", "merge"):
            if m.cls != "Result":
                raise NotApplicable()
        if m.hard and op in VIEW_OPS:
            raise NotApplicable()
        if op.startswith("scalars("):
            i = int(op[8])
            if i >= len(m.cols):
                raise NotApplicable()
            m.cols = [m.cols[i]]
            m.keys = [m.keys[i]]
            m.cls = "ScalarResult"
            m.view_fetched = False
            return None
        if op == "mappings":
            m.cls = "MappingResult"
            m.view_fetched = False
            return None
        if op.startswith("columns("):
            if m.cls == "ScalarResult":
                raise NotApplicable()
            idx = [int(c) for c in op[8:-1].split(",")]
            if max(idx) >= len(m.cols):
                raise NotApplicable()
            m.cols = [m.cols[i] for i in idx]
            m.keys = [m.keys[i] for i in idx]
            m.view_fetched = False
            return None
        if op in ("unique", "unique(key0)"):
            if m.cls != "Result" and m.view_fetched:
                m.note("filter-view:unique-after-fetch")
            if m.cls == "Result":
                m.view_fetched = False
            m.uniq = [set(), None if op == "unique" else "key0"]
            return None
        if op == "yield_per(2)":
            if m.kind in ("chunked", "chunked_dyn") and m.delivered > 0 and m.rem:
                m.note("chunked:yield_per-after-fetch")
            m.yp = 2
            m.view_fetched = False
            return None
        if op == "merge":
            m.rem = m.rem + m.merge_rows()
            m.kind = "merged"
            m.exhausted = False
            m.view_fetched = False
            return None
        if op == "freeze":
            m.check_open()
            data = m.everything()
            m.rem = [tuple(d) for d in data]
            m.kind = "frozen"
            m.raw_keys = list(m.keys)
            m.view_fetched = False
            m.cols = list(range(len(m.cols)))
            m.uniq = None
            m.yp = None
            m.exhausted = False
            m.delivered = 0
            return [list(d) for d in data]
        # ---- fetch operations
        if op == "fetchone" and m.cls == "ScalarResult":
            raise NotApplicable()
        if op in ("scalar", "scalar_one", "scalar_one_or_none") and m.cls != "Result":
            raise NotApplicable()
        if op == "fetchmany(0)" and m.kind not in ITER_LIKE:
            raise NotApplicable()          # cursor.fetchmany(0) is driver-defined
        m.check_open()
        if op == "next":
            o = m.next_obj()
            if o is None:
                raise Expected("StopIteration")
            return o[0]
        if op == "fetchone":
            o = m.next_obj()
            return None if o is None else o[0]
        if op.startswith("fetchmany("):
            a = op[10:-1]
            return m.many(None if a == "None" else int(a))
        if op in ("fetchall", "all", "iter"):
            return m.everything()
        if op in ("partitions(2)", "partitions(None)"):
            size = None if "None" in op else 2
            parts = []
            while True:
                p = m.many(size)
                if not p:
                    return parts
                parts.append(p)
        if op == "partitions(2):first":
            p = m.many(2)
            return p if p else None
        if op == "iter:first":
            o = m.next_obj()
            return None if o is None else o[0]
        if op in ONLY_ONE:
            second, none, scalar = ONLY_ONE[op]
            exhausted_before = m.exhausted
            cand = []
            keys = []
            skipped = False
            for raw in m.rem:
                if m.uniq is not None:
                    p = m.proj(raw)
                    k = p[0] if m.uniq[1] == "key0" else p
                    if m.uniq[0]:
                        try:
                            if k in m.uniq[0]:
                                skipped = True
                                continue
                        except TypeError:
                            pass
                    if k in keys:
                        continue
                    keys.append(k)
                cand.append(raw)
                if not second or len(cand) > 1:
                    break
            if skipped:
                m.diag.append("only-one-row:seen-row-skipped-by-model")
            m.delivered += len(m.rem)
            m.exhausted = exhausted_before or not m.rem
            m.hard_close(op)
            m.closed_by = [op, exhausted_before]
            if not cand:
                if none:
                    raise Expected("NoResultFound")
                return None
            if second and len(cand) > 1:
                raise Expected("MultipleResultsFound")
            if scalar:
                return m.proj(cand[0])[0]
            return m.deliver(cand[0])
        raise AssertionError(op)


# ------------------------------------------------------------------------------------------------- the real side
_ENV = {}


def _env():
    if not _ENV:
        warnings.simplefilter("ignore")
        from sqlalchemy import create_engine
        e = create_engine("sqlite://")
        _ENV["engine"] = e
        _ENV["conn"] = e.connect()
        _ENV["stmts"] = {}
    return _ENV


def _stmt(rows):
    from sqlalchemy import text, Integer, String, JSON
    key = json.dumps(rows)
    st = _ENV["stmts"].get(key)
    if st is None:
        unh = any(isinstance(v, list) for r in rows for v in r)

        def lit(v):
            return "'%s'" % (json.dumps(v) if unh else v)
        if rows:
            sql = " union all ".join(f"select {a} as x, {lit(b)} as y" for a, b in rows)
        else:
            sql = "select 1 as x, 'a' as y where 0"
        st = text(sql).columns(x=Integer, y=JSON if unh else String)
        _ENV["stmts"][key] = st
    return st


def _cursor_result(rows, opts):
    env = _env()
    # per-execution options (Connection.execution_options() would modify the shared connection in place)
    return env["conn"].execute(_stmt(rows), execution_options=opts)


def make_source(source, rows):
    from sqlalchemy.engine.result import IteratorResult, SimpleResultMetaData, ChunkedIteratorResult
    if source == "iter":
        return IteratorResult(SimpleResultMetaData(["x", "y"]), iter([tuple(r) for r in rows]))
    if source == "cur_default":
        return _cursor_result(rows, {})
    if source == "cur_stream":
        return _cursor_result(rows, {"stream_results": True, "max_row_buffer": 2})
    if source == "cur_yp":
        return _cursor_result(rows, {"yield_per": 2})
    if source in ("chunked", "chunked_dyn"):
        cur = _cursor_result(rows, {})

        def chunks(size):                  # the shape of orm.loading.instances.<locals>.chunks
            while True:
                if size:
                    fetch = cur.fetchmany(size)
                    if not fetch:
                        break
                else:
                    fetch = cur.fetchall()
                yield [tuple(r) for r in fetch]
                if not size:
                    break
        r = ChunkedIteratorResult(SimpleResultMetaData(["x", "y"]), chunks, raw=cur, dynamic_yield_per=source == "chunked_dyn")
        if source == "chunked_dyn":
            r = r.yield_per(2)             # what the ORM does for the yield_per execution option
        return r
    raise AssertionError(source)


def norm(v):
    from sqlalchemy.engine.row import Row, RowMapping
    if isinstance(v, Row):
        return [norm(x) for x in tuple(v)]
    if isinstance(v, RowMapping):
        return {"map": [[k, norm(x)] for k, x in v.items()]}
    if isinstance(v, (list, tuple)):
        return [norm(x) for x in v]
    if hasattr(v, "__iter__") and not isinstance(v, (str, bytes, dict)):
        return [norm(x) for x in v]
    return v


def jnorm(v):
    """model values: tuples -> lists"""
    if isinstance(v, (list, tuple)):
        return [jnorm(x) for x in v]
    if isinstance(v, dict):
        return {k: jnorm(x) for k, x in v.items()}
    return v


class Real:
    def __init__(self, source, rows):
        self.rows = rows
        self.source = source
        self.v = make_source(source, rows)
        self.to_close = [self.v]
        self.frozen = []
        self.raw_cursor = source.startswith("cur")      # raw rows come from a DBAPI cursor (result processors apply)

    def apply(self, op, model=None):
        v = self.v
        if op == "close":
            return v.close()
        if op == "keys":
            return list(v.keys())
        if op.startswith("scalars("):
            self.v = v.scalars(int(op[8]))
            return None
        if op == "mappings":
            self.v = v.mappings()
            return None
        if op.startswith("columns("):
            self.v = v.columns(*[int(c) for c in op[8:-1].split(",")])
            return None
        if op == "unique":
            self.v = v.unique()
            return None
        if op == "unique(key0)":
            self.v = v.unique(key0)
            return None
        if op == "yield_per(2)":
            self.v = v.yield_per(2)
            return None
        if op == "merge":
            unh = any(isinstance(x, list) for r in self.rows for x in r)
            from sqlalchemy.engine.result import IteratorResult, SimpleResultMetaData
            # precondition of merge(): identical metadata -> the other result is of the same kind and columns as the current one
            if self.raw_cursor:
                other = make_source("cur_default", MERGE_ROWS[unh])
            else:
                other = IteratorResult(SimpleResultMetaData(list(model.raw_keys)), iter(model.merge_rows()))
            self.to_close.append(other)
            self.v = v.merge(other)
            self.to_close.append(self.v)
            return None
        if op == "freeze":
            fr = v.freeze()
            self.frozen.append(fr)
            self.raw_cursor = False
            data = [list(d) for d in norm(list(fr.data))]
            self.v = fr()
            return data
        if op == "next":
            return next(v)
        if op == "fetchone":
            return v.fetchone()
        if op.startswith("fetchmany("):
            a = op[10:-1]
            return v.fetchmany() if a == "None" else v.fetchmany(int(a))
        if op == "fetchall":
            return v.fetchall()
        if op == "all":
            return v.all()
        if op == "iter":
            return list(v)
        if op == "iter:first":
            return next(iter(v), None)
        if op == "partitions(2)":
            return [list(p) for p in v.partitions(2)]
        if op == "partitions(None)":
            return [list(p) for p in v.partitions()]
        if op == "partitions(2):first":
            p = next(v.partitions(2), None)
            return None if p is None else list(p)
        if op in ONLY_ONE:
            return getattr(v, op)()
        raise AssertionError(op)

    def finish(self):
        for r in reversed(self.to_close):
            try:
                r.close()
            except Exception:
                pass


def _soft_closed(v):
    """diagnostic only (goes into the failure description): has the real source already been soft-closed by exhaustion"""
    try:
        return bool(v._soft_closed)
    except Exception:  # noqa: BLE001
        return None


def method_name(op):
    return {"next": "__next__", "iter": "__iter__", "iter:first": "__iter__", "keys": "keys", "merge": "merge", "freeze": "freeze",
            "mappings": "mappings", "close": "close"}.get(op, op.split("(")[0].split(":")[0])


def run_sequence(source, rows, ops, final=True):
    """drive the real objects through `ops` and then a draining observation, compare every value with the model.
    -> (steps, failure-or-None, trace)"""
    m = Model(source, rows)
    real = Real(source, rows)
    steps = 0
    trace = []

    def step(op, label, index):
        cls = m.cls if m.cls != "Result" else type(real.v).__name__
        m.diag = []
        st_before = dict(hard=m.hard, kind=m.kind, yield_per=m.yp, delivered=m.delivered,
                         unique=None if m.uniq is None else (m.uniq[1] or "default"), closed_by=m.closed_by,
                         real_soft_closed=_soft_closed(real.v))
        mb = m.clone()
        try:
            exp = ["ok", jnorm(m.apply(op))]
        except Expected as e:
            exp = ["exc", e.name]
        try:
            got = ["ok", norm(real.apply(op, mb))]
        except Exception as e:      # noqa: BLE001 - the exception type is the observation
            got = ["exc", type(e).__name__]
        trace.append([label, got])
        fail = None
        if got != exp:
            fail = dict(what="value", expected=exp, got=got)
        elif exp != ["exc", "TypeError"]:
            try:
                closed = bool(real.v.closed)
            except Exception as e:  # noqa: BLE001
                closed = "exc:" + type(e).__name__
            if closed != m.hard:
                fail = dict(what="closed-attribute", expected=m.hard, got=closed)
        if fail is not None:
            desc = dict(source=source, rows=rows, ops=list(ops), failing_index=index, failing_op=label, view=cls, state_before=st_before,
                        notes=list(m.notes), diag=list(m.diag), **fail)
            return exp, dict(function=f"{cls}.{method_name(op)}", input=desc)
        return exp, None

    try:
        undefined = False
        for i, op in enumerate(ops):
            exp, f = step(op, op, i)
            steps += 1
            if f is not None:
                return steps, f, trace
            if exp == ["exc", "TypeError"]:
                undefined = True        # documented failure of hashing an unhashable row; state afterwards unspecified
                break
        if final and not undefined and not m.hard:
            d = m.drain_op()
            for _ in range(8):
                exp, f = step(d, "drain:" + d, len(ops))
                steps += 1
                if f is not None:
                    return steps, f, trace
                if exp[0] == "exc" or exp[1] == [] or d in ("all", "iter"):
                    break
        # FrozenResult replay: calling it again yields the same rows again
        for fr in real.frozen:
            a = norm(fr().all())
            b = norm(list(fr.data))
            steps += 1
            if a != b:
                desc = dict(source=source, rows=rows, ops=list(ops), failing_index=len(ops), failing_op="frozen()", view="FrozenResult",
                            what="value", expected=["ok", b], got=["ok", a], state_before={}, notes=[], diag=[])
                return steps, dict(function="FrozenResult.__call__", input=desc), trace
        return steps, None, trace
    finally:
        real.finish()


# ------------------------------------------------------------------------------------------------- enumeration
def sequences(source, rows, first_op, length, ops):
    """all op sequences of length <= `length` starting with first_op that the model admits; after a hard close exactly one
    more fetch operation (it must raise) is explored."""
    out = []

    def rec(model, prefix, depth):
        for op in (ops if prefix else [first_op]):
            m = model.clone()
            try:
                m.apply(op)
                stop = False
            except NotApplicable:
                continue
            except Expected as e:
                stop = e.name in ("TypeError", "ResourceClosedError")
            seq = prefix + [op]
            out.append(seq)
            if stop or depth + 1 >= length:
                continue
            if model.hard:
                continue
            rec(m, seq, depth + 1)
    rec(Model(source, rows), [], 0)
    return out


def classify(trace):
    """a sequence is non-trivial when at least two of its calls delivered a row or raised"""
    n = 0
    for op, got in trace:
        if got[0] == "exc" or (got[1] not in (None, [], [[]]) and op not in ("keys",)):
            n += 1
    return n >= 2


def _work(task):
    source, rsname, first_op, length, ops = task
    rows = ROWSETS[rsname]
    seqs = sequences(source, rows, first_op, length, ops)
    steps = nseq = nontriv = 0
    fails = {}
    views = {}
    for seq in seqs:
        s, f, trace = run_sequence(source, rows, seq)
        steps += s
        nseq += 1
        if classify(trace):
            nontriv += 1
        if f is not None:
            key = (f["function"], f["input"]["what"], json.dumps(f["input"]["diag"]), json.dumps(f["input"]["notes"]), f["input"]["failing_op"],
                   json.dumps(f["input"]["state_before"].get("closed_by")), f["input"]["state_before"].get("kind"))
            lst = fails.setdefault(key, [])
            if len(lst) < 3:
                lst.append(f)
            views[f["function"]] = views.get(f["function"], 0) + 1
    return dict(task=[source, rsname, first_op], sequences=nseq, steps=steps, nontrivial=nontriv, fails=[f for l in fails.values() for f in l],
                nfail=sum(views.values()))


def scope_for(tier):
    if tier == "thorough":
        # length 4 on the row sets with duplicates / unhashable values / no rows; length 3 on the two plain ones
        return dict(length=4, rowsets=list(ROWSETS), ops=ALL_OPS, length_of={"s1": 3, "d2": 3})
    return dict(length=3, rowsets=list(ROWSETS), ops=ALL_OPS, length_of={})


def bounded(run, tier, seed):
    t0 = time.time()
    sc = scope_for(tier)
    tasks = [(s, rs, op, sc["length_of"].get(rs, sc["length"]), sc["ops"]) for s in SOURCES for rs in sc["rowsets"] for op in sc["ops"]]
    random.Random(seed).shuffle(tasks)
    ctx = multiprocessing.get_context("fork")
    with ctx.Pool(min(16, multiprocessing.cpu_count())) as pool:
        results = pool.map(_work, tasks, chunksize=4)
    nseq = sum(r["sequences"] for r in results)
    steps = sum(r["steps"] for r in results)
    nontriv = sum(r["nontrivial"] for r in results)
    fails = [f for r in results for f in r["fails"]]
    nfail = sum(r["nfail"] for r in results)
    reported = {}
    known_hits = 0
    for f in sorted(fails, key=lambda f: (len(f["input"]["ops"]), json.dumps(f["input"], sort_keys=True, default=repr))):
        dj = json.dumps(f["input"], sort_keys=True, default=repr)
        k = run.match_known(function=f["function"], input=dj)
        if k is not None:
            run.known_finding(k, "bounded operation-sequence enumeration on the real Result classes")
            known_hits += 1
            continue
        cls = (f["function"], f["input"]["what"], f["input"]["failing_op"])
        if cls in reported:
            continue
        reported[cls] = True
        if len(reported) <= 12:
            run.violation("C10b-%s-%08d" % (f["function"].replace(".", "_"), abs(hash(dj)) % 10 ** 8),
                          dict(function=f["function"], input=f["input"], expected=f["input"]["expected"], actual=f["input"]["got"],
                               reason="Result method value differs from the list model (bounded run-time contract check)", replay_module="checks.C10_bounded"))
    sample_seqs = []
    for src, rs, ops in (("cur_stream", "dup4", ["fetchmany(1)", "unique", "partitions(2)"]), ("chunked", "unh3", ["unique(key0)", "scalars(0)", "fetchmany(2)"]),
                         ("iter", "col4", ["columns(1,0)", "freeze", "one_or_none"])):
        s, f, trace = run_sequence(src, ROWSETS[rs], ops)
        sample_seqs.append(dict(source=src, rows=ROWSETS[rs], ops=ops, observed=trace, agrees_with_model=f is None))
    if nseq == 0 or nontriv < 2:
        run.crashes.append("C10 bounded: vacuous enumeration")
    blk = dict(
        function="Result / ScalarResult / MappingResult / FrozenResult / MergedResult / ChunkedIteratorResult / CursorResult public fetch API",
        scope=("all model-admissible operation sequences of length <= %d%s (each followed by a draining observation through the getter kind the sequence used "
               "first) over %d operations %s on %d row sets of 0..4 rows "
               "(duplicates, column-level duplicates, an unhashable JSON value) x sources %s: IteratorResult, sqlite3 CursorResult with default / "
               "stream_results+max_row_buffer=2 / yield_per=2 strategies, ChunkedIteratorResult over a CursorResult (static and dynamic_yield_per); "
               "FrozenResult via freeze, MergedResult via merge with a 2-row result; after a hard close exactly one further fetch call; "
               "_result_cy as installed (%s)") % (
                   sc["length"], "".join(" (%d on row set %s)" % (v, k) for k, v in sc["length_of"].items()), len(sc["ops"]), sc["ops"], len(sc["rowsets"]), SOURCES, _cy_state()),
        evaluations=steps, sequences=nseq, distinct_nontrivial=nontriv,
        rule="sequences are enumerated exhaustively by depth-first search through the list model (inapplicable calls pruned); every "
             "(source, row set, sequence) is distinct by construction; counted as non-trivial when at least two of its calls delivered a row or raised",
        samples=sample_seqs, exhaustive=True, label=LABEL, contract_failures=nfail, known_finding_cases=known_hits, wall_s=round(time.time() - t0, 1))
    run.coverage.setdefault("bounded", []).append(blk)
    return blk


def _cy_state():
    try:
        from sqlalchemy.engine import _result_cy
        return "compiled" if _result_cy._is_compiled() else "pure Python"
    except Exception:  # noqa: BLE001
        return "unknown"


def replay(data):
    inp = data["input"]
    steps, f, trace = run_sequence(inp["source"], inp["rows"], inp["ops"])
    if f is not None:
        print(f"REPLAY-FAILS {f['function']} source={inp['source']} rows={inp['rows']} ops={inp['ops']} at={f['input']['failing_op']} "
              f"expected={f['input']['expected']} got={f['input']['got']}")
        return 1
    print(f"REPLAY-PASSES source={inp['source']} rows={inp['rows']} ops={inp['ops']} trace={trace}")
    return 0
