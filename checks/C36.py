"""C36 — attribute history reports exactly the net change since load: History.from_scalar_attribute / from_object_attribute
(documented conventions) and _ScalarAttributeImpl.set / delete (the value before the FIRST change since the last flush is what
committed_state remembers; no other attribute is touched) under proof; mutation sequences on mapped attributes as the bounded
complement."""
import importlib
import contracts.history  # noqa: F401
import contracts.attr_scalar  # noqa: F401
from pyvc.contract import FUNCS
from vlib.proof import run_proofs

LEVEL = "proof"
KEYS = [k for k, c in FUNCS.items() if "C36" in c.props and c.proof and not c.abstract]


def run(run, tier, seed, args):
    run_proofs(run, KEYS, tier, update_baseline=args.update_baseline, source_root=args.source_root)
    if not args.source_root:
        importlib.import_module("checks.C36_bounded").bounded(run, tier, seed)
    run.assumptions += [
        "attribute.is_equal is a pure function; History(...) is the 3-tuple of its arguments",
        "under proof: History.from_scalar_attribute, from_object_attribute; _ScalarAttributeImpl.set / delete, which use InstanceState._modified_event through a summary contract (first write wins, other keys untouched) -- the clauses that function's own proof establishes under C48 in the thorough tier; `set` / `remove` listeners and AttributeImpl.get are abstract callees that may raise and do not touch the state",
        "from_collection, the object / collection impls' set/delete/append/remove are in the bounded complement only",
    ]
