"""C36 — bounded run-time contract check (see checks/C36_bounded.py for the contract and scope); proof kernel: see DESIGN §5 C36."""
from vlib.thin import run_bounded_only

LEVEL = "exploration"


def run(run, tier, seed, args):
    run_bounded_only(run, "C36", tier, seed)
