"""C36 — attribute history reports exactly the net change since load: History.from_scalar_attribute / from_object_attribute
under proof (documented conventions), mutation sequences on mapped attributes as the bounded complement."""
import importlib
import contracts.history  # noqa: F401
from pyvc.contract import FUNCS
from vlib.proof import run_proofs

LEVEL = "proof"
KEYS = [k for k, c in FUNCS.items() if "C36" in c.props and c.proof and not c.abstract]


def run(run, tier, seed, args):
    run_proofs(run, KEYS, tier, update_baseline=args.update_baseline, source_root=args.source_root)
    if not args.source_root:
        importlib.import_module("checks.C36_bounded").bounded(run, tier, seed)
    run.assumptions += [
        "attribute.is_equal is a pure function; History(...) is the 3-tuple of its arguments",
        "under proof: from_scalar_attribute, from_object_attribute; from_collection, the impls' set/delete/append/remove and InstanceState._modified_event are in the bounded complement only",
    ]
