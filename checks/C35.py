"""C35 — lifecycle states: the five InstanceState predicates are a partition (proved); the transitions out of the session
(InstanceState._detach_states: expunge / close / rollback of new objects) with exactly the matching events (proved); all other
transitions in the bounded complement."""
import time
import z3
import contracts.state  # noqa: F401
import contracts.state_detach  # noqa: F401
from pyvc.contract import FUNCS
from vlib.proof import run_proofs

LEVEL = "proof"
KEYS = [k for k, c in FUNCS.items() if "C35" in c.props]


def partition_lemma(run):
    """From the five postconditions (each predicate == its documented definition over key-is-None, _attached,
    _deleted) exactly one predicate holds: a quantifier-free validity, full domain (8 valuations)."""
    kn, at, de = z3.Bools("key_is_none attached deleted")
    tr = z3.And(kn, z3.Not(at))
    pe = z3.And(kn, at)
    ps = z3.And(z3.Not(kn), at, z3.Not(de))
    dl = z3.And(z3.Not(kn), at, de)
    dt = z3.And(z3.Not(kn), z3.Not(at))
    preds = [tr, pe, ps, dl, dt]
    exactly_one = z3.And(z3.Or(*preds), *[z3.Not(z3.And(preds[i], preds[j])) for i in range(5) for j in range(i + 1, 5)])
    s = z3.Solver()
    s.add(z3.Not(exactly_one))
    t = time.time()
    r = s.check()
    ms = int((time.time() - t) * 1000)
    cov = run.coverage
    cov["obligations"] = cov.get("obligations", 0) + 1
    if r == z3.unsat:
        cov["discharged"] = cov.get("discharged", 0) + 1
    else:
        run.violation("partition-lemma", dict(function="InstanceState.{transient,pending,persistent,deleted,detached}",
                                              failed_obligations=["partition lemma over the five contracts"], solver_model=str(s.model()) if r == z3.sat else None), no_input=True)
    cov.setdefault("lemmas", []).append(dict(name="exactly-one-of-five over the five postconditions", result=str(r), ms=ms, backend="z3"))


def native_partition(run):
    """bounded complement: the real properties on a real InstanceState for all 8 valuations of the three facts"""
    from sqlalchemy.orm.state import InstanceState
    n = 0
    bad = []
    for key in (None, ("k",)):
        for attached in (False, True):
            for deleted in (False, True):
                class Obj:
                    pass

                class FakeState(InstanceState):
                    _attached = attached
                st = FakeState.__new__(FakeState)
                st.key = key
                st._deleted = deleted
                vals = [st.transient, st.pending, st.persistent, st.deleted, st.detached]
                n += 1
                if sum(bool(v) for v in vals) != 1:
                    bad.append(dict(key=key, attached=attached, deleted=deleted, values=vals))
    run.coverage.setdefault("bounded", []).append(dict(function="InstanceState five predicates (native, real class)", evaluations=n, exhaustive=True,
                                                      scope="all 8 valuations of (key is None, _attached, _deleted)", contract_failures=len(bad), label="bounded (not proof)"))
    for b in bad:
        run.violation("partition-native", dict(function="orm/state.py::InstanceState", input=b, reason="not exactly one lifecycle predicate true"))
        break


def _more_bounded(run, tier, seed):
    import importlib
    try:
        m = importlib.import_module('checks.C35_bounded')
    except ModuleNotFoundError:
        return
    m.bounded(run, tier, seed)


def run(run, tier, seed, args):
    run_proofs(run, KEYS, tier, update_baseline=args.update_baseline, source_root=args.source_root)
    partition_lemma(run)
    if not args.source_root:
        native_partition(run)
    if not args.source_root:
        _more_bounded(run, tier, seed)
    run.assumptions += [
        "`_attached` is read as a boolean attribute (it is a property over session_id and the global _sessions registry)",
        "InstanceState._detach_states (the transitions out of the session) is proved for duplicate-free state lists: nothing stays attached, keys are dropped exactly with to_transient, and the events fired (ghost log, order-insensitive) are exactly persistent_to_detached / persistent_to_transient / deleted_to_detached / pending_to_transient for the states that were persistent / deleted / pending and whose event has a listener; the case to_transient with a flushed-deleted state is excluded by precondition (no such edge in the documented automaton; the bounded complement's known findings)",
        "all other transitions and events (Session.add/delete/flush/commit/rollback/...) are in the bounded complement",
    ]
