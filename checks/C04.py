"""C04 — bound parameters reach the right placeholders in every paramstyle (bounded run-time contract check).

Functions under contract (real code in /repo): `SQLCompiler._process_positional`, `_process_numeric`,
`bindparam_string` (name escaping), `_process_parameters_for_postcompile`, and the positional / dict assembly of
`DefaultExecutionContext._init_compiled` — driven through `stmt.compile(dialect=<family>(paramstyle=ps))` and the real
`_init_compiled` on a stub connection (rtc/corpus.dbapi_call), which yields the `(statement, parameters)` pair that
would be handed to `cursor.execute`.

Contract.  Every bind of the statement carries a distinct sentinel integer, so "which value stands at which place" is
observable.  lit(statement, parameters, ps) substitutes every placeholder of paramstyle ps by the value the DBAPI would
bind there (k-th `?` / `%s` <- parameters[k]; `:N` / `$N` <- parameters[N-1]; `:name` / `%(name)s` <- parameters[name]).
  (K1, ground truth)  lit(dbapi_call(compile(s, ps))) == compile(s, literal_binds=True)   for ps in the six paramstyles
        — the literal_binds rendering puts each bind's own value in place and never goes through bind names or positions
  (K2, peers)         lit(... ps) == lit(... named)   for the five other paramstyles (also where literal_binds is
        unavailable or renders casts differently)
  (K3, _process_positional / _process_numeric ghost relation)  with occ = the bind names at the `%(name)s` /
        `__[POSTCOMPILE_name]` occurrences of the pyformat rendering (the compiler's pre-positional form), in order:
        qmark / format:  positiontup == unescape(occ) and the number of placeholders == len(occ without post-compile)
        numeric / numeric_dollar:  every occurrence of name is replaced by ":" / "$" + str(1 + index of name in positiontup
        without the post-compile names)
  compile() or _init_compiled raising for one paramstyle but not for `named` is a failure of that paramstyle.
"""
import hashlib
import itertools
import re
import warnings

from rtc import corpus as C

LEVEL = "exploration"
PARAMSTYLES = ("named", "qmark", "format", "numeric", "numeric_dollar", "pyformat")
QUICK_FAMILIES = ("default", "sqlite", "postgresql.psycopg2")
THOROUGH_FAMILIES = QUICK_FAMILIES + ("postgresql", "mysql", "mssql", "oracle")
NO_GROUND_TRUTH = {"postgresql"}          # psycopg renders bind casts (%(x)s::INTEGER) that literal_binds does not
# Oracle's compiler quotes bind names itself (:"x(y)") and its drivers only use the named style: positional styles are not a configuration of that dialect
FAMILY_PARAMSTYLES = {"oracle": ("named",)}
NAMES = ["p", "a.b", "a[1]", "a%b", "a b", "q:r", "x(y)", "a_b"]
VALUE = {n: 1001 + i for i, n in enumerate(NAMES)}

AX, AID, BX, BID, BAID, CX = C.AX, C.AID, C.BX, C.BID, C.BAID, C.CX


def shapes():
    """name -> (number of bind slots, constructor(b0..b3) -> descriptor); B = slot descriptors"""
    return {
        "where": (4, lambda b: {"k": "select", "cols": [AID, ["label", b[0], "c0"]], "where": [["op", ">", AX, b[1]], ["op", "<", AX, b[2]]], "order_by": [["op", "+", AX, b[3]], AID],
                                "limit": 3001, "offset": 3002}),
        "cte": (3, lambda b: {"k": "select", "cols": [["c", "w", "id"], ["label", ["ssq", {"k": "select", "cols": [["fn", "max", [BX]]], "where": [["op", ">", BX, b[2]]]}], "m"]],
                              "from": [["cte", {"k": "select", "cols": [AID], "where": [["op", "==", AX, b[0]]]}, "w"]], "where": [["op", "!=", ["c", "w", "id"], b[1]]]}),
        "having": (3, lambda b: {"k": "select", "cols": [AID, ["label", ["ssq", {"k": "select", "cols": [["fn", "max", [BID]]], "where": [["op", ">", BID, b[1]]]}], "m"]],
                                 "where": [["in", AX, [3003, 3004, 3005]], ["op", "==", AID, b[0]]], "group_by": [AID], "having": [["op", ">", ["fn", "count", []], b[2]]]}),
        "update": (4, lambda b: {"k": "update", "t": "a", "where": [["op", "==", AX, b[0]]], "values": {"x": b[1], "parent_id": ["op", "+", AX, b[2]]}, "returning": [["op", "+", AID, b[3]]]}),
        "insert": (3, lambda b: {"k": "insert", "t": "a", "values": {"x": b[0], "parent_id": b[1]}, "returning": [AID, ["label", b[2], "r"]]}),
        "expanding": (2, lambda b: {"k": "select", "cols": [AID], "where": [["in_bp", AX, b[0][1] if b[0][0] == "bp" else "ex", [3006, 3007, 3008]], ["op", "==", AID, b[1]],
                                                                              ["op", "==", AX, ["bp", "le", 3009, {"literal_execute": True}]], ["in", AID, [3010, 3011]]]}),
        "union": (3, lambda b: {"k": "union", "selects": [{"k": "select", "cols": [AID], "where": [["op", "==", AX, b[0]]]}, {"k": "select", "cols": [BID], "where": [["op", "==", BAID, b[1]]]}],
                                "order_by": [["name", "id"]], "limit": b[2]}),
        "ins_from": (3, lambda b: {"k": "insert", "t": "a", "from_select": [["x", "parent_id"], {"k": "select", "cols": [BAID, ["label", b[2], "c2"]], "where": [["op", "==", BID, b[0]], ["op", ">", BAID, b[1]]]}]}),
        "case": (4, lambda b: {"k": "select", "cols": [["label", ["case", [[["op", ">", AX, b[0]], b[1]]], b[2]], "cs"], ["label", ["fn", "coalesce", [AX, b[3]]], "co"]]}),
        "delete": (3, lambda b: {"k": "delete", "t": "a", "where": [["op", "==", AX, b[0]], ["in_sub", AID, {"k": "select", "cols": [BAID], "where": [["op", "==", BID, b[1]]]}]], "returning": [["op", "+", AID, b[2]]]}),
        "join_on": (3, lambda b: {"k": "select", "cols": [AID, BID, ["label", b[2], "c2"]], "joins": [["b", ["op", "and", ["op", "==", AID, BAID], ["op", ">", BID, b[0]]]]], "where": [["op", "==", AX, b[1]]],
                                  "label_style": "tcol"}),
        "upsert": (3, lambda b: {"k": "insert", "t": "a", "fam": "pg", "values": {"id": b[0], "x": b[1]}, "on_conflict": {"do": "update", "index_elements": [AID], "set": {"x": b[2]}, "where": ["op", ">", AX, 3012]}}),
        "upsert_sqlite": (3, lambda b: {"k": "insert", "t": "a", "fam": "sqlite", "values": {"id": b[0], "x": b[1]}, "on_conflict": {"do": "update", "index_elements": [AID], "set": {"x": b[2]}}}),
        "text": (0, lambda b: {"k": "text", "sql": "select :p + :q, x from a where x > :p and id < :r", "binds": {"p": 3013, "q": 3014, "r": 3015}}),
        "window": (2, lambda b: {"k": "select", "cols": [["over", ["fn", "sum", [["op", "+", AX, b[0]]]], {"partition_by": [AX], "order_by": [AID], "rows": [None, 2]}]], "where": [["op", "<", AID, b[1]]]}),
    }


def catalogue(tier):
    """[(label, descriptor)]: every shape x every choice of `nvar` slots x every assignment of names to those slots
    (a repeated name is the same parameter: same value); the remaining slots hold anonymous literals"""
    nvar = 2 if tier == "quick" else 3
    out = []
    for sname, (n, ctor) in shapes().items():
        if n == 0:
            out.append((sname, ctor([])))
            continue
        for slots in itertools.combinations(range(n), min(nvar, n)):
            for names in itertools.product(NAMES, repeat=len(slots)):
                b = [["lit", 2001 + i] for i in range(n)]
                for s_, nm in zip(slots, names):
                    b[s_] = ["bp", nm, VALUE[nm]]
                out.append(("%s[%s]" % (sname, ",".join("%d=%s" % x for x in zip(slots, names))), ctor(b)))
    return out


# ------------------------------------------------------------------------------------------------ literalisation
def _r(v):
    return "NULL" if v is None else repr(v)


def literalise(statement, parameters, ps):
    if ps in ("qmark", "format"):
        s = statement.replace("%%", "\0") if ps == "format" else statement
        parts = s.split("?" if ps == "qmark" else "%s")
        if len(parts) - 1 != len(parameters):
            return ("COUNT", len(parts) - 1, len(parameters))
        out = "".join(p + (_r(parameters[i]) if i < len(parameters) else "") for i, p in enumerate(parts))
        return out.replace("\0", "%")
    if ps in ("numeric", "numeric_dollar"):
        rx = re.compile(r"(?<![:\w]):(\d+)" if ps == "numeric" else r"\$(\d+)")
        used = set()

        def sub(m_):
            i = int(m_.group(1)) - 1
            used.add(i)
            return _r(parameters[i]) if 0 <= i < len(parameters) else "<OUT-OF-RANGE %d>" % (i + 1)
        out = rx.sub(sub, statement)
        if used != set(range(len(parameters))):
            return ("UNUSED", sorted(set(range(len(parameters))) - used))
        return out
    names = sorted(parameters, key=len, reverse=True)
    if ps == "pyformat":
        out = re.sub(r"%\((" + "|".join(re.escape(n) for n in names) + r")\)s", lambda m_: _r(parameters[m_.group(1)]), statement) if names else statement
        return out.replace("%%", "%")
    if not names:
        return statement
    return re.sub(r"(?<![:\w]):(" + "|".join(re.escape(n) for n in names) + r")(?![A-Za-z0-9_])", lambda m_: _r(parameters[m_.group(1)]), statement)


_WS = re.compile(r"\s+")


def _norm(s):
    return _WS.sub(" ", s).strip() if isinstance(s, str) else s


def observe(desc, family, ps, stmt=None):
    """('ok', literalised text, compiled) | ('documented'|'internal', exception info, None)"""
    d = C.get_dialect(family + "+" + ps)
    stmt = stmt if stmt is not None else C.build(desc)
    try:
        with warnings.catch_warnings():
            warnings.simplefilter("ignore")
            c = stmt.compile(dialect=d)
            st, pr = C.dbapi_call(d, c, stmt)
    except C.DOCUMENTED as e:
        return "documented", type(e).__name__, None
    except Exception as e:  # noqa: BLE001
        return "internal", "%s in %s: %s" % (type(e).__name__, C.raising_function(e), str(e)[:120]), None
    return "ok", _norm(literalise(st, pr, ps)), c


def ground_truth(desc, family, stmt=None):
    d = C.get_dialect(family + "+named")
    stmt = stmt if stmt is not None else C.build(desc)
    try:
        with warnings.catch_warnings():
            warnings.simplefilter("ignore")
            gt = _norm(str(stmt.compile(dialect=d, compile_kwargs={"literal_binds": True})))
    except Exception:  # noqa: BLE001
        return None
    # precondition of K1: the rendering is fully literal (literal_binds does not reach e.g. a RETURNING clause)
    return None if re.search(r"(?<![:\w]):[A-Za-z_]\w*|__\[POSTCOMPILE", gt) else gt


_OCC = re.compile(r"%\((.*?)\)s|__\[POSTCOMPILE_(.*?)\]")


def ghost_positional(c_py, c_ps, ps):
    """K3 on the compiled objects (before post-compile expansion); returns None or a description of the mismatch"""
    esc = {v: k for k, v in (c_py.escaped_bind_names or {}).items()}
    occ = [(esc.get(m_.group(1), m_.group(1)), False) if m_.group(1) is not None else (esc.get(m_.group(2), m_.group(2)), True) for m_ in _OCC.finditer(c_py.string)]
    if ps in ("qmark", "format"):
        want = [n for n, post in occ]
        if list(c_ps.positiontup) != want:
            return "positiontup %r != occurrence order %r" % (list(c_ps.positiontup), want)
        nph = (c_ps.string.count("?") if ps == "qmark" else c_ps.string.replace("%%", "").count("%s"))
        if nph != sum(1 for n, post in occ if not post):
            return "%d placeholders for %d non-post-compile occurrences" % (nph, sum(1 for n, post in occ if not post))
        return None
    ch = ":" if ps == "numeric" else "$"
    post = {n for n, is_post in occ if is_post}
    pos = [n for n in c_ps.positiontup if n not in post]           # numbering skips post-compile (expanding / literal_execute) names

    def sub(m_):
        if m_.group(1) is not None:
            n = esc.get(m_.group(1), m_.group(1))
            return ch + str(1 + pos.index(n)) if n in pos else "<%s not in positiontup>" % n
        return m_.group(0)
    want = _OCC.sub(sub, c_py.string).replace("%%", "%")
    got = c_ps.string
    # post-compile tokens keep their (escaped) names in both renderings
    return None if _norm(want) == _norm(got) else "numeric rendering %r != expected %r" % (got[:300], want[:300])


def judge(label, desc, family):
    """all clauses for one statement on one family; returns (evaluations, failures, distinct literal texts, outcome counts)"""
    fails, texts, n = [], set(), 0
    stmt = C.build(desc)
    gt = ground_truth(desc, family, stmt) if family not in NO_GROUND_TRUTH else None
    styles = FAMILY_PARAMSTYLES.get(family, PARAMSTYLES)
    obs = {ps: observe(desc, family, ps, stmt) for ps in styles}
    ref = obs["named"]
    counts = {}
    for ps in styles:
        kind, val, comp = obs[ps]
        counts[kind] = counts.get(kind, 0) + 1
        n += 1
        inp = dict(label=label, stmt=desc, family=family, paramstyle=ps)
        if kind == "documented":
            if ref[0] == "ok" and ps != "named":
                fails.append(dict(function="raises_only_in:%s:%s" % (ps, family), input=inp, expected="as paramstyle named: compiles", actual=val))
            continue
        if kind == "internal":
            if ref[0] == "internal":
                continue                    # fails for every paramstyle alike: not a parameter-delivery question (C22's subject)
            fails.append(dict(function="internal_error:%s:%s" % (ps, family), input=inp, expected="(statement, parameters) for cursor.execute", actual=val))
            continue
        texts.add(hashlib.md5((family + str(val)).encode()).digest()[:8])
        if gt is not None:
            n += 1
            if val != gt:
                fails.append(dict(function="K1_ground_truth:%s:%s" % (ps, family), input=inp, expected=gt, actual=val))
        if ps != "named" and ref[0] == "ok":
            n += 1
            if val != ref[1]:
                fails.append(dict(function="K2_vs_named:%s:%s" % (ps, family), input=inp, expected=ref[1], actual=val))
        if ps in ("qmark", "format", "numeric", "numeric_dollar") and obs.get("pyformat", ("-",))[0] == "ok":
            n += 1
            try:
                msg = ghost_positional(obs["pyformat"][2], comp, ps)
            except Exception as e:  # noqa: BLE001
                msg = "ghost evaluation raised %s: %s" % (type(e).__name__, e)
            if msg:
                fails.append(dict(function="K3_positional_ghost:%s:%s" % (ps, family), input=inp, expected="occurrence order of the pyformat rendering", actual=msg))
    return n, fails, texts, counts


def _worker(shard, nshards, tier, seed):
    import random
    cat = catalogue(tier)
    if seed:
        random.Random(seed).shuffle(cat)
    fams = QUICK_FAMILIES if tier == "quick" else THOROUGH_FAMILIES
    out = dict(evals=0, failures=[], texts=set(), counts={}, n=len(cat), samples=[], gt=0)
    for i, (label, desc) in enumerate(cat):
        if i % nshards != shard:
            continue
        for fam in fams:
            n, fails, texts, counts = judge(label, desc, fam)
            out["evals"] += n
            out["failures"] += fails
            out["texts"].update(texts)
            for k, v in counts.items():
                out["counts"][k] = out["counts"].get(k, 0) + v
        if len(out["samples"]) < 1 and i % 50 == shard:
            try:
                d = C.get_dialect("default+numeric_dollar")
                s = C.build(desc)
                st, pr = C.dbapi_call(d, s.compile(dialect=d), s)
                out["samples"].append(dict(label=label, stmt=desc, paramstyle="numeric_dollar", statement=st, parameters=list(pr), literalised=_norm(literalise(st, pr, "numeric_dollar")),
                                           ground_truth=ground_truth(desc, "default")))
            except Exception:  # noqa: BLE001  (judged above)
                pass
    out["texts"] = list(out["texts"])
    return out


def run(run, tier, seed, args):
    res = C.shard_run(_worker, 48, (tier, seed))
    texts, failures, samples, counts = set(), [], [], {}
    evals = 0
    for r in res:
        texts.update(r["texts"])
        failures += r["failures"]
        samples += r["samples"]
        evals += r["evals"]
        for k, v in r["counts"].items():
            counts[k] = counts.get(k, 0) + v
    C.report(run, failures, max_new=12)
    fams = QUICK_FAMILIES if tier == "quick" else THOROUGH_FAMILIES
    run.coverage.update(
        evaluations=evals,
        distinct_nontrivial=len(texts),
        rule="catalogue = every statement shape x every choice of %d bind slots x every assignment of the %d bind names to them (remaining slots: anonymous literals); every bind "
             "carries a distinct sentinel integer; each statement is compiled for every paramstyle of every family and run through the real _init_compiled; an evaluation is one "
             "clause (K1 ground truth, K2 peer, K3 ghost, or an exception comparison) on one (statement, family, paramstyle); distinct_nontrivial = distinct "
             "(family, literalised SQL text), counted by hash" % (2 if tier == "quick" else 3, len(NAMES)),
        samples=samples[:3],
        exhaustive=True,
        scope="%d statements = %d shapes %s x slot choices x names %s; paramstyles %s; dialect families %s (ground truth not available on %s: bind casts; %s)"
              % (res[0]["n"], len(shapes()), sorted(shapes()), NAMES, list(PARAMSTYLES), list(fams), sorted(NO_GROUND_TRUTH & set(fams)),
                 "; ".join("%s only %s" % (k, list(v)) for k, v in FAMILY_PARAMSTYLES.items() if k in fams) or "all paramstyles on every family"),
        outcomes=counts)
    run.assumptions += [
        "the value a driver binds at a placeholder is the one at its position / under its name in the parameters object handed to cursor.execute (DBAPI paramstyle semantics); drivers are outside",
        "sentinel values are integers bound against integer columns, so literal rendering and repr() agree; string / date binds are not in scope",
        "`_init_compiled` runs on a stub connection (no cursor is executed); regex engine and % formatting are CPython's",
        "bounded exploration, not a proof",
    ]


def replay(data):
    inp = data["input"]
    n, fails, _, _ = judge(inp.get("label", "?"), inp["stmt"], inp["family"])
    cls = data.get("function", "")
    mine = [f for f in fails if f["function"] == cls] or [f for f in fails if f["input"]["paramstyle"] == inp.get("paramstyle")]
    if mine:
        f = mine[0]
        print("REPLAY-FAILS C04 %s on %s/%s\n  expected: %s\n  actual:   %s" % (f["function"], inp["family"], f["input"]["paramstyle"], str(f["expected"])[:400], str(f["actual"])[:400]))
        return 1
    print("REPLAY-PASSES C04 %s: all clauses hold on family %s (%d evaluations)" % (inp.get("label"), inp["family"], n))
    return 0
