"""C04 — bound parameters reach the right placeholders in every paramstyle (bounded run-time contract check).

Functions under contract (real code in /repo): `SQLCompiler._process_positional`, `_process_numeric`,
`bindparam_string` (name escaping), `_process_parameters_for_postcompile`, and the positional / dict assembly of
`DefaultExecutionContext._init_compiled` — driven through `stmt.compile(dialect=<family>(paramstyle=ps))` and the real
`_init_compiled` on a stub connection (rtc/corpus.dbapi_call), which yields the `(statement, parameters)` pair that
would be handed to `cursor.execute`.

Contract.  Every bind of the statement carries a distinct sentinel integer, so "which value stands at which place" is
observable.  lit(statement, parameters, ps) substitutes every placeholder of paramstyle ps by the value the DBAPI would
bind there (k-th `?` / `%s` <- parameters[k]; `:N` / `$N` <- parameters[N-1]; `:name` / `%(name)s` <- parameters[name]).
  (K1, ground truth)  lit(dbapi_call(compile(s, ps))) == compile(s, literal_binds=True)   for ps in the six paramstyles
        — the literal_binds rendering puts each bind's own value in place and never goes through bind names or positions
  (K2, peers)         lit(... ps) == lit(... named)   for the five other paramstyles (also where literal_binds is
        unavailable or renders casts differently)
  (K3, _process_positional / _process_numeric ghost relation)  with occ = the bind names at the `%(name)s` /
        `__[POSTCOMPILE_name]` occurrences of the pyformat rendering (the compiler's pre-positional form), in order:
        qmark / format:  positiontup == unescape(occ) and the number of placeholders == len(occ without post-compile)
        numeric / numeric_dollar:  every occurrence of name is replaced by ":" / "$" + str(1 + index of name in positiontup
        without the post-compile names)
  compile() or _init_compiled raising for one paramstyle but not for `named` is a failure of that paramstyle.

Executemany dimension (several parameter sets for one statement).  Functions under contract in addition:
`DefaultDialect._deliver_insertmanyvalues_batches`, `SQLCompiler._deliver_insertmanyvalues_batches` (both its positional
and its named branch), `DefaultExecutionContext._init_compiled` for a list of parameter sets and the dialect's
`do_execute` / `do_executemany` — driven through a real `Engine` / `Connection.execute(stmt, [P1 .. Pn])` over the
dialect object of the (family, paramstyle) and a recording stub DBAPI connection, so that the observation is literally
what reaches `cursor.execute(statement, parameters)` / `cursor.executemany(statement, [parameters, ..])`.  The stub
answers a RETURNING statement with one row per VALUES row.  lit() is applied to every (statement, parameter set) that
reached the cursor; in the named / pyformat styles a placeholder left without a value shows up as residue.
  (M1, rows delivered)  INSERT: the VALUES rows of all literalised INSERT statements that reached the cursor (all
        batches; a trailing sentinel counter of the INSERT..SELECT..FROM (VALUES ..) form removed, the counters of one
        batch being distinct) are, as a multiset, the rows P1 .. Pn that were passed (in the column order of the table)
  (M2, ground truth)    UPDATE / DELETE: the i-th literalised statement == compile(statement with the values of Pi in
        place, literal_binds=True);  INSERT without RETURNING: a literalised batch == compile(insert(t).values([the rows
        of the batch]), literal_binds=True)
  (M3, peers)           the sequence of literalised statements == the one obtained with paramstyle `named`
  (M4)                  no placeholder residue; an exception for one paramstyle but not for `named` is a failure of that
        paramstyle (an exception raised after every passed row was delivered comes from the stub's canned rows: ignored)
Scope of the dimension: statement kind {INSERT, INSERT..RETURNING, INSERT..RETURNING sort_by_parameter_order,
INSERT..RETURNING <expression with a bind outside VALUES>, UPDATE, DELETE} x every ordered pair of distinct names of
NAMES (as the names of two columns of the target table for INSERT — parameter keys are column names —, as the names of
two bindparam()s for UPDATE / DELETE) x (number of parameter sets, insertmanyvalues_page_size) in {(1, -), (2, -),
(3, 2): two batches} x paramstyle x family.
"""
import hashlib
import itertools
import re
import warnings

from rtc import corpus as C

LEVEL = "exploration"
PARAMSTYLES = ("named", "qmark", "format", "numeric", "numeric_dollar", "pyformat")
QUICK_FAMILIES = ("default", "sqlite", "postgresql.psycopg2")
THOROUGH_FAMILIES = QUICK_FAMILIES + ("postgresql", "mysql", "mssql", "oracle")
NO_GROUND_TRUTH = {"postgresql"}          # psycopg renders bind casts (%(x)s::INTEGER) that literal_binds does not
# Oracle's compiler quotes bind names itself (:"x(y)") and its drivers only use the named style: positional styles are not a configuration of that dialect
FAMILY_PARAMSTYLES = {"oracle": ("named",)}
NAMES = ["p", "a.b", "a[1]", "a%b", "a b", "q:r", "x(y)", "a_b"]
VALUE = {n: 1001 + i for i, n in enumerate(NAMES)}

AX, AID, BX, BID, BAID, CX = C.AX, C.AID, C.BX, C.BID, C.BAID, C.CX


def shapes():
    """name -> (number of bind slots, constructor(b0..b3) -> descriptor); B = slot descriptors"""
    return {
        "where": (4, lambda b: {"k": "select", "cols": [AID, ["label", b[0], "c0"]], "where": [["op", ">", AX, b[1]], ["op", "<", AX, b[2]]], "order_by": [["op", "+", AX, b[3]], AID],
                                "limit": 3001, "offset": 3002}),
        "cte": (3, lambda b: {"k": "select", "cols": [["c", "w", "id"], ["label", ["ssq", {"k": "select", "cols": [["fn", "max", [BX]]], "where": [["op", ">", BX, b[2]]]}], "m"]],
                              "from": [["cte", {"k": "select", "cols": [AID], "where": [["op", "==", AX, b[0]]]}, "w"]], "where": [["op", "!=", ["c", "w", "id"], b[1]]]}),
        "having": (3, lambda b: {"k": "select", "cols": [AID, ["label", ["ssq", {"k": "select", "cols": [["fn", "max", [BID]]], "where": [["op", ">", BID, b[1]]]}], "m"]],
                                 "where": [["in", AX, [3003, 3004, 3005]], ["op", "==", AID, b[0]]], "group_by": [AID], "having": [["op", ">", ["fn", "count", []], b[2]]]}),
        "update": (4, lambda b: {"k": "update", "t": "a", "where": [["op", "==", AX, b[0]]], "values": {"x": b[1], "parent_id": ["op", "+", AX, b[2]]}, "returning": [["op", "+", AID, b[3]]]}),
        "insert": (3, lambda b: {"k": "insert", "t": "a", "values": {"x": b[0], "parent_id": b[1]}, "returning": [AID, ["label", b[2], "r"]]}),
        "expanding": (2, lambda b: {"k": "select", "cols": [AID], "where": [["in_bp", AX, b[0][1] if b[0][0] == "bp" else "ex", [3006, 3007, 3008]], ["op", "==", AID, b[1]],
                                                                              ["op", "==", AX, ["bp", "le", 3009, {"literal_execute": True}]], ["in", AID, [3010, 3011]]]}),
        "union": (3, lambda b: {"k": "union", "selects": [{"k": "select", "cols": [AID], "where": [["op", "==", AX, b[0]]]}, {"k": "select", "cols": [BID], "where": [["op", "==", BAID, b[1]]]}],
                                "order_by": [["name", "id"]], "limit": b[2]}),
        "ins_from": (3, lambda b: {"k": "insert", "t": "a", "from_select": [["x", "parent_id"], {"k": "select", "cols": [BAID, ["label", b[2], "c2"]], "where": [["op", "==", BID, b[0]], ["op", ">", BAID, b[1]]]}]}),
        "case": (4, lambda b: {"k": "select", "cols": [["label", ["case", [[["op", ">", AX, b[0]], b[1]]], b[2]], "cs"], ["label", ["fn", "coalesce", [AX, b[3]]], "co"]]}),
        "delete": (3, lambda b: {"k": "delete", "t": "a", "where": [["op", "==", AX, b[0]], ["in_sub", AID, {"k": "select", "cols": [BAID], "where": [["op", "==", BID, b[1]]]}]], "returning": [["op", "+", AID, b[2]]]}),
        "join_on": (3, lambda b: {"k": "select", "cols": [AID, BID, ["label", b[2], "c2"]], "joins": [["b", ["op", "and", ["op", "==", AID, BAID], ["op", ">", BID, b[0]]]]], "where": [["op", "==", AX, b[1]]],
                                  "label_style": "tcol"}),
        "upsert": (3, lambda b: {"k": "insert", "t": "a", "fam": "pg", "values": {"id": b[0], "x": b[1]}, "on_conflict": {"do": "update", "index_elements": [AID], "set": {"x": b[2]}, "where": ["op", ">", AX, 3012]}}),
        "upsert_sqlite": (3, lambda b: {"k": "insert", "t": "a", "fam": "sqlite", "values": {"id": b[0], "x": b[1]}, "on_conflict": {"do": "update", "index_elements": [AID], "set": {"x": b[2]}}}),
        "text": (0, lambda b: {"k": "text", "sql": "select :p + :q, x from a where x > :p and id < :r", "binds": {"p": 3013, "q": 3014, "r": 3015}}),
        "window": (2, lambda b: {"k": "select", "cols": [["over", ["fn", "sum", [["op", "+", AX, b[0]]]], {"partition_by": [AX], "order_by": [AID], "rows": [None, 2]}]], "where": [["op", "<", AID, b[1]]]}),
    }


def catalogue(tier):
    """[(label, descriptor)]: every shape x every choice of `nvar` slots x every assignment of names to those slots
    (a repeated name is the same parameter: same value); the remaining slots hold anonymous literals"""
    nvar = 2 if tier == "quick" else 3
    out = []
    for sname, (n, ctor) in shapes().items():
        if n == 0:
            out.append((sname, ctor([])))
            continue
        for slots in itertools.combinations(range(n), min(nvar, n)):
            for names in itertools.product(NAMES, repeat=len(slots)):
                b = [["lit", 2001 + i] for i in range(n)]
                for s_, nm in zip(slots, names):
                    b[s_] = ["bp", nm, VALUE[nm]]
                out.append(("%s[%s]" % (sname, ",".join("%d=%s" % x for x in zip(slots, names))), ctor(b)))
    return out


# ------------------------------------------------------------------------------------------------ literalisation
def _r(v):
    return "NULL" if v is None else repr(v)


def literalise(statement, parameters, ps):
    if ps in ("qmark", "format"):
        s = statement.replace("%%", "\0") if ps == "format" else statement
        parts = s.split("?" if ps == "qmark" else "%s")
        if len(parts) - 1 != len(parameters):
            return ("COUNT", len(parts) - 1, len(parameters))
        out = "".join(p + (_r(parameters[i]) if i < len(parameters) else "") for i, p in enumerate(parts))
        return out.replace("\0", "%")
    if ps in ("numeric", "numeric_dollar"):
        rx = re.compile(r"(?<![:\w]):(\d+)" if ps == "numeric" else r"\$(\d+)")
        used = set()

        def sub(m_):
            i = int(m_.group(1)) - 1
            used.add(i)
            return _r(parameters[i]) if 0 <= i < len(parameters) else "<OUT-OF-RANGE %d>" % (i + 1)
        out = rx.sub(sub, statement)
        if used != set(range(len(parameters))):
            return ("UNUSED", sorted(set(range(len(parameters))) - used))
        return out
    names = sorted(parameters, key=len, reverse=True)
    if ps == "pyformat":
        out = re.sub(r"%\((" + "|".join(re.escape(n) for n in names) + r")\)s", lambda m_: _r(parameters[m_.group(1)]), statement) if names else statement
        return out.replace("%%", "%")
    if not names:
        return statement
    return re.sub(r"(?<![:\w]):(" + "|".join(re.escape(n) for n in names) + r")(?![A-Za-z0-9_])", lambda m_: _r(parameters[m_.group(1)]), statement)


_WS = re.compile(r"\s+")


def _norm(s):
    return _WS.sub(" ", s).strip() if isinstance(s, str) else s


def observe(desc, family, ps, stmt=None):
    """('ok', literalised text, compiled) | ('documented'|'internal', exception info, None)"""
    d = C.get_dialect(family + "+" + ps)
    stmt = stmt if stmt is not None else C.build(desc)
    try:
        with warnings.catch_warnings():
            warnings.simplefilter("ignore")
            c = stmt.compile(dialect=d)
            st, pr = C.dbapi_call(d, c, stmt)
    except C.DOCUMENTED as e:
        return "documented", type(e).__name__, None
    except Exception as e:  # noqa: BLE001
        return "internal", "%s in %s: %s" % (type(e).__name__, C.raising_function(e), str(e)[:120]), None
    return "ok", _norm(literalise(st, pr, ps)), c


def ground_truth(desc, family, stmt=None):
    d = C.get_dialect(family + "+named")
    stmt = stmt if stmt is not None else C.build(desc)
    try:
        with warnings.catch_warnings():
            warnings.simplefilter("ignore")
            gt = _norm(str(stmt.compile(dialect=d, compile_kwargs={"literal_binds": True})))
    except Exception:  # noqa: BLE001
        return None
    # precondition of K1: the rendering is fully literal (literal_binds does not reach e.g. a RETURNING clause)
    return None if re.search(r"(?<![:\w]):[A-Za-z_]\w*|__\[POSTCOMPILE", gt) else gt


_OCC = re.compile(r"%\((.*?)\)s|__\[POSTCOMPILE_(.*?)\]")


def ghost_positional(c_py, c_ps, ps):
    """K3 on the compiled objects (before post-compile expansion); returns None or a description of the mismatch"""
    esc = {v: k for k, v in (c_py.escaped_bind_names or {}).items()}
    occ = [(esc.get(m_.group(1), m_.group(1)), False) if m_.group(1) is not None else (esc.get(m_.group(2), m_.group(2)), True) for m_ in _OCC.finditer(c_py.string)]
    if ps in ("qmark", "format"):
        want = [n for n, post in occ]
        if list(c_ps.positiontup) != want:
            return "positiontup %r != occurrence order %r" % (list(c_ps.positiontup), want)
        nph = (c_ps.string.count("?") if ps == "qmark" else c_ps.string.replace("%%", "").count("%s"))
        if nph != sum(1 for n, post in occ if not post):
            return "%d placeholders for %d non-post-compile occurrences" % (nph, sum(1 for n, post in occ if not post))
        return None
    ch = ":" if ps == "numeric" else "$"
    post = {n for n, is_post in occ if is_post}
    pos = [n for n in c_ps.positiontup if n not in post]           # numbering skips post-compile (expanding / literal_execute) names

    def sub(m_):
        if m_.group(1) is not None:
            n = esc.get(m_.group(1), m_.group(1))
            return ch + str(1 + pos.index(n)) if n in pos else "<%s not in positiontup>" % n
        return m_.group(0)
    want = _OCC.sub(sub, c_py.string).replace("%%", "%")
    got = c_ps.string
    # post-compile tokens keep their (escaped) names in both renderings
    return None if _norm(want) == _norm(got) else "numeric rendering %r != expected %r" % (got[:300], want[:300])


def judge(label, desc, family):
    """all clauses for one statement on one family; returns (evaluations, failures, distinct literal texts, outcome counts)"""
    fails, texts, n = [], set(), 0
    stmt = C.build(desc)
    gt = ground_truth(desc, family, stmt) if family not in NO_GROUND_TRUTH else None
    styles = FAMILY_PARAMSTYLES.get(family, PARAMSTYLES)
    obs = {ps: observe(desc, family, ps, stmt) for ps in styles}
    ref = obs["named"]
    counts = {}
    for ps in styles:
        kind, val, comp = obs[ps]
        counts[kind] = counts.get(kind, 0) + 1
        n += 1
        inp = dict(label=label, stmt=desc, family=family, paramstyle=ps)
        if kind == "documented":
            if ref[0] == "ok" and ps != "named":
                fails.append(dict(function="raises_only_in:%s:%s" % (ps, family), input=inp, expected="as paramstyle named: compiles", actual=val))
            continue
        if kind == "internal":
            if ref[0] == "internal":
                continue                    # fails for every paramstyle alike: not a parameter-delivery question (C22's subject)
            fails.append(dict(function="internal_error:%s:%s" % (ps, family), input=inp, expected="(statement, parameters) for cursor.execute", actual=val))
            continue
        texts.add(hashlib.md5((family + str(val)).encode()).digest()[:8])
        if gt is not None:
            n += 1
            if val != gt:
                fails.append(dict(function="K1_ground_truth:%s:%s" % (ps, family), input=inp, expected=gt, actual=val))
        if ps != "named" and ref[0] == "ok":
            n += 1
            if val != ref[1]:
                fails.append(dict(function="K2_vs_named:%s:%s" % (ps, family), input=inp, expected=ref[1], actual=val))
        if ps in ("qmark", "format", "numeric", "numeric_dollar") and obs.get("pyformat", ("-",))[0] == "ok":
            n += 1
            try:
                msg = ghost_positional(obs["pyformat"][2], comp, ps)
            except Exception as e:  # noqa: BLE001
                msg = "ghost evaluation raised %s: %s" % (type(e).__name__, e)
            if msg:
                fails.append(dict(function="K3_positional_ghost:%s:%s" % (ps, family), input=inp, expected="occurrence order of the pyformat rendering", actual=msg))
    return n, fails, texts, counts



# ------------------------------------------------------------------------------------------------ executemany dimension
MANY_KINDS = ("insert", "insert_ret", "insert_ret_sorted", "insert_ret_expr", "update", "delete")
MANY_SIZES = ((1, None), (2, None), (3, 2))          # (number of parameter sets, insertmanyvalues_page_size)


_VALUES = re.compile(r"\bVALUES\s")


class _RecCursor:
    """recording DBAPI cursor; a RETURNING statement is answered with one canned row per VALUES row"""
    arraysize = 1
    rowcount = -1

    def __init__(self, log, connection=None):
        self.log, self.description, self._rows, self.connection = log, None, [], connection

    def execute(self, statement, parameters=None):
        self.log.append(("execute", statement, parameters))
        m_ = re.search(r"\bRETURNING\b(.*)$", statement, re.S)
        if m_ is None:
            self.description, self._rows = None, []
            return
        ncols = m_.group(1).count(",") + 1
        nrows = _VALUES.split(statement, 1)[1].count("), (") + 1 if _VALUES.search(statement) else 1
        self.description = [("c%d" % i, None, None, None, None, None, None) for i in range(ncols)]
        self._rows = [tuple([r + 1] * ncols) for r in range(nrows)]

    def executemany(self, statement, parameters):
        self.log.append(("executemany", statement, list(parameters)))
        self.description, self._rows = None, []

    def fetchall(self):
        r, self._rows = self._rows, []
        return r

    def fetchmany(self, size=None):
        return self.fetchall()

    def fetchone(self):
        return self._rows.pop(0) if self._rows else None

    def setinputsizes(self, *a, **kw):
        pass

    def close(self):
        pass


class _RecConnection:
    autocommit = False
    notices = ()            # psycopg2's execution context reads cursor.connection.notices after execution

    def __init__(self, log):
        self.log = log

    def cursor(self, *a, **kw):
        return _RecCursor(self.log, self)

    def commit(self):
        pass

    def rollback(self):
        pass

    def close(self):
        pass


class _StubDBAPI:
    """stands for the driver module: exception classes and type-code constants (any other attribute is its own name)"""
    class Error(Exception):
        pass

    def __getattr__(self, name):
        if name.startswith("__"):
            raise AttributeError(name)
        return name


_ENGINES = {}


def _engine(family, ps):
    """a real Engine over the (family, paramstyle) dialect object and the recording stub; returns (engine, log)"""
    key = family + "+" + ps
    if key not in _ENGINES:
        from sqlalchemy.engine import Engine, make_url
        from sqlalchemy.pool import NullPool
        log = []
        d = C.get_dialect(key, fresh=True)           # an object of its own: it gets a driver module
        d.dbapi = _StubDBAPI()
        _ENGINES[key] = (Engine(NullPool(lambda: _RecConnection(log)), d, make_url(d.name + "://")), log)
    return _ENGINES[key]


def third_name(names):
    """the name of the bind outside VALUES of kind insert_ret_expr: another element of NAMES, varying with the pair"""
    return [n for n in NAMES if n not in names][(NAMES.index(names[0]) + NAMES.index(names[1])) % (len(NAMES) - 2)]


def many_case(kind, names, nrows):
    """-> (statement for executemany, [P1..Pn], [expected row tuples] | None, [statement with the values of Pi in place] | None, table)"""
    from sqlalchemy import Column, Integer, MetaData, Table, bindparam, delete, insert, update
    n1, n2 = names
    t = Table("t", MetaData(), Column("id", Integer, primary_key=True), Column(n1, Integer), Column(n2, Integer), Column("plain", Integer))
    vals = [(1000 * (i + 1) + 1, 1000 * (i + 1) + 2, 1000 * (i + 1) + 3) for i in range(nrows)]
    if kind.startswith("insert"):
        stmt = insert(t)
        if kind == "insert_ret":
            stmt = stmt.returning(t.c.id)
        elif kind == "insert_ret_sorted":
            stmt = stmt.returning(t.c.id, sort_by_parameter_order=True)
        elif kind == "insert_ret_expr":
            stmt = stmt.returning((t.c.id + bindparam(third_name(names), 4999)).label("r"))
        return stmt, [{n1: a, n2: b, "plain": c_} for a, b, c_ in vals], vals, None, t
    # UPDATE / DELETE: the names are names of explicit bindparam()s (a parameter key that is a column name would be a SET value)
    t = Table("t", MetaData(), Column("id", Integer, primary_key=True), Column("plain", Integer))
    if kind == "update":
        mk = lambda x, y: update(t).where(t.c.id == x).values(plain=y)                                   # noqa: E731
    else:
        mk = lambda x, y: delete(t).where(t.c.id == x).where(t.c.plain > y)                              # noqa: E731
    return (mk(bindparam(n1), bindparam(n2)), [{n1: a, n2: b} for a, b, _ in vals], None,
            [mk(bindparam(n1, a), bindparam(n2, b)) for a, b, _ in vals], t)


_DML = re.compile(r"^\s*(INSERT|UPDATE|DELETE)\b")
_ROW = re.compile(r"\(\s*((?:-?\d+|NULL)(?:::\w+(?:\(\d+\))?)?(?:\s*,\s*(?:-?\d+|NULL)(?:::\w+(?:\(\d+\))?)?)*)\s*\)")
_RESIDUE = {"pyformat": re.compile(r"%\([^)]*\)s"), "named": re.compile(r"(?<![:\w]):[A-Za-z_]\w*")}


def observe_many(kind, names, nrows, page, family, ps):
    """('ok', [literalised statements that reached the cursor, in order], error after the cursor calls | None)
    | ('documented' | 'internal', info, None) when nothing reached the cursor"""
    eng, log = _engine(family, ps)
    stmt, psets, _, _, _ = many_case(kind, names, nrows)
    del log[:]
    err = None
    try:
        with warnings.catch_warnings():
            warnings.simplefilter("ignore")
            with eng.connect() as conn:
                conn.execute(stmt, psets, execution_options={"insertmanyvalues_page_size": page} if page else {})
    except Exception as e:  # noqa: BLE001
        err = e
    calls = [x for x in log if _DML.match(x[1])]
    if not calls:
        if err is None:
            return "internal", "nothing reached the cursor", None
        e0 = getattr(err, "orig", None) or err              # with a driver module present, errors before the cursor arrive wrapped in StatementError
        if isinstance(e0, C.DOCUMENTED):
            return "documented", type(e0).__name__, None
        return "internal", "%s in %s: %s" % (type(err).__name__, C.raising_function(err), str(err)[:120]), None
    lits = []
    for how, st, pr in calls:
        for p_ in ([pr] if how == "execute" else pr):
            lits.append(_norm(literalise(st, p_ if p_ is not None else (), ps)))
    return "ok", lits, ("%s in %s: %s" % (type(err).__name__, C.raising_function(err), str(err)[:120]) if err is not None else None)


def rows_of(lits):
    """the VALUES rows (tuples of int / None) of the literalised INSERT statements, or a description of what is wrong"""
    out = []
    for t_ in lits:
        if not isinstance(t_, str):
            return "not literalisable: %r" % (t_,)
        if not _VALUES.search(t_):
            return "no VALUES clause: %s" % t_[:200]
        body = _VALUES.split(t_, 1)[1].split(" RETURNING ")[0]
        rows = [tuple(None if v.strip().startswith("NULL") else int(v.split("::")[0]) for v in m_.group(1).split(",")) for m_ in _ROW.finditer(body)]
        if not rows:
            return "no literal VALUES row in: %s" % t_[:300]
        if "sen_counter" in body:
            if len({r[-1] for r in rows}) != len(rows):
                return "sentinel counters of one batch are not distinct: %s" % t_[:300]
            rows = [r[:-1] for r in rows]
        out += rows
    return out


def many_truth(kind, names, nrows, page, family, lits):
    """M2: None (holds / not applicable) or (expected, actual)"""
    from sqlalchemy import insert
    _, psets, vals, inline, t = many_case(kind, names, nrows)
    d = C.get_dialect(family + "+named")
    with warnings.catch_warnings():
        warnings.simplefilter("ignore")
        try:
            if inline is not None:
                want = [_norm(str(s_.compile(dialect=d, compile_kwargs={"literal_binds": True}))) for s_ in inline]
            elif kind == "insert":
                want = None
                for cand in ([psets[i:i + (page or nrows)] for i in range(0, nrows, page or nrows)], [[p_] for p_ in psets]):     # batched, or one statement per set
                    w_ = [_norm(str((insert(t).values(b) if len(b) > 1 else (insert(t).values(b[0]).inline() if nrows > 1 else insert(t).values(b[0]))).compile(dialect=d, compile_kwargs={"literal_binds": True}))) for b in cand]
                    if want is None or len(w_) == len(lits):
                        want = w_
            else:
                return None
        except Exception:  # noqa: BLE001
            return None
    return None if want == lits else (want, lits)


def judge_many(kind, names, nrows, page, family):
    fails, texts, n = [], set(), 0
    label = "many:%s[0=%s,1=%s%s]n%d%s" % (kind, names[0], names[1], ",2=" + third_name(names) if kind == "insert_ret_expr" else "", nrows, "p%d" % page if page else "")
    styles = FAMILY_PARAMSTYLES.get(family, PARAMSTYLES)
    obs = {ps: observe_many(kind, names, nrows, page, family, ps) for ps in styles}
    ref = obs["named"]
    counts = {}
    _, _, vals, _, _ = many_case(kind, names, nrows)
    for ps in styles:
        oc, lits, err = obs[ps]
        counts["many_" + oc] = counts.get("many_" + oc, 0) + 1
        n += 1
        inp = dict(label=label, many=dict(kind=kind, names=list(names), nrows=nrows, page=page), family=family, paramstyle=ps)
        if oc != "ok":
            if ref[0] == "ok":
                fails.append(dict(function="many_%s:%s:%s" % ("raises_only_in" if oc == "documented" else "internal_error", ps, family), input=inp,
                                  expected="as paramstyle named: %d statement(s) reach the cursor" % len(ref[1]), actual=lits))
            continue
        for t_ in lits:
            texts.add(hashlib.md5((family + str(t_)).encode()).digest()[:8])
        complete = True
        n += 1
        res = [t_ for t_ in lits if not isinstance(t_, str) or (ps in _RESIDUE and _RESIDUE[ps].search(t_))]
        if res:
            complete = False
            fails.append(dict(function="M4_residue:%s:%s" % (ps, family), input=inp, expected="every placeholder has a value in the parameters handed to the cursor", actual=res[:2]))
        if vals is not None:
            n += 1
            got = rows_of(lits)
            if isinstance(got, str) or sorted(got, key=repr) != sorted(vals, key=repr):
                complete = False
                fails.append(dict(function="M1_rows_delivered:%s:%s" % (ps, family), input=inp, expected=[list(v) for v in vals], actual=got if isinstance(got, str) else [list(v) for v in got]))
        if family not in NO_GROUND_TRUTH:
            mt = many_truth(kind, names, nrows, page, family, lits)
            n += 1
            if mt is not None:
                complete = False
                fails.append(dict(function="M2_many_ground_truth:%s:%s" % (ps, family), input=inp, expected=mt[0], actual=mt[1]))
        if ps != "named" and ref[0] == "ok":
            n += 1
            if lits != ref[1]:
                complete = False
                fails.append(dict(function="M3_many_vs_named:%s:%s" % (ps, family), input=inp, expected=ref[1], actual=lits))
        if err is not None and ref[0] == "ok" and ref[2] is None and ps != "named" and complete is False:
            fails.append(dict(function="many_raises_only_in:%s:%s" % (ps, family), input=inp, expected="as paramstyle named: no exception", actual=err))
    return n, fails, texts, counts


def many_catalogue(tier):
    return [(kind, (n1, n2), nrows, page) for kind in MANY_KINDS for n1 in NAMES for n2 in NAMES if n1 != n2 for nrows, page in MANY_SIZES]


def _worker(shard, nshards, tier, seed):
    import random
    cat = catalogue(tier)
    if seed:
        random.Random(seed).shuffle(cat)
    fams = QUICK_FAMILIES if tier == "quick" else THOROUGH_FAMILIES
    out = dict(evals=0, failures=[], texts=set(), counts={}, n=len(cat), samples=[], gt=0, many=0, many_evals=0, many_samples=[])
    mcat = many_catalogue(tier)
    if seed:
        random.Random(seed).shuffle(mcat)
    out["many"] = len(mcat)
    for i, (kind, names, nrows, page) in enumerate(mcat):
        if i % nshards != shard:
            continue
        for fam in fams:
            n, fails, texts, counts = judge_many(kind, names, nrows, page, fam)
            out["evals"] += n
            out["many_evals"] += n
            out["failures"] += fails
            out["texts"].update(texts)
            for k, v in counts.items():
                out["counts"][k] = out["counts"].get(k, 0) + v
        if not out["many_samples"] and i % 97 == shard and nrows == 3:
            o_ = observe_many(kind, names, nrows, page, fams[-1] if tier == "quick" else "postgresql.psycopg2", "pyformat")
            if o_[0] == "ok":
                out["many_samples"].append(dict(kind=kind, names=list(names), parameter_sets=nrows, page_size=page, family="postgresql.psycopg2", paramstyle="pyformat", literalised=o_[1]))
    for i, (label, desc) in enumerate(cat):
        if i % nshards != shard:
            continue
        for fam in fams:
            n, fails, texts, counts = judge(label, desc, fam)
            out["evals"] += n
            out["failures"] += fails
            out["texts"].update(texts)
            for k, v in counts.items():
                out["counts"][k] = out["counts"].get(k, 0) + v
        if len(out["samples"]) < 1 and i % 50 == shard:
            try:
                d = C.get_dialect("default+numeric_dollar")
                s = C.build(desc)
                st, pr = C.dbapi_call(d, s.compile(dialect=d), s)
                out["samples"].append(dict(label=label, stmt=desc, paramstyle="numeric_dollar", statement=st, parameters=list(pr), literalised=_norm(literalise(st, pr, "numeric_dollar")),
                                           ground_truth=ground_truth(desc, "default")))
            except Exception:  # noqa: BLE001  (judged above)
                pass
    out["texts"] = list(out["texts"])
    return out


def run(run, tier, seed, args):
    res = C.shard_run(_worker, 48, (tier, seed))
    texts, failures, samples, counts = set(), [], [], {}
    evals = 0
    many_evals, many_samples = 0, []
    for r in res:
        many_evals += r["many_evals"]
        many_samples += r["many_samples"]
        texts.update(r["texts"])
        failures += r["failures"]
        samples += r["samples"]
        evals += r["evals"]
        for k, v in r["counts"].items():
            counts[k] = counts.get(k, 0) + v
    C.report(run, failures, max_new=12)
    fams = QUICK_FAMILIES if tier == "quick" else THOROUGH_FAMILIES
    run.coverage.update(
        evaluations=evals,
        distinct_nontrivial=len(texts),
        rule="catalogue = every statement shape x every choice of %d bind slots x every assignment of the %d bind names to them (remaining slots: anonymous literals); every bind "
             "carries a distinct sentinel integer; each statement is compiled for every paramstyle of every family and run through the real _init_compiled; an evaluation is one "
             "clause (K1 ground truth, K2 peer, K3 ghost, or an exception comparison) on one (statement, family, paramstyle); distinct_nontrivial = distinct "
             "(family, literalised SQL text), counted by hash; executemany dimension: every case of its catalogue is executed through a real Engine over a recording stub DBAPI for "
             "every paramstyle of every family, an evaluation being one clause (M1 rows delivered, M2 ground truth, M3 peer, M4 residue / exception comparison) on one "
             "(case, family, paramstyle); its literalised statements count into distinct_nontrivial the same way" % (2 if tier == "quick" else 3, len(NAMES)),
        samples=samples[:3] + many_samples[:1],
        exhaustive=True,
        scope="executemany: %d cases = kinds %s x ordered pairs of distinct names x (parameter sets, insertmanyvalues_page_size) %s; single execution: "
              "%d statements = %d shapes %s x slot choices x names %s; paramstyles %s; dialect families %s (ground truth not available on %s: bind casts; %s)"
              % (res[0]["many"], list(MANY_KINDS), [list(x) for x in MANY_SIZES], res[0]["n"], len(shapes()), sorted(shapes()), NAMES, list(PARAMSTYLES), list(fams), sorted(NO_GROUND_TRUTH & set(fams)),
                 "; ".join("%s only %s" % (k, list(v)) for k, v in FAMILY_PARAMSTYLES.items() if k in fams) or "all paramstyles on every family"),
        outcomes=counts, executemany_evaluations=many_evals)
    run.assumptions += [
        "executemany dimension: the stub DBAPI answers RETURNING with canned rows (one per VALUES row); what SQLAlchemy does with the rows after the cursor calls is outside; "
        "target tables have an autoincrement integer primary key (implicit sentinel), client-side sentinel columns are not in scope",
        "the value a driver binds at a placeholder is the one at its position / under its name in the parameters object handed to cursor.execute (DBAPI paramstyle semantics); drivers are outside",
        "sentinel values are integers bound against integer columns, so literal rendering and repr() agree; string / date binds are not in scope",
        "`_init_compiled` runs on a stub connection (no cursor is executed); regex engine and % formatting are CPython's",
        "bounded exploration, not a proof",
    ]


def replay(data):
    inp = data["input"]
    if "many" in inp:
        m_ = inp["many"]
        n, fails, _, _ = judge_many(m_["kind"], tuple(m_["names"]), m_["nrows"], m_["page"], inp["family"])
    else:
        n, fails, _, _ = judge(inp.get("label", "?"), inp["stmt"], inp["family"])
    cls = data.get("function", "")
    mine = [f for f in fails if f["function"] == cls] or [f for f in fails if f["input"]["paramstyle"] == inp.get("paramstyle")]
    if mine:
        f = mine[0]
        print("REPLAY-FAILS C04 %s on %s/%s\n  expected: %s\n  actual:   %s" % (f["function"], inp["family"], f["input"]["paramstyle"], str(f["expected"])[:400], str(f["actual"])[:400]))
        return 1
    print("REPLAY-PASSES C04 %s: all clauses hold on family %s (%d evaluations)" % (inp.get("label"), inp["family"], n))
    return 0
