"""C03 — statement objects are immutable values; compilation is deterministic (bounded run-time contract check).

Functions under contract (real code in /repo): every method decorated `@_generative` (found mechanically by scanning the
AST of sql/selectable.py, sql/dml.py, sql/elements.py, sql/base.py and the three dialects' dml.py) or calling
`self._generate()` directly, on Select, CompoundSelect, Insert (core / postgresql / sqlite / mysql), Update, Delete,
TextClause, TextualSelect — plus the public methods that delegate to them (filter, filter_by, outerjoin, on_conflict_*,
ordered_values, ...); and `SQLCompiler.__init__` / `HasCacheKey._generate_cache_key` as readers of the statement.

Contract.
  frame condition of every generative call  r = s.m(args):   modifies nothing reachable from s
        snapshot(old(s)) == snapshot(s)     — and the same for every ancestor of s in the call chain
        (returning `s` itself is allowed when nothing changes, e.g. set_label_style with the current style)
  where snapshot(s) = ( for d in {default, sqlite, postgresql, mysql, mssql, oracle}:
                            (str(s.compile(dialect=d)), s.compile(dialect=d).params) or the exception type ,
                        HasCacheKey._generate_cache_key(s)  — computed afresh, bypassing the per-statement memo )
  compilation is a pure reader:  snapshot(s) taken twice is equal (so compile() / key generation modified nothing
        observable and compilation is deterministic)
  value copies:  copy.copy(s), s._clone() have the same snapshot (incl. key); pickle.loads(pickle.dumps(s)) the same
        SQL and parameters (its Table objects are new, so the key is not compared).
  deep clones (CLONES below) are value copies too:  visitors.cloned_traverse(s, {}, {}) (also with no-op visitors),
        visitors.replacement_traverse(s, {}, lambda e: None), sql.util.ClauseAdapter / ColumnAdapter(<alias of a table
        that does not occur in s>).traverse(s), a clone of a clone, sql.util._deep_annotate(s, {..})  compile to the same
        SQL and parameters on every dialect (or raise the same exception type).  The cache key of a deep clone is not
        compared: a clone need not preserve object sharing inside the statement, which the key tracks by design (C02).
        (_deep_deannotate is not a copy: it hands back the original elements.)
  the copy relation commutes with the generative calls, and a clone is as immutable as its source:
        c = cloned_traverse(s);  r = c.m(args)   =>   sql(r) == sql(s.m(args))  and  sql(c) == sql(s) still.
  derivations have the same frame condition as the generative calls:  for every derivation  d  of the catalogue DERIVE
        (a public method of the statement that returns a new construct embedding it, or a standalone constructor taking
        it as an argument:  s.subquery() / alias() / cte() / lateral() / scalar_subquery() / exists() / label() /
        self_group(),  s.union(..) .. s.intersect_all(..),  union(s, o) .. except_all(o, s),  col.in_(s),
        insert(t).from_select(.., s);  for DML  s.cte();  for text()  self_group())
            o = d(s);  use(o)     modifies nothing reachable from s or from any ancestor of s
        where use(o) reads o.c (for a FROM element) and compiles o / select(o):  snapshot(old(s)) == snapshot(s).
        Nothing is demanded of o itself.

Scope: all call chains of length <= L (quick 2, thorough 3) over a catalogue of canonical calls per method, from a few
base statements per class; every ancestor re-snapshotted after every call.  Every statement reached by <= 2 calls is
copied: copy.copy / _clone / pickle always; all deep-clone kinds for the base statements and the statements reached by
one call, two of them in rotation (so that every kind meets every first call and every second call) for the statements
reached by two calls.  Name dimension: besides the fixed schema a / b / c (plain names) the classes `*[names]` run the
chains over table `n` whose column names need sanitizing / escaping when they become bind-parameter names or labels
(NAMES: leading / trailing / double underscore, parentheses, brackets, space, dot, percent, colon, leading digit),
ad-hoc column()s and explicit bindparam()s (unique and not) with such names, and dict-form values() keyed by them.
Derivation dimension: every base statement and every statement reached by <= 2 calls is put through the derivations
applicable to its type (all of DERIVE for the bases and after one call; one third of the catalogue in rotation after two
calls, so that every derivation meets every first and every second call), each derived construct being used (columns
read, compiled on the default dialect and one more in rotation); then it and all its ancestors are re-snapshotted (bases
and after one call: the full snapshot; after two calls: SQL + parameters on the default and one more dialect in
rotation, and the key — a differing entry triggers the full comparison); on a difference the chain is rebuilt and the derivations are applied one at a time to name the one at
fault.  Compound dimension (class `CompoundSelect[members]`): the compound bases range, base-choice, over
operator {union, union_all, intersect, intersect_all, except, except_all} x shape of the first member {plain select,
grouped select (LIMIT), nested compound} x label style of a member {default, LABEL_STYLE_NONE, TABLENAME_PLUS_COL;
first / second member}, the members selecting columns with colliding names (a.id, b.id) so that the label style of a
member is visible in the SQL.
"""
import ast
import copy
import hashlib
import json
import os
import pickle
import warnings

from rtc import corpus as C

LEVEL = "exploration"
DIALECTS = C.SIX

AX, AS_, AID, BX, BID, BAID = C.AX, C.AS_, C.AID, C.BX, C.BID, C.BAID
W1 = ["op", ">", AX, 5]
SUBSEL = {"k": "select", "cols": [BAID], "where": [["op", ">", BX, 1]]}
CTE = ["cte", SUBSEL, "cw"]

SELECT_CALLS = [
    ["where", [["E", W1]]], ["where", [["E", ["op", "==", AS_, "q"]]]], ["where", [["E", ["op", "==", AX, ["bp", "p", 3]]]]], ["where", [["E", ["in", AID, [1, 2]]]]],
    ["where", [["E", ["in_sub", AID, SUBSEL]]]], ["filter", [["E", ["op", "<", AX, 9]]]], ["filter_by", [], {"x": 3}], ["having", [["E", ["op", ">", ["fn", "count", [AID]], 1]]]],
    ["join", [["T", "b"], ["E", ["op", "==", AID, BAID]]]], ["join", [["T", "b"]]], ["outerjoin", [["T", "b"]]], ["join", [["T", "b"]], {"full": True}], ["join_from", [["T", "a"], ["T", "b"]]],
    ["outerjoin_from", [["T", "a"], ["T", "b"]]], ["join", [["T", "a:a_1"], ["E", ["op", "==", ["c", "a", "parent_id"], ["c", "a:a_1", "id"]]]]],
    ["order_by", [["E", ["un", "desc", AX]]]], ["order_by", [["E", AID]]], ["order_by", [None]], ["group_by", [["E", AX]]], ["group_by", [None]],
    ["limit", [5]], ["limit", [None]], ["limit", [["E", ["bp", "lim", 4]]]], ["offset", [2]], ["fetch", [3]], ["fetch", [3], {"with_ties": True}], ["slice", [1, 3]],
    ["distinct", []], ["with_only_columns", [["E", AID]]], ["with_only_columns", [["E", AX], ["E", AS_]], {"maintain_column_froms": True}], ["add_columns", [["E", BX]]],
    ["add_columns", [["E", ["label", ["op", "+", AX, 1], "x1"]]]], ["select_from", [["T", "a"]]], ["select_from", [["F", ["join", "a", "b", None, {"isouter": True}]]]],
    ["correlate", [["T", "b"]]], ["correlate", [None]], ["correlate_except", [["T", "b"]]], ["prefix_with", ["/*p*/"]], ["prefix_with", ["HIGH_PRIORITY"], {"dialect": "mysql"}],
    ["suffix_with", ["/*s*/"]], ["with_for_update", []], ["with_for_update", [], {"nowait": True, "of": ["E", AID]}], ["execution_options", [], {"foo": 1}],
    ["with_hint", [["T", "a"], "HINT"]], ["with_hint", [["T", "a"], "WITH (NOLOCK)", "mssql"]], ["with_statement_hint", ["sh"]],
    ["set_label_style", [["LS", "tcol"]]], ["set_label_style", [["LS", "none"]]], ["set_label_style", [["LS", "disamb"]]], ["reduce_columns", []],
    ["add_cte", [["F", CTE]]], ["params", [], {"p": 11}], ["options", [["O", ["selectinload", "A", "bs"]]]], ["options", [["O", ["joinedload", "A", "bs"]]]],
    ["options", [["O", ["load_only", "A", ["x"]]]]], ["join", [["F", ["rel", "A", "bs"]]]],
]
COMPOUND_CALLS = [
    ["order_by", [["E", ["name", "id"]]]], ["order_by", [None]], ["group_by", [["E", ["name", "id"]]]], ["limit", [5]], ["limit", [None]], ["offset", [2]], ["fetch", [3]], ["slice", [1, 3]],
    ["with_for_update", []], ["execution_options", [], {"foo": 1}], ["add_cte", [["F", CTE]]], ["set_label_style", [["LS", "tcol"]]], ["set_label_style", [["LS", "disamb"]]], ["params", [], {"p": 11}],
]
INSERT_CALLS = [
    ["values", [], {"x": 1}], ["values", [], {"s": "z"}], ["values", [[{"x": 1}, {"x": 2}]]], ["values", [], {"x": ["E", ["op", "+", ["bp", "p", 3], 1]]}], ["returning", [["E", AID]]],
    ["returning", [["E", AX], ["E", AS_]]], ["returning", [["E", AID]], {"sort_by_parameter_order": True}], ["prefix_with", ["/*p*/"]], ["from_select", [["x"], ["S", {"k": "select", "cols": [BAID]}]]],
    ["from_select", [["x", "s"], ["S", {"k": "select", "cols": [BX, C.BS]}]], {"include_defaults": False}], ["inline", []], ["return_defaults", []], ["return_defaults", [["E", AX]]],
    ["execution_options", [], {"foo": 1}], ["with_hint", ["H"]], ["with_hint", ["WITH (TABLOCK)"], {"dialect_name": "mssql"}], ["add_cte", [["F", CTE]]], ["params", [], {"p": 11}],
    ["with_dialect_options", [], {"mysql_limit": 3}],
]
PG_CALLS = [["on_conflict_do_nothing", []], ["on_conflict_do_nothing", [], {"index_elements": ["id"]}],
            ["on_conflict_do_update", [], {"index_elements": ["id"], "set_": {"x": 3}}], ["on_conflict_do_update", [], {"index_elements": ["id"], "set_": {"x": 4}, "where": ["E", W1]}]]
MYSQL_CALLS = [["on_duplicate_key_update", [], {"x": 5}], ["on_duplicate_key_update", [], {"s": "d", "x": 6}]]
UPDATE_CALLS = [
    ["where", [["E", W1]]], ["where", [["E", ["op", "==", AS_, ["bp", "p", "q"]]]]], ["where", [["E", ["op", "==", AID, BAID]]]], ["filter_by", [], {"x": 3}], ["values", [], {"x": 1}],
    ["values", [], {"s": "z"}], ["values", [], {"x": ["E", ["op", "+", AX, 1]]}], ["ordered_values", [["TUP", [["E", AX], 1]], ["TUP", [["E", AS_], "q"]]]], ["returning", [["E", AID]]],
    ["returning", [["E", AX], ["E", AS_]]], ["prefix_with", ["/*p*/"]], ["execution_options", [], {"foo": 1}], ["return_defaults", []], ["with_hint", ["H"]],
    ["with_dialect_options", [], {"mysql_limit": 2}], ["inline", []], ["add_cte", [["F", CTE]]], ["params", [], {"p": 11}],
]
DELETE_CALLS = [
    ["where", [["E", W1]]], ["where", [["E", ["in_sub", AID, SUBSEL]]]], ["where", [["E", ["op", "==", AS_, ["bp", "p", "q"]]]]], ["where", [["E", ["op", "==", AID, BAID]]]], ["filter_by", [], {"x": 3}],
    ["returning", [["E", AID]]], ["returning", [["E", AX], ["E", AS_]]], ["prefix_with", ["/*p*/"]], ["execution_options", [], {"foo": 1}], ["with_hint", ["H"]], ["using", [["T", "b"]]],
    ["add_cte", [["F", CTE]]], ["with_dialect_options", [], {"mysql_limit": 2}], ["return_defaults", []], ["params", [], {"p": 11}],
]
TEXT_CALLS = [["bindparams", [], {"p": 5}], ["bindparams", [], {"p": 6, "q": "z"}], ["bindparams", [["E", ["bp", "p", 7, {"type": ["Integer"]}]]]], ["execution_options", [], {"foo": 1}],
              ["params", [], {"p": 11}], ["columns", [["E", ["col", "a", ["Integer"]]]]]]

# ---- name dimension: identifiers that must be sanitized / escaped when they become bind names or labels
NAMES = ["_data", "flag_", "(odd)", "a b", "a.b", "per%cent", "__dunder__", "q:r", "[br]", "1st"]


def _world():
    """the fixed schema + table n(id, <NAMES>) — added to this process's copy of the shared world only"""
    w = C.world()
    if "n" not in w.tables:
        from sqlalchemy import Column, Integer, String, Table
        w.tables["n"] = Table("n", w.metadata, Column("id", Integer, primary_key=True), Column("_data", String(30)),
                              *[Column(x, Integer) for x in NAMES[1:]])
    return w


_world()


def _nc(name):
    return ["c", "n", name]


NID = _nc("id")
NAME_WHERES = [["op", "==", _nc("_data"), "x"], ["in", _nc("flag_"), [1, 2]], ["op", ">", _nc("(odd)"), 7], ["op", "==", _nc("a b"), 1], ["op", "==", _nc("a.b"), 2],
               ["op", "<", _nc("per%cent"), 3], ["between", _nc("__dunder__"), 1, 9], ["op", "!=", _nc("q:r"), 4], ["op", "==", _nc("[br]"), ["op", "+", _nc("1st"), 5]],
               ["op", "==", ["col", "_adhoc"], 6], ["op", "==", ["col", "adhoc_("], ["bp", "_p", 7]], ["op", ">", NID, ["bp", "p_", 8, {"unique": True}]],
               ["op", "<", NID, ["bp", "x(y)", 9, {"unique": True}]], ["op", "==", _nc("_data"), ["bp", "_data", "z"]], ["in_bp", _nc("flag_"), "_ids", [4, 5]],
               ["op", "like", _nc("_data"), "_%"], ["op", "==", ["fn", "coalesce", [_nc("flag_"), 0]], 1]]
NAME_SELECT_CALLS = [["where", [["E", w_]]] for w_ in NAME_WHERES] + [
    ["filter_by", [], {"_data": "v"}], ["filter_by", [], {"flag_": 1, "(odd)": 2}], ["having", [["E", ["op", ">", ["fn", "max", [_nc("flag_")]], 1]]]],
    ["order_by", [["E", ["un", "desc", _nc("_data")]]]], ["group_by", [["E", _nc("(odd)")]]], ["add_columns", [["E", _nc("per%cent")]]],
    ["add_columns", [["E", ["label", ["op", "+", _nc("flag_"), 1], "_lbl_"]]]], ["with_only_columns", [["E", _nc("a.b")], ["E", _nc("a b")]]],
    ["limit", [5]], ["offset", [2]], ["distinct", []], ["set_label_style", [["LS", "tcol"]]], ["set_label_style", [["LS", "none"]]], ["join", [["T", "n:_n1"], ["E", ["op", "==", NID, ["c", "n:_n1", "flag_"]]]]],
    ["add_cte", [["F", ["cte", {"k": "select", "cols": [_nc("_data")], "where": [["op", "==", _nc("flag_"), 1]]}, "_cw"]]]], ["with_for_update", []], ["params", [], {"_p": 11}],
    ["where", [["E", ["in_sub", NID, {"k": "select", "cols": [_nc("(odd)")], "where": [["op", "==", _nc("_data"), "s"]]}]]]],
]
NAME_VALUES = [["values", [{"_data": "x"}]], ["values", [{"flag_": 1, "(odd)": 2, "a b": 3}]], ["values", [{"a.b": 1, "per%cent": 2, "q:r": 3, "[br]": 4, "1st": 5, "__dunder__": 6}]],
               ["values", [{"_data": ["E", ["bp", "_v", "q"]]}]], ["values", [{"flag_": ["E", ["op", "+", _nc("flag_"), 1]]}]]]
NAME_DML_COMMON = [["returning", [["E", NID], ["E", _nc("_data")]]], ["returning", [["E", _nc("(odd)")]]], ["prefix_with", ["/*p*/"]], ["add_cte", [["F", ["cte", {"k": "select", "cols": [_nc("_data")]}, "_cw"]]]]]
NAME_INSERT_CALLS = NAME_VALUES[:4] + [["values", [[{"_data": "x", "flag_": 1}, {"_data": "y", "flag_": 2}]]], ["from_select", [["_data", "flag_"], ["S", {"k": "select", "cols": [_nc("_data"), _nc("(odd)")],
                                                                                                                  "where": [["op", ">", _nc("flag_"), 1]]}]]]] + NAME_DML_COMMON
NAME_PG_CALLS = [["on_conflict_do_nothing", [], {"index_elements": ["id"]}], ["on_conflict_do_update", [], {"index_elements": ["id"], "set_": {"_data": "u", "(odd)": 3}}],
                 ["on_conflict_do_update", [], {"index_elements": [["E", NID]], "set_": {"flag_": 4}, "where": ["E", NAME_WHERES[0]]}]]
NAME_MYSQL_CALLS = [["on_duplicate_key_update", [{"_data": "d", "per%cent": 6}]], ["on_duplicate_key_update", [[["TUP", ["flag_", 1]], ["TUP", ["(odd)", 2]]]]]]
NAME_UPDATE_CALLS = [["where", [["E", w_]]] for w_ in NAME_WHERES[:9] + NAME_WHERES[10:14]] + NAME_VALUES + [["filter_by", [], {"_data": "v"}],
                    ["ordered_values", [["TUP", [["E", _nc("flag_")], 1]], ["TUP", [["E", _nc("_data")], "q"]]]]] + NAME_DML_COMMON
NAME_DELETE_CALLS = [["where", [["E", w_]]] for w_ in NAME_WHERES[:9] + NAME_WHERES[10:14]] + [["filter_by", [], {"(odd)": 2}]] + NAME_DML_COMMON
NAME_TEXT_CALLS = [["bindparams", [], {"_p": 5}], ["bindparams", [], {"_p": 6, "p_": "z"}], ["bindparams", [["E", ["bp", "_p", 7, {"type": ["Integer"]}]]]], ["params", [], {"p_": 11}],
                   ["columns", [["E", ["col", "_c", ["Integer"]]]]], ["execution_options", [], {"foo": 1}]]
N1 = {"k": "select", "cols": [NID, _nc("_data")]}
N2 = {"k": "select", "cols": [["tbl", "n"]], "where": [["op", "==", _nc("flag_"), ["bp", "_p", 1]]], "order_by": [_nc("(odd)")]}

S1 = {"k": "select", "cols": [AID, AX]}
S2 = {"k": "select", "cols": [AID, BX], "joins": [["b", None]], "where": [["op", "==", AS_, ["bp", "p", "v"]]], "order_by": [AID]}
S3 = {"k": "select", "cols": [["ent", "A"]], "where": [["op", ">", ["attr", "A", "x"], 1]]}
S4 = {"k": "select", "cols": [["fn", "count", [AID]], AX], "group_by": [AX], "limit": 10, "label_style": "tcol"}


# ---- compound dimension: operator x shape of the first member x label style of a member (base-choice combination)
def _member(ls=None, limit=None):
    d = {"k": "select", "cols": [AID, BID], "joins": [["b", None]]}            # a.id, b.id: colliding names
    if ls:
        d["label_style"] = ls
    if limit:
        d["limit"] = limit
    return d


M2 = {"k": "select", "cols": [AX, ["c", "a", "parent_id"]], "where": [["op", "==", AS_, ["bp", "p", "v"]]]}
COMPOUND_KINDS = ["union", "union_all", "intersect", "intersect_all", "except", "except_all"]
COMPOUND_MEMBER_BASES = (
    [{"k": k_, "selects": [_member("none"), M2]} for k_ in COMPOUND_KINDS]                                              # operator
    + [{"k": "union", "selects": [_member("none", limit=3), M2]},                                                      # first member grouped
       {"k": "union", "selects": [{"k": "union_all", "selects": [_member("none"), M2]}, M2]}]                          # first member a compound
    + [{"k": "union", "selects": [_member(ls), M2]} for ls in (None, "tcol")]                                          # label style of the first member
    + [{"k": "union", "selects": [M2, _member("none")]}, {"k": "union", "selects": [_member("none"), _member("none"), M2]}])   # second member / both

# ---- derivation dimension: methods / constructors that build a new construct around the statement
SELECTBASE_DERIVE = [
    ["subquery", []], ["subquery", ["sq"]], ["alias", ["al"]], ["alias", ["al"], {"flat": True}], ["cte", ["c1"]], ["cte", ["c1"], {"recursive": True}], ["cte", ["c1"], {"nesting": True}],
    ["lateral", ["l1"]], ["scalar_subquery", []], ["exists", []], ["label", ["lb"]], ["self_group", []],
    ["@compound", "union", 0], ["@compound", "union", 1], ["@compound", "union_all", 0], ["@compound", "intersect", 0], ["@compound", "intersect_all", 0], ["@compound", "except_", 0],
    ["@compound", "except_all", 1], ["@in", AID], ["@from_select", "b"],
]
SELECT_DERIVE = [["@method_compound", m_] for m_ in ("union", "union_all", "intersect", "intersect_all", "except_", "except_all")]
DML_DERIVE = [["cte", ["d1"]], ["cte", ["d1"], {"nesting": True}]]
TEXT_DERIVE = [["self_group", []]]
DERIVE = {"SelectBase": SELECTBASE_DERIVE, "Select": SELECT_DERIVE, "UpdateBase": DML_DERIVE, "TextClause": TEXT_DERIVE}

BASES = {
    "Select": ([S1, S2, S3, S4], SELECT_CALLS),
    "CompoundSelect": ([{"k": "union", "selects": [{"k": "select", "cols": [AID]}, {"k": "select", "cols": [BID], "where": [["op", "==", BX, ["bp", "p", 2]]]}]}], COMPOUND_CALLS),
    "CompoundSelect[members]": (COMPOUND_MEMBER_BASES, COMPOUND_CALLS),
    "Insert": ([{"k": "insert", "t": "a"}, {"k": "insert", "t": "ent:A"}], INSERT_CALLS),
    "Insert[postgresql]": ([{"k": "insert", "t": "a", "fam": "pg", "values": {"id": 1}}], INSERT_CALLS[:6] + PG_CALLS),
    "Insert[sqlite]": ([{"k": "insert", "t": "a", "fam": "sqlite", "values": {"id": 1}}], INSERT_CALLS[:6] + PG_CALLS),
    "Insert[mysql]": ([{"k": "insert", "t": "a", "fam": "mysql", "values": {"id": 1}}], INSERT_CALLS[:6] + MYSQL_CALLS),
    "Update": ([{"k": "update", "t": "a"}, {"k": "update", "t": "ent:A", "values": {"s": "k"}}], UPDATE_CALLS),
    "Delete": ([{"k": "delete", "t": "a"}, {"k": "delete", "t": "ent:A"}], DELETE_CALLS),
    "TextClause": ([{"k": "text", "sql": "select * from a where x = :p and s = :q"}], TEXT_CALLS),
    "Select[names]": ([N1, N2], NAME_SELECT_CALLS),
    "CompoundSelect[names]": ([{"k": "union", "selects": [{"k": "select", "cols": [_nc("flag_")], "where": [NAME_WHERES[0]]}, {"k": "select", "cols": [_nc("(odd)")], "where": [NAME_WHERES[2]]}]}],
                              [["order_by", [["E", ["name", "flag_"]]]], ["limit", [5]], ["offset", [2]], ["add_cte", [["F", ["cte", {"k": "select", "cols": [_nc("_data")]}, "_cw"]]]], ["params", [], {"_p": 11}],
                               ["set_label_style", [["LS", "tcol"]]]]),
    "Insert[names]": ([{"k": "insert", "t": "n"}], NAME_INSERT_CALLS),
    "Insert[postgresql][names]": ([{"k": "insert", "t": "n", "fam": "pg", "values": {"id": 1}}], NAME_INSERT_CALLS[:5] + NAME_PG_CALLS),
    "Insert[sqlite][names]": ([{"k": "insert", "t": "n", "fam": "sqlite", "values": {"id": 1}}], NAME_INSERT_CALLS[:3] + NAME_PG_CALLS),
    "Insert[mysql][names]": ([{"k": "insert", "t": "n", "fam": "mysql", "values": {"id": 1}}], NAME_INSERT_CALLS[:3] + NAME_MYSQL_CALLS),
    "Update[names]": ([{"k": "update", "t": "n"}], NAME_UPDATE_CALLS),
    "Delete[names]": ([{"k": "delete", "t": "n"}], NAME_DELETE_CALLS),
    "TextClause[names]": ([{"k": "text", "sql": "select * from n where flag_ = :_p and \"(odd)\" = :p_"}], NAME_TEXT_CALLS),
}
DELEGATING = {"filter", "filter_by", "outerjoin", "outerjoin_from", "set_label_style", "reduce_columns", "ordered_values", "on_conflict_do_nothing", "on_conflict_do_update",
              "on_duplicate_key_update", "columns"}


# ------------------------------------------------------------------------------------------------ mechanical discovery
def discover():
    """{class name: sorted generative method names} from the AST (decorator `_generative`, or `self._generate()` in the body)"""
    import sqlalchemy
    root = os.path.dirname(sqlalchemy.__file__)
    byname = {}
    for f in ("sql/selectable.py", "sql/dml.py", "sql/elements.py", "sql/base.py", "dialects/postgresql/dml.py", "dialects/sqlite/dml.py", "dialects/mysql/dml.py"):
        tree = ast.parse(open(os.path.join(root, f)).read())
        for cls in [n for n in ast.walk(tree) if isinstance(n, ast.ClassDef)]:
            for fn in cls.body:
                if not isinstance(fn, ast.FunctionDef):
                    continue
                deco = any((isinstance(d, ast.Name) and d.id == "_generative") or (isinstance(d, ast.Attribute) and d.attr == "_generative") for d in fn.decorator_list)
                direct = any(isinstance(n, ast.Call) and isinstance(n.func, ast.Attribute) and n.func.attr == "_generate" and isinstance(n.func.value, ast.Name) and n.func.value.id == "self"
                             for n in ast.walk(fn)) and fn.name != "_generate"
                if deco or direct:
                    byname.setdefault(cls.name, set()).add(fn.name)
    from sqlalchemy import Select, CompoundSelect, Insert, Update, Delete, TextClause
    from sqlalchemy.sql.selectable import TextualSelect
    from sqlalchemy.dialects import postgresql, sqlite, mysql
    out = {}
    for label, cls in (("Select", Select), ("CompoundSelect", CompoundSelect), ("Insert", Insert), ("Update", Update), ("Delete", Delete), ("TextClause", TextClause),
                       ("TextualSelect", TextualSelect), ("Insert[postgresql]", postgresql.Insert), ("Insert[sqlite]", sqlite.Insert), ("Insert[mysql]", mysql.Insert)):
        ms = set()
        for b in cls.__mro__:
            ms |= byname.get(b.__name__, set())
        out[label] = sorted(ms)
    return out


# ------------------------------------------------------------------------------------------------ calls, snapshots
def _arg(ctx, a):
    if isinstance(a, list) and a and isinstance(a[0], str):
        t = a[0]
        if t == "E":
            return C.E(ctx, a[1])
        if t == "S":
            return C.S(ctx, a[1])
        if t == "F":
            return C.F(ctx, a[1])
        if t == "T":
            return ctx.table(a[1])
        if t == "O":
            return C.OPT(ctx, a[1])
        if t == "LS":
            return C.LABEL_STYLES[a[1]]
        if t == "TUP":
            return tuple(_arg(ctx, x) for x in a[1])
    if isinstance(a, list):
        return [_arg(ctx, x) for x in a]
    if isinstance(a, dict):
        return {k: _arg(ctx, v) for k, v in a.items()}
    return a


def apply_call(stmt, call, w=None):
    ctx = C.Ctx(w or C.world())
    ctx.dml = stmt
    args = [_arg(ctx, a) for a in call[1]]
    kw = {k: _arg(ctx, v) for k, v in (call[2] if len(call) > 2 else {}).items()}
    with warnings.catch_warnings():
        warnings.simplefilter("ignore")
        return getattr(stmt, call[0])(*args, **kw)


_D = None


def _dialects():
    global _D
    if _D is None:
        _D = [(dn, C.get_dialect(dn)) for dn in DIALECTS]
    return _D


def fresh_key(s):
    from sqlalchemy.sql.cache_key import HasCacheKey
    try:
        k = HasCacheKey._generate_cache_key(s)
        return k.key if k is not None else None
    except Exception as e:  # noqa: BLE001
        return ("KEYEXC", type(e).__name__)


def snapshot(s, with_key=True, only=None):
    """only: indexes into DIALECTS (a partial snapshot, compared entry by entry with a full one by part_diff)"""
    out = []
    with warnings.catch_warnings():
        warnings.simplefilter("ignore")
        for dn, d in (_dialects() if only is None else [_dialects()[i] for i in only]):
            try:
                c = s.compile(dialect=d)
                out.append((dn, str(c), tuple(sorted((k, repr(v)) for k, v in (c.params or {}).items()))))
            except Exception as e:  # noqa: BLE001
                out.append((dn, "EXC", type(e).__name__))
    if with_key:
        out.append(("key", fresh_key(s)))
    return out


def key_split(k):
    """(key without its 'dialect_options' element, that element) — to classify what part of a key changed"""
    if not isinstance(k, tuple):
        return k, None
    out, opts = [], None
    i = 0
    while i < len(k):
        if k[i] == "dialect_options" and i + 1 < len(k):
            opts = k[i + 1]
            i += 2
            continue
        out.append(k[i])
        i += 1
    return tuple(out), opts


def snap_diff(a, b):
    return [x[0] for x, y in zip(a, b) if x != y]


def part_diff(full, part):
    """names of the entries of the partial snapshot that differ from the same-named entries of the full one"""
    ref = {x[0]: x for x in full}
    return [y[0] for y in part if ref[y[0]] != y]


def what_changed(a, b):
    """'sql[mysql,oracle]' / 'key' / 'key.dialect_options' (only the lazily populated dialect_options element of the key)"""
    names = snap_diff(a, b)
    parts = []
    sql = [n for n in names if n != "key"]
    if sql:
        parts.append("sql[%s]" % ",".join(sql))
    if "key" in names:
        ka, kb = key_split(a[-1][1]), key_split(b[-1][1])
        parts.append("key" if ka[0] != kb[0] else "key.dialect_options")
    return "+".join(parts)


def run_chain(base_desc, calls, w=None, full=True):
    """replay helper: apply the calls in order; after every call re-snapshot every ancestor (frame of the call) and,
    after compiling the result, re-compute every ancestor's key (frame of compilation); list of failures"""
    fails = []
    chain = [C.build(base_desc, w)]
    snaps = [snapshot(chain[0])]
    for n, call in enumerate(calls):
        try:
            nxt = apply_call(chain[-1], call, w)
        except Exception as e:  # noqa: BLE001
            fails.append(("rejected", n, "%s: %s" % (type(e).__name__, str(e)[:100]), None))
            break
        for k, st in enumerate(chain):
            now = snapshot(st)
            df = snap_diff(snaps[k], now)
            if df:
                fails.append(("frame." + what_changed(snaps[k], now), n, "ancestor %d changed on %s by call %d (%s)" % (k, df, n, call[0]),
                              dict(ancestor=k, differs=df, before=_j(snaps[k], df), after=_j(now, df))))
                snaps[k] = now
        chain.append(nxt)
        snaps.append(snapshot(nxt))
        for k, st in enumerate(chain[:-1]):
            kn = fresh_key(st)
            if kn != snaps[k][-1][1]:
                now = snaps[k][:-1] + [("key", kn)]
                fails.append(("compile_frame." + what_changed(snaps[k], now), n, "compiling the result of call %d (%s) changed the cache key of ancestor %d" % (n, call[0], k),
                              dict(ancestor=k, differs=["key"], before=_j(snaps[k], ["key"]), after=_j(now, ["key"]))))
                snaps[k] = now
        again = snapshot(nxt)
        df = snap_diff(snaps[-1], again)
        if df:
            fails.append(("determinism." + what_changed(snaps[-1], again), n, "two snapshots of the result of call %d differ on %s" % (n, df), dict(differs=df, before=_j(snaps[-1], df), after=_j(again, df))))
    return fails, chain, snaps


def _j(snap, names):
    return [[x[0], repr(x[1])[:300], repr(x[2])[:200] if len(x) > 2 else None] for x in snap if x[0] in names][:3]


def _is_orm(stmt):
    try:
        return bool(stmt._propagate_attrs.get("compile_state_plugin") == "orm")
    except Exception:  # noqa: BLE001
        return False


def _pickle(stmt):
    if _is_orm(stmt):
        from sqlalchemy.ext import serializer
        return serializer.loads(serializer.dumps(stmt), C.world().metadata)
    return pickle.loads(pickle.dumps(stmt))


_UNRELATED = None


def _unrelated():
    """an alias of a table that occurs in no statement of the scope: adapting to it replaces nothing, it only clones"""
    global _UNRELATED
    if _UNRELATED is None:
        from sqlalchemy import Column, Integer, MetaData, Table
        _UNRELATED = Table("zz_unrelated", MetaData(), Column("zz_q", Integer)).alias("zz_al")
    return _UNRELATED


def _noop(element):
    return None


def _clone_kinds():
    """(name, copy function, compare the cache key too).  The deep clones are compared on SQL + parameters only: a clone
    need not preserve object sharing inside the statement (an alias that is both a join target and the table of a column
    in the ON clause becomes two clones), which the cache key tracks by design — key equality is C02's subject."""
    from sqlalchemy.sql import util as sql_util, visitors
    return [
        ("cloned_traverse", lambda s: visitors.cloned_traverse(s, {}, {}), False),
        ("cloned_traverse+visitors", lambda s: visitors.cloned_traverse(s, {}, {"binary": _noop, "bindparam": _noop, "column": _noop, "select": _noop}), False),
        ("replacement_traverse", lambda s: visitors.replacement_traverse(s, {}, _noop), False),
        ("ClauseAdapter", lambda s: sql_util.ClauseAdapter(_unrelated()).traverse(s), False),
        ("ColumnAdapter", lambda s: sql_util.ColumnAdapter(_unrelated()).traverse(s), False),
        ("clone_of_clone", lambda s: visitors.cloned_traverse(visitors.replacement_traverse(s, {}, _noop), {}, {}), False),
        ("deep_annotate", lambda s: sql_util._deep_annotate(s, {"c03": 1}), False),
    ]


CLONES = ["cloned_traverse", "cloned_traverse+visitors", "replacement_traverse", "ClauseAdapter", "ColumnAdapter", "clone_of_clone", "deep_annotate"]


def deep_clone(stmt):
    from sqlalchemy.sql import visitors
    return visitors.cloned_traverse(stmt, {}, {})


def copies(stmt, snap, rotate=None):
    """value copies have the same snapshot; returns [(how, what changed, detail, payload)].  rotate=None: all deep-clone
    kinds; rotate=i: the two kinds i and i+3 (mod the number of kinds)"""
    fails = []
    kinds = _clone_kinds()
    if rotate is not None:
        kinds = [kinds[rotate % len(kinds)], kinds[(rotate + 3) % len(kinds)]]
    for how, f, with_key in [("copy.copy", copy.copy, True), ("_clone", lambda s: s._clone(), True), ("pickle", _pickle, False)] + kinds:
        try:
            c2 = f(stmt)
        except Exception as e:  # noqa: BLE001
            fails.append((how, "raised", "raised %s: %s" % (type(e).__name__, str(e)[:120]), None))
            continue
        s2 = snapshot(c2, with_key)
        ref = snap if with_key else snap[:-1]
        df = snap_diff(ref, s2)
        if df:
            fails.append((how, what_changed(ref, s2) if with_key else "sql[%s]" % ",".join(df), "snapshot differs on %s" % df, dict(differs=df, before=_j(ref, df), after=_j(s2, df))))
    return fails


def clone_then_call(cur, call, snap_of_cur, snap_of_result):
    """the copy relation commutes with the generative call: clone(cur).m(args) has the SQL + parameters of cur.m(args);
    and the frame condition holds for a clone as receiver: the call leaves clone(cur) as it was (== snapshot of cur)"""
    cl = deep_clone(cur)
    try:
        r2 = apply_call(cl, call)
    except Exception as e:  # noqa: BLE001
        return [("clone+call", "raised[%s]" % type(e).__name__, "clone(s).%s(..) raised %s: %s (s.%s(..) did not)" % (call[0], type(e).__name__, str(e)[:120], call[0]), None)]
    out = []
    for how, obj, ref, what in (("clone+call", r2, snap_of_result, "snapshot of clone(s).%s(..) differs from s.%s(..)" % (call[0], call[0])),
                                ("clone+call:frame", cl, snap_of_cur, "clone(s) changed by clone(s).%s(..)" % call[0])):
        s2 = snapshot(obj, False)
        df = snap_diff(ref[:-1], s2)
        if df:
            out.append((how, "sql[%s]" % ",".join(df), "%s on %s" % (what, df), dict(differs=df, before=_j(ref, df), after=_j(s2, df))))
    return out



# ------------------------------------------------------------------------------------------------ derivations
def derive_ops(stmt):
    """the derivations of the catalogue applicable to the type of `stmt`"""
    from sqlalchemy import Select, TextClause
    from sqlalchemy.sql.dml import UpdateBase
    from sqlalchemy.sql.selectable import SelectBase
    ops = []
    if isinstance(stmt, SelectBase):
        ops += SELECTBASE_DERIVE
    if isinstance(stmt, Select):
        ops += SELECT_DERIVE
    if isinstance(stmt, UpdateBase):
        ops += DML_DERIVE
    if isinstance(stmt, TextClause):
        ops += TEXT_DERIVE
    return ops


def op_name(op):
    return op[0] if not op[0].startswith("@") else "%s:%s" % (op[0], op[1] if isinstance(op[1], str) else "")


def _other_select(stmt):
    """a SELECT with as many columns as `stmt`, to sit next to it in a compound"""
    import sqlalchemy as sa
    try:
        n = len(list(stmt.selected_columns))
    except Exception:  # noqa: BLE001
        n = 1
    return sa.select(*[sa.literal_column(str(i)).label("o%d" % i) for i in range(max(n, 1))])


def apply_derive(stmt, op, w=None):
    """op (JSON-able) -> the derived construct"""
    import sqlalchemy as sa
    if not op[0].startswith("@"):
        return apply_call(stmt, op, w)
    with warnings.catch_warnings():
        warnings.simplefilter("ignore")
        if op[0] == "@compound":
            fn = getattr(sa, op[1])
            return fn(stmt, _other_select(stmt)) if op[2] == 0 else fn(_other_select(stmt), stmt)
        if op[0] == "@method_compound":
            return getattr(stmt, op[1])(_other_select(stmt))
        ctx = C.Ctx(w or C.world())
        if op[0] == "@in":
            col = C.E(ctx, op[1])
            return sa.select(col).where(col.in_(stmt))
        if op[0] == "@from_select":
            t = ctx.table(op[1])
            try:
                n = len(list(stmt.selected_columns))
            except Exception:  # noqa: BLE001
                n = 1
            return sa.insert(t).from_select([c_.name for c_ in list(t.c)[:n]], stmt)
    raise KeyError(op[0])


def use(obj, dialects):
    """what a caller does with a derived construct: read its columns, compile it (a FROM element / column expression
    inside a SELECT); returns [(dialect name, SQL)]; a construct that does not compile somewhere is not our subject"""
    import sqlalchemy as sa
    from sqlalchemy.sql.elements import ColumnElement
    from sqlalchemy.sql.selectable import FromClause
    out = []
    with warnings.catch_warnings():
        warnings.simplefilter("ignore")
        try:
            if isinstance(obj, FromClause):
                list(obj.c)
                target = sa.select(obj)
            elif isinstance(obj, ColumnElement):
                target = sa.select(obj)
            else:
                target = obj
        except Exception:  # noqa: BLE001
            return out
        for dn, d in dialects:
            try:
                out.append((dn, str(target.compile(dialect=d))))
            except Exception:  # noqa: BLE001
                pass
    return out


def derive_chain(base_desc, calls, ops, w=None):
    """replay / attribution helper: rebuild the chain, apply the derivations one at a time to its last statement and
    re-snapshot the whole chain after each"""
    fails = []
    chain = [C.build(base_desc, w)]
    for call in calls:
        chain.append(apply_call(chain[-1], call, w))
    snaps = [snapshot(st) for st in chain]
    for op in ops:
        try:
            obj = apply_derive(chain[-1], op, w)
        except Exception:  # noqa: BLE001
            continue
        use(obj, _dialects())
        for k, st in enumerate(chain):
            now = snapshot(st)
            df = snap_diff(snaps[k], now)
            if df:
                fails.append(("derive[%s].%s" % (op_name(op), what_changed(snaps[k], now)), op,
                              "statement %d of the chain (of %d) changed on %s by the derivation %s of the last one" % (k, len(chain), df, json.dumps(op)),
                              dict(ancestor=k, differs=df, before=_j(snaps[k], df), after=_j(now, df))))
                snaps[k] = now
    return fails


# ------------------------------------------------------------------------------------------------ worker
def _tasks(tier):
    """(class label, base index, first call index): one DFS subtree each"""
    out = []
    for label, (bases, calls) in BASES.items():
        for bi in range(len(bases)):
            for ci in range(len(calls)):
                out.append((label, bi, ci))
    return out


def _depth(tier, label, bi):
    if tier == "quick":
        return 2
    if label.endswith("[names]"):
        return 2
    return 3 if (label != "Select" or bi in (0, 2)) else 2


def _worker(shard, nshards, tier, seed):
    import random
    tasks = _tasks(tier)
    if seed:
        random.Random(seed).shuffle(tasks)
    out = dict(calls=0, rejected=0, snaps=0, failures=[], sql=set(), chains=0, returned_self={}, samples=[], copies=0, methods={}, derivations=0, derive_rejected=0, derive_ops={},
               derive_steps=0)

    def fail(kind, label, base, path, detail, payload):
        out["failures"].append(dict(function="%s:%s.%s" % (kind, label, path[-1][0] if path else "base"), input=dict(base=base, calls=path), detail=detail, **(payload or {})))

    def derive_step(label, base, path, chain, snaps, rotate=None):
        """all (rotate=None) or a third (rotate=i) of the derivations applicable to chain[-1], each followed by use();
        then the frame condition for the whole chain; the derivation at fault is named by derive_chain on a rebuilt chain"""
        out["derive_steps"] += 1
        ops = derive_ops(chain[-1])
        if rotate is not None:
            ops = ops[rotate % 3::3]
        dl = _dialects()
        for n_, op in enumerate(ops):
            try:
                obj = apply_derive(chain[-1], op)
            except Exception:  # noqa: BLE001
                out["derive_rejected"] += 1
                continue
            out["derivations"] += 1
            out["derive_ops"][op_name(op)] = out["derive_ops"].get(op_name(op), 0) + 1
            i = 1 + (out["derivations"] + n_) % (len(dl) - 1)
            for dn, sql_ in use(obj, [dl[0], dl[i]]):
                out["sql"].add(hashlib.md5((dn + sql_).encode()).digest()[:8])
        changed = []
        for k, st in enumerate(chain):
            if rotate is not None:                     # after two calls: SQL on the default and one more dialect, and the key
                if part_diff(snaps[k], snapshot(st, only=[0, 1 + (rotate + k) % (len(dl) - 1)])):
                    changed.append(k)
                else:
                    out["snaps"] += 1
                    continue
            now = snapshot(st)
            out["snaps"] += 1
            df = snap_diff(snaps[k], now)
            if df:
                changed.append((k, df, snaps[k], now))
                snaps[k] = now
        changed = [c_ for c_ in changed if isinstance(c_, tuple)]
        if changed:
            named = derive_chain(base, path, ops)
            for fn_, op, detail, payload in named:
                out["failures"].append(dict(function="%s:%s.%s" % (fn_, label, path[-1][0] if path else "base"), input=dict(base=base, calls=path, derive=[op]), detail=detail, **payload))
            if not named:                              # depends on the history of this process: report the whole step
                k, df, before, now = changed[0]
                out["failures"].append(dict(function="derive[*].%s:%s.%s" % (what_changed(before, now), label, path[-1][0] if path else "base"), input=dict(base=base, calls=path, derive=ops),
                                            detail="statement %d of the chain changed on %s after the derivations %s" % (k, df, [op_name(o) for o in ops]),
                                            ancestor=k, differs=df, before=_j(before, df), after=_j(now, df)))

    def visit(label, base, calls, chain, snaps, path, call, depth):
        """one generative call on chain[-1] with its contract clauses; recurses"""
        cur = chain[-1]
        try:
            nxt = apply_call(cur, call)
        except Exception:  # noqa: BLE001
            out["rejected"] += 1
            return
        out["calls"] += 1
        out["methods"][label + "." + call[0]] = out["methods"].get(label + "." + call[0], 0) + 1
        npath = path + [call]
        if nxt is cur:
            out["returned_self"][label + "." + call[0]] = out["returned_self"].get(label + "." + call[0], 0) + 1
        # frame of the call: every ancestor (incl. the receiver) is as it was just before the call
        for k, st in enumerate(chain):
            now = snapshot(st)
            out["snaps"] += 1
            df = snap_diff(snaps[k], now)
            if df:
                fail("frame." + what_changed(snaps[k], now), label, base, npath, "ancestor %d changed on %s" % (k, df), dict(ancestor=k, differs=df, before=_j(snaps[k], df), after=_j(now, df)))
                snaps[k] = now
        ns = snapshot(nxt)
        out["snaps"] += 1
        for x in ns[:-1]:
            if x[1] != "EXC":
                out["sql"].add(hashlib.md5((x[0] + x[1]).encode()).digest()[:8])
        # frame of compilation: compiling the derived statement changed no ancestor's key
        for k, st in enumerate(chain):
            kn = fresh_key(st)
            if kn != snaps[k][-1][1]:
                now = snaps[k][:-1] + [("key", kn)]
                fail("compile_frame." + what_changed(snaps[k], now), label, base, npath, "compiling the result changed the cache key of ancestor %d" % k,
                     dict(ancestor=k, differs=["key"], before=_j(snaps[k], ["key"]), after=_j(now, ["key"])))
                snaps[k] = now
        if len(npath) <= 2:
            out["copies"] += 1
            for how, what, detail, payload in copies(nxt, ns, rotate=None if len(npath) == 1 else out["copies"]):
                fail("copy[%s].%s" % (how, what), label, base, npath, detail, payload)
            if len(npath) == 1 or out["copies"] % 4 == 0:
                for how, what, detail, payload in clone_then_call(cur, call, snaps[-1], ns):
                    fail("copy[%s].%s" % (how, what), label, base, npath, detail, payload)
            ns = snapshot(nxt)                      # a copy's compilation may have touched shared state (reported above)
            chain.append(nxt)
            snaps.append(ns)
            derive_step(label, base, npath, chain, snaps, rotate=None if len(npath) == 1 else out["copies"])
            ns = snaps.pop()
            chain.pop()
        if depth == 1:
            out["chains"] += 1
            again = snapshot(nxt)
            out["snaps"] += 1
            df = snap_diff(ns, again)
            if df:
                fail("determinism." + what_changed(ns, again), label, base, npath, "two snapshots differ on %s" % df, dict(differs=df, before=_j(ns, df), after=_j(again, df)))
            if len(out["samples"]) < 1:
                out["samples"].append(dict(base=base, calls=npath, sql_default=ns[0][1][:300]))
        else:
            chain.append(nxt)
            snaps.append(ns)
            for c2 in calls:
                visit(label, base, calls, chain, snaps, npath, c2, depth - 1)
            chain.pop()
            snaps.pop()

    for n, (label, bi, ci) in enumerate(tasks):
        if n % nshards != shard:
            continue
        bases, calls = BASES[label]
        base = bases[bi]
        stmt = C.build(base)
        s0 = snapshot(stmt)
        out["snaps"] += 1
        if ci == 0:
            for how, what, detail, payload in copies(stmt, s0):
                fail("copy[%s].%s" % (how, what), label, base, [], detail, payload)
            s0 = snapshot(stmt)
            sn = [s0]
            derive_step(label, base, [], [stmt], sn)
            s0 = sn[0]
        visit(label, base, calls, [stmt], [s0], [], calls[ci], _depth(tier, label, bi))
    out["sql"] = list(out["sql"])
    return out


def run(run, tier, seed, args):
    found = discover()
    res = C.shard_run(_worker, 64, (tier, seed))
    sql, failures, samples = set(), [], []
    tot = dict(calls=0, rejected=0, snaps=0, chains=0, copies=0, derivations=0, derive_rejected=0, derive_steps=0)
    methods, rself, dops = {}, {}, {}
    for r in res:
        sql.update(r["sql"])
        failures += r["failures"]
        samples += r["samples"]
        for k in tot:
            tot[k] += r[k]
        for k, v in r["methods"].items():
            methods[k] = methods.get(k, 0) + v
        for k, v in r["returned_self"].items():
            rself[k] = rself.get(k, 0) + v
        for k, v in r["derive_ops"].items():
            dops[k] = dops.get(k, 0) + v
    C.report(run, failures, max_new=16)
    covered, uncovered = {}, {}
    for label, ms in found.items():
        have = {k.split(".", 1)[1] for k in methods if k.startswith(label + ".") or k.startswith(label + "[names].") or k.startswith(label + "[members].")}
        covered[label] = sorted(m for m in ms if m in have)
        uncovered[label] = sorted(m for m in ms if m not in have)
    L = 2 if tier == "quick" else 3
    run.coverage.update(
        evaluations=tot["snaps"] + tot["derivations"],
        distinct_nontrivial=len(sql),
        rule="all call chains of length <= L over the catalogue of canonical calls, depth-first from each base statement; after every accepted call every "
             "ancestor is re-snapshotted (SQL + params on 6 dialects + a freshly computed cache key) and compared with its snapshot taken when it was created; "
             "every statement reached by <= 2 calls is also copied (shallow copies, pickle, the deep-clone kinds) and each copy's snapshot compared with the original's, "
             "and put through the derivations (subquery / alias / cte / lateral / scalar_subquery / exists / label / self_group / member of a compound / IN operand / "
             "INSERT..FROM SELECT source), each derived construct used (columns read, compiled on the default and one more dialect in rotation), after which the statement and all "
             "its ancestors are re-snapshotted; evaluations = snapshots taken + derivations applied and used; distinct_nontrivial = distinct (dialect, SQL text) of the statements reached by the calls and of "
             "the constructs derived from them, counted by hash",
        samples=samples[:3],
        exhaustive=True,
        scope="L = %d%s; bases: %s; catalogue sizes: %s; 6 dialects %s; copy.copy / _clone / pickle of every statement reached by <= 2 calls; deep clones %s of "
              "every base and every statement reached by 1 call, two kinds in rotation for the statements reached by 2 calls; clone-then-call == call for every first call "
              "and every fourth second call; derivations %s of every base and every statement reached by 1 call, a third of them in rotation for the statements reached by 2 calls; "
              "class CompoundSelect[members] = compound bases over operator x first-member shape (select / grouped / nested compound) x member label style (default / none / tcol, "
              "first / second member) with colliding column names, base-choice; "
              "classes *[names] = the same over table n with the column / ad-hoc column / bind names %s"
              % (L, "" if tier == "quick" else " (Select bases 1 and 3, *[names]: L = 2)", {k: len(v[0]) for k, v in BASES.items()}, {k: len(v[1]) for k, v in BASES.items()}, list(DIALECTS),
                 CLONES, {k: [op_name(o) + (str(o[2]) if o[0] == "@compound" else "") for o in v] for k, v in DERIVE.items()}, NAMES + ["_adhoc", "adhoc_(", "_p", "p_", "x(y)", "_ids", "_v", "_lbl_", "_cw", "_n1"]),
        generative_calls=tot["calls"], calls_rejected_by_constructors=tot["rejected"], chains_completed=tot["chains"], copies_checked=tot["copies"],
        derivations_applied=tot["derivations"], derivations_rejected_by_constructors=tot["derive_rejected"], statements_put_through_derivations=tot["derive_steps"], derivations_by_kind=dops,
        methods_found_mechanically=found, methods_exercised=covered, methods_not_exercised=uncovered,
        delegating_public_methods_also_exercised=sorted(DELEGATING), returned_self=rself)
    run.assumptions += [
        "observation = compiled SQL text and parameters on six unconnected dialects and the cache key; execution is outside",
        "one or a few canonical argument lists per method (the catalogue in this file); methods listed under methods_not_exercised are private hooks "
        "(_set_compile_options, _update_compile_options, _add_compile_state_func) or reached only through their public wrappers (ext via on_conflict_*; "
        "_ensure_disambiguated_names via the derivations subquery / alias / cte / lateral)",
        "bounded exploration, not a proof",
    ]


def replay(data):
    inp = data["input"]
    kind = data.get("function", "").rsplit(":", 1)[0]           # '<clause>.<what changed>' ; the clause may contain ':' itself
    if kind.startswith("derive"):
        fs = derive_chain(inp["base"], inp["calls"], inp["derive"])
        same = [f for f in fs if f[0] == kind or kind.startswith("derive[*]")]
        if same:
            print("REPLAY-FAILS C03 %s base=%s calls=%s: %s" % (same[0][0], json.dumps(inp["base"])[:300], json.dumps(inp["calls"])[:300], same[0][2]))
            print("  " + json.dumps(same[0][3])[:900])
            return 1
        print("REPLAY-PASSES C03 clause %r holds: the derivations %s leave the chain of %d statement(s) as it was%s"
              % (kind, json.dumps(inp["derive"])[:200], len(inp["calls"]) + 1, "; other classes firing: %s" % sorted({f[0] for f in fs}) if fs else ""))
        return 0
    fails, chain, snaps = run_chain(inp["base"], inp["calls"])
    if kind.startswith("copy") and not (fails and fails[-1][0] == "rejected"):
        cf = copies(chain[-1], snaps[-1])
        if len(chain) > 1:
            cf += clone_then_call(chain[-2], inp["calls"][-1], snaps[-2], snaps[-1])
        fails += [("copy[%s].%s" % (h, wc), len(inp["calls"]), "%s: %s" % (h, d), p) for h, wc, d, p in cf]
    real = [f for f in fails if f[0] != "rejected"]
    same = [f for f in real if f[0] == kind] if kind else real
    other = sorted({f[0] for f in real if f not in same})
    if same:
        print("REPLAY-FAILS C03 %s base=%s calls=%s: %s" % (same[0][0], json.dumps(inp["base"])[:200], json.dumps(inp["calls"])[:300], same[0][2]))
        if same[0][3]:
            print("  " + json.dumps(same[0][3])[:600])
        return 1
    print("REPLAY-PASSES C03 clause %r holds over the %d calls%s%s" % (kind, len(chain) - 1, " (a call was rejected: %s)" % fails[0][2] if fails and fails[0][0] == "rejected" else "",
                                                                    "; other clause classes firing on this chain (see known findings): %s" % other if other else ""))
    return 0
