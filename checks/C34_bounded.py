"""C34 bounded complement — the identity map holds at most one object per row, on real Session histories.

Driven (real, tree under test): `Session.get` (-> `_get_impl` / `loading.get_from_identity`), `Session.scalars(select(...))`
with and without `populate_existing` / `yield_per` (-> `loading._instance_processor` lookup-before-create),
the same loads with an explicit identity token (`Session.get(P, pk, identity_token=T)`, `select(P).execution_options(identity_token=T)`,
T in {"east", "west"}; an identity key is (class, primary key, identity_token), so one row loaded under two tokens is two identities that
live side by side in one Session — the mechanism horizontal sharding is built on), `Session.add` of a detached object (-> `_WeakInstanceDict.add`), `expunge`, `merge`, `refresh`, `expire`, `delete`, a
primary-key change + flush (-> `_WeakInstanceDict.replace / safe_discard`), `commit`, `rollback`, dropping references +
`gc.collect()`; nested transactions: `Session.begin_nested()` (SAVEPOINT), release of the innermost one
(`Session.get_nested_transaction().commit()` -> `SessionTransaction._remove_snapshot`, which hands the bookkeeping of the block —
new / deleted objects, primary-key switches — up to the enclosing transaction) and rollback to it (`.rollback()` ->
`_restore_snapshot`), in every position of a history, so that each mutation is explored outside a SAVEPOINT, inside one that is
released, and inside one that is rolled back, each followed by commit or rollback of the enclosing transaction;
shared harness class P on SQLite :memory: with two rows, engine set up with the documented pysqlite SAVEPOINT recipe.

Contract clauses, evaluated after EVERY operation of every history (C/D/E as `ensures` of the operation just run):
  A  rep invariant: for every (key, obj) in session.identity_map: inspect(obj).key == key and inspect(obj).session is the session
  B  uniqueness: among all objects the harness has ever been handed (tracked weakly) that are alive and *persistent* in this session
     (an object whose DELETE was flushed is in the documented `deleted` state and has left the map), no two share a key, and each is
     identity_map[key]
  C  every object returned by a query / get / merge / refresh is identity_map[its key]; two loads of one row return the same object
     while the first is still attached and alive
  D  `Session.get(P, pk[, identity_token=T])` (T = None when not given) when identity_map holds a live, attached, un-expired object under
     the key (P, (pk,), T): returns that object and emits zero SQL statements (counted with a before_cursor_execute listener)
  T  the object returned by `Session.get(P, pk[, identity_token=T])` — from the map or freshly loaded — has exactly the identity key
     (P, (pk,), T), never the key of another token; every object returned by a select executed with identity_token=T carries token T
  E  `Session.add(detached o)`: raises InvalidRequestError  <=>  identity_map holds a DIFFERENT live object under o's key; when it
     raises the map is unchanged; otherwise identity_map[key] is o afterwards
  R  rollback frame ("that object for the row", across primary-key changes).  ROLLBACK of the outermost transaction (`Session.rollback()`, also
     the one issued after an operation raised) returns the database to its state at the start of the transaction, ROLLBACK TO SAVEPOINT
     (`rollback_nested`) to its state at the `begin_nested()`.  Hence every object that was persistent in the session at that point and is
     persistent in it after the rollback stands for the same row as then and carries the SAME identity key as then; with any other key it is no
     longer found for its row, and the next load of the row makes a second object for it.  Ghost: {object: identity key} of the tracked
     persistent objects, noted (weakly) at the start of the history and after every commit / rollback, plus one such note per open SAVEPOINT
     taken right after `begin_nested()` (a stack that is popped by release / rollback of the innermost SAVEPOINT and emptied by commit /
     rollback).  Objects first seen later in the transaction are not judged by R.
  P  the contract of `Session._register_persistent` that the proof part uses (contracts/session_register.py), evaluated at every real call made by
     a flush of these histories: the assumed PRECONDITION (a flushed state is bound in the identity map under no key but its own; every flushed
     state's key is None or a non-empty tuple; the flushed-states set and the transaction's key-switch dictionary are not the identity map's own
     containers) and the proved POSTCONDITIONS (every live flushed state carries the identity key of its current primary key, that key is bound in
     the identity map to a flushed state carrying it, no flushed state is left bound under another key, an existing key-switch entry keeps its
     first original key and a new one records the key the state had before the flush)
     and the contract of `SessionTransaction._restore_snapshot` (contracts/session_restore.py) at every real call made by a rollback: where the assumed
     precondition holds (every bound state carries the key it is bound under and is not pending; the session has a current transaction; key-switch entries are (original key, new key) pairs), afterwards a
     key-switched state INSERTed in the rolled-back work has no identity key and every other key-switched state has its original key; calls at which the
     precondition does not hold are counted and left to the other clauses
  X  an operation raises only sqlalchemy.exc.SQLAlchemyError subclasses (the session is then rolled back and the history continues)
"""
import gc
import json
import time
import weakref

from rtc import ormharness as H

FN = "orm/identity.py::_WeakInstanceDict+Session"
BASE_OPS = ["query", "query_yield", "populate", "get1", "get2", "expunge1", "readd1", "modify1", "pk1to3", "flush", "commit", "rollback",
            "merge1", "merge_detached1", "refresh1", "expire1", "delete1", "dropref_gc", "new4",
            "begin_nested", "release_nested", "rollback_nested"]
SAVEPOINT_CLOSERS = ("release_nested", "rollback_nested")
TOKENS = ["east", "west"]
# identity-token variants of the loads: <op>_<token>.  Appended, so that range(len(BASE_OPS)) is the token-less catalogue.
TOKEN_OPS = [f"{op}_{t}" for op in ("get1", "get2", "query") for t in TOKENS]
OPS = BASE_OPS + TOKEN_OPS
QUICK_L4_FIRST = ["delete1", "pk1to3", "expunge1", "modify1", "begin_nested"]
_G = dict(engine=None)


def make_engine():
    """SQLite :memory: set up with the documented pysqlite SAVEPOINT recipe"""
    return H.new_engine(savepoint=True)


def reset_db(engine):
    with engine.begin() as c:
        c.exec_driver_sql("delete from p")
        c.exec_driver_sql("insert into p (id, x) values (1, 10), (2, 20)")


def _key(m, pk, token=None):
    from sqlalchemy import inspect
    return inspect(m.P).identity_key_from_primary_key((pk,), identity_token=token)


def _kd(key):
    """an identity key in messages: the primary key, '@token' appended when the key has one"""
    return f"{key[1]}" if key[2] is None else f"{key[1]}@{key[2]}"


def _split(name):
    """'get1_east' -> ('get1', 'east') ; 'get1' -> ('get1', None)"""
    base, _, tok = name.partition("_")
    return (base, tok) if tok in TOKENS else (name, None)


class Hist:
    def __init__(self, engine):
        from sqlalchemy.orm import Session
        self.m = H.mappings()
        self.e = engine
        self.s = Session(engine)
        self.held = {}                    # role -> object the application holds
        self.seen = weakref.WeakSet()     # every object the harness was ever handed
        self.base = weakref.WeakKeyDictionary()   # ghost (clause R): object -> identity key at the start of the transaction
        self.savepoints = []                      # ghost (clause R): one such note per open SAVEPOINT
        self.rolled_back = False
        self.closed_savepoint = None
        self.fails = []
        self._wrap_register_persistent()
        self._wrap_restore_snapshot()
        self.stats = dict(restore_snapshot_calls=0, restore_snapshot_precondition_false=0, register_persistent_calls=0, get_nosql=0, get_nosql_token=0, loads=0, add_conflict=0, raised=0, savepoint_released=0, savepoint_rolled_back=0, frame_checks=0)

    # ---- clause P: run-time contract of Session._register_persistent at its real calls
    def _wrap_register_persistent(self):
        s, real = self.s, self.s._register_persistent

        def stale(states, when):
            d = s.identity_map._dict
            for k, st in list(d.items()):
                if st in states and st.key != k:
                    self.fails.append(f"P: {when} _register_persistent a flushed state with key {st.key and _kd(st.key)} is bound in the identity map under {_kd(k)}")

        def checked(states):
            self.stats["register_persistent_calls"] += 1
            trans = s._transaction
            if trans is None or states is s.identity_map._modified or trans._key_switches is s.identity_map._dict:
                self.fails.append("P: precondition of _register_persistent (transaction present, containers not aliased) does not hold at a real call")
                return real(states)
            for st in states:
                if not (st.key is None or (isinstance(st.key, tuple) and st.key)):
                    self.fails.append(f"P: precondition: a flushed state has key {st.key!r}")
            stale(states, "before")
            before = {st: st.key for st in states}
            ks0 = dict(trans._key_switches)
            real(states)
            for st in states:
                if st.obj() is not None:
                    ik = st.mapper._identity_key_from_state(st)
                    if st.key != ik:
                        self.fails.append(f"P: after _register_persistent a live flushed state has key {st.key and _kd(st.key)}, its primary key gives {_kd(ik)}")
                    cur = s.identity_map._dict.get(st.key)
                    if cur is None or cur not in states or cur.key != st.key:
                        self.fails.append(f"P: after _register_persistent key {st.key and _kd(st.key)} of a live flushed state is not bound to a flushed state carrying it")
            stale(states, "after")
            for st, (orig, _new) in trans._key_switches.items():
                if st in ks0:
                    if orig != ks0[st][0]:
                        self.fails.append("P: a second primary-key switch replaced the first original key in _key_switches")
                elif st not in before or orig != before[st]:
                    self.fails.append("P: a new _key_switches entry does not record the key the state had before the flush")
            for st in ks0:
                if st not in trans._key_switches:
                    self.fails.append("P: _register_persistent dropped a _key_switches entry")
        s._register_persistent = checked

    # ---- clause P, second function: SessionTransaction._restore_snapshot (class-level wrapper, active for this history's session only)
    def _wrap_restore_snapshot(self):
        from sqlalchemy.orm.session import SessionTransaction
        self.s._verif_hist = self
        if getattr(SessionTransaction._restore_snapshot, "_verif", False):
            return
        real = SessionTransaction._restore_snapshot

        def checked(tx, dirty_only=False):
            h = getattr(tx.session, "_verif_hist", None)
            if h is None:
                return real(tx, dirty_only)
            h.stats["restore_snapshot_calls"] += 1
            d = tx.session.identity_map._dict
            pre_ok = True
            for k, st in list(d.items()):
                if st.key != k:
                    pre_ok = False
            for st, pair in list(tx._key_switches.items()):
                if not (isinstance(pair, tuple) and len(pair) == 2 and pair[0] is not None):
                    pre_ok = False
            if tx.session._transaction is None or any(st in tx.session._new for st in d.values()):
                pre_ok = False
            if not pre_ok:
                # the proof's precondition does not hold at this call: the proof says nothing about it (counted, not a failure of the code)
                h.stats["restore_snapshot_precondition_false"] += 1
                return real(tx, dirty_only)
            ks0 = {st: pair[0] for st, pair in tx._key_switches.items()}
            exp0 = set(tx._new).union(tx.session._new)
            real(tx, dirty_only)
            for st, orig in ks0.items():
                if st in exp0:
                    if st.key is not None:
                        h.fails.append(f"P: after _restore_snapshot a state INSERTed in the rolled-back work carries identity key {_kd(st.key)} (it is transient: no key)")
                elif st.key != orig:
                    h.fails.append(f"P: after _restore_snapshot a key-switched state has key {st.key and _kd(st.key)}, its original key is {_kd(orig)}")
        checked._verif = True
        SessionTransaction._restore_snapshot = checked

    # ---- clauses
    def handed(self, objs, what, token=False):
        """clause C for objects returned by a load (token: the identity token the load was made with, False = not a token-aware load)"""
        from sqlalchemy import inspect
        s = self.s
        for o in objs:
            if o is None:
                continue
            st = inspect(o)
            if st.key is None or st.session is not s:
                continue
            if token is not False and st.key[2] != token:
                self.fails.append(f"T: {what} (identity_token={token!r}) returned an object whose identity key is {_kd(st.key)}")
            if s.identity_map.get(st.key) is not o and not st.deleted:
                self.fails.append(f"C: {what} returned an object for key {_kd(st.key)} that is not identity_map[key]")
            for p in list(self.seen):
                if p is not o:
                    sp = inspect(p)
                    if sp.key == st.key and sp.session is s and sp.persistent and st.persistent:
                        self.fails.append(f"C: {what} returned a second object for key {_kd(st.key)} while another one is attached and alive")
            self.seen.add(o)

    def invariants(self):
        from sqlalchemy import inspect
        s = self.s
        for k, o in list(s.identity_map.items()):
            st = inspect(o)
            if st.key != k:
                self.fails.append(f"A: identity_map key {_kd(k)} holds an object whose key is {st.key and _kd(st.key)}")
            if st.session is not s:
                self.fails.append(f"A: identity_map key {_kd(k)} holds an object not attached to this session")
        bykey = {}
        for o in list(self.seen):
            st = inspect(o)
            if st.key is not None and st.session is s and st.persistent:
                bykey.setdefault(st.key, []).append(o)
        for k, objs in bykey.items():
            if len(objs) > 1:
                self.fails.append(f"B: {len(objs)} live objects attached to the session share identity key {_kd(k)}")
            for o in objs:
                if s.identity_map.get(k) is not o:
                    self.fails.append(f"B: a persistent attached object with key {_kd(k)} is not identity_map[key]")

    # ---- clause R (rollback frame)
    def note(self):
        """ghost: identity keys of the tracked objects that are persistent in the session now (held weakly)"""
        from sqlalchemy import inspect
        out = weakref.WeakKeyDictionary()
        for o in list(self.seen):
            st = inspect(o)
            if st.key is not None and st.session is self.s and st.persistent:
                out[o] = st.key
        return out

    def same_keys_as(self, noted, what):
        from sqlalchemy import inspect
        for o, k in list(noted.items()):
            st = inspect(o)
            if st.key is not None and st.session is self.s and st.persistent:
                self.stats["frame_checks"] += 1
                if st.key != k:
                    self.fails.append(f"R: after {what} an object that was persistent under identity key {_kd(k)} when the rolled-back work began is persistent under {_kd(st.key)}")

    def rollback(self):
        """Session.rollback() of the outermost transaction, wherever the harness issues it"""
        self.s.rollback()
        self.rolled_back = True

    def frame(self, name):
        """after operation `name`: evaluate R / move the ghost notes"""
        if self.rolled_back:
            self.rolled_back = False
            self.same_keys_as(self.base, "ROLLBACK")
            self.base, self.savepoints = self.note(), []
        elif name == "commit":
            self.base, self.savepoints = self.note(), []
        elif name == "begin_nested":
            self.savepoints.append(self.note())
        elif self.closed_savepoint == "release" and self.savepoints:
            self.savepoints.pop()
        elif self.closed_savepoint == "rollback" and self.savepoints:
            self.same_keys_as(self.savepoints.pop(), "ROLLBACK TO SAVEPOINT")
        self.closed_savepoint = None

    # ---- operations (each in its own frame)
    def op(self, name):
        from sqlalchemy import inspect, select
        from sqlalchemy.orm import make_transient_to_detached
        from sqlalchemy.orm.util import was_deleted
        m, s, held = self.m, self.s, self.held
        P = m.P
        o1 = held.get(1)
        name, token = _split(name)
        what = name if token is None else f"{name}[{token}]"
        if name in ("query", "query_yield", "populate"):
            stmt = select(P).order_by(P.id)
            if token is not None:
                stmt = stmt.execution_options(identity_token=token)
            if name == "query_yield":
                stmt = stmt.execution_options(yield_per=1)
            if name == "populate":
                stmt = stmt.execution_options(populate_existing=True)
            rows = s.scalars(stmt).all()
            self.stats["loads"] += 1
            self.handed(rows, what, token)
            for r in rows:
                pk = inspect(r).key[1][0]
                role = pk if token is None else f"{pk}@{token}"
                if held.setdefault(role, r) is not r:
                    held[f"{role}b"] = r          # the application also keeps the second object it was handed for this identity
        elif name in ("get1", "get2"):
            pk = 1 if name == "get1" else 2
            k = _key(m, pk, token)
            call = f"get({pk})" if token is None else f"get({pk}, identity_token={token!r})"
            cur = s.identity_map.get(k)
            present = cur is not None and not inspect(cur).expired and inspect(cur).session is s
            before = self.e.sqlcount[0]
            r = s.get(P, pk) if token is None else s.get(P, pk, identity_token=token)
            if present:
                if r is not cur:
                    other = "" if r is None or inspect(r).key in (None, k) else f" (returned the object of identity key {_kd(inspect(r).key)})"
                    self.fails.append(f"D: {call} did not return the identity-map object that was present and un-expired{other}")
                if self.e.sqlcount[0] != before:
                    self.fails.append(f"D: {call} emitted {self.e.sqlcount[0] - before} SQL statement(s) although the object was present and un-expired")
                else:
                    self.stats["get_nosql"] += 1
                    if token is not None:
                        self.stats["get_nosql_token"] += 1
            self.handed([r], what, token)
            role = pk if token is None else f"{pk}@{token}"
            if r is not None and held.setdefault(role, r) is not r:
                held[f"{role}b"] = r
        elif name == "expunge1":
            if o1 is not None and o1 in s:
                s.expunge(o1)
        elif name == "readd1":
            if o1 is not None and inspect(o1).detached and not was_deleted(o1):     # re-adding a deleted object is a documented error
                k = inspect(o1).key
                other = s.identity_map.get(k)
                conflict = other is not None and other is not o1
                snapshot = dict(s.identity_map.items())
                from sqlalchemy.exc import InvalidRequestError
                try:
                    s.add(o1)
                    raised = False
                except InvalidRequestError:
                    raised = True
                if raised != conflict:
                    self.fails.append(f"E: add(detached) raised={raised} but a different live object under its key present={conflict}")
                if raised:
                    self.stats["add_conflict"] += 1
                    if dict(s.identity_map.items()) != snapshot:
                        self.fails.append("E: add(detached) raised but changed the identity map")
                    self.rollback()
                elif s.identity_map.get(k) is not o1:
                    self.fails.append("E: after add(detached) identity_map[key] is not the added object")
            elif o1 is not None:
                s.add(o1)
        elif name == "modify1":
            if o1 is not None and not inspect(o1).detached:
                o1.x = (o1.x or 0) + 1
        elif name == "pk1to3":
            if o1 is not None and not inspect(o1).detached:
                o1.id = 3
        elif name == "flush":
            s.flush()
        elif name == "commit":
            s.commit()
        elif name == "rollback":
            self.rollback()
        elif name == "merge1":
            r = s.merge(P(id=1, x=99))
            self.handed([r], name)
        elif name == "merge_detached1":
            d = P(id=1, x=77)
            make_transient_to_detached(d)
            r = s.merge(d)
            self.handed([r], name)
        elif name == "refresh1":
            if o1 is not None and o1 in s:
                s.refresh(o1)
                self.handed([o1], name)
        elif name == "expire1":
            if o1 is not None and o1 in s:
                s.expire(o1)
        elif name == "delete1":
            if o1 is not None and o1 in s and inspect(o1).persistent:
                s.delete(o1)
        elif name == "dropref_gc":
            held.clear()
            o1 = None
            gc.collect()
        elif name == "new4":
            n = P(id=4, x=40)
            self.seen.add(n)
            s.add(n)
        elif name == "begin_nested":
            s.begin_nested()
        elif name == "release_nested":
            t = s.get_nested_transaction()
            if t is not None:
                t.commit()                  # flushes, RELEASE SAVEPOINT, hands the block's bookkeeping to the enclosing transaction
                self.stats["savepoint_released"] += 1
                self.closed_savepoint = "release"
        elif name == "rollback_nested":
            t = s.get_nested_transaction()
            if t is not None:
                t.rollback()                # ROLLBACK TO SAVEPOINT, restores the snapshot taken at begin_nested()
                self.stats["savepoint_rolled_back"] += 1
                self.closed_savepoint = "rollback"

    def step(self, name):
        from sqlalchemy.exc import SQLAlchemyError
        try:
            self.op(name)
        except SQLAlchemyError:
            self.stats["raised"] += 1
            self.rollback()
        except Exception as ex:
            self.fails.append(f"X: {name} raised {type(ex).__name__}: {str(ex)[:150]}")
            try:
                self.rollback()
            except Exception:
                pass
        self.invariants()
        self.frame(_split(name)[0])


def run_history(names, engine=None):
    engine = engine or _G["engine"]
    reset_db(engine)
    h = Hist(engine)
    failed_at = None
    try:
        h.held[1] = h.s.get(h.m.P, 1)
        h.seen.add(h.held[1])
        h.base = h.note()                   # clause R: the keys at the start of the (first) transaction
        for i, name in enumerate(names):
            h.step(name)
            if h.fails:
                failed_at = i
                break
    finally:
        h.s.close()
    return dict(fails=h.fails, failed_at=failed_at, stats=h.stats)


HISTORY_TIMEOUT_S = 60


class _Timeout(BaseException):
    pass


def _on_alarm(signum, frame):
    raise _Timeout()


def _guarded_history(names):
    """run_history under a watchdog: a history that does not finish is reported (undecided) instead of blocking the run"""
    import signal
    import traceback
    old = signal.signal(signal.SIGALRM, _on_alarm)
    signal.alarm(HISTORY_TIMEOUT_S)
    try:
        return run_history(names), None
    except (_Timeout, MemoryError) as ex:
        where = " <- ".join(f"{f.name}:{f.lineno}" for f in reversed(traceback.extract_tb(ex.__traceback__)[-6:]))
        _G["engine"] = make_engine()
        return None, f"history {names} did not finish within {HISTORY_TIMEOUT_S} s ({type(ex).__name__} at {where})"
    finally:
        signal.alarm(0)
        signal.signal(signal.SIGALRM, old)


def _worker(job):
    H.quiet()
    if _G["engine"] is None:
        _G["engine"] = make_engine()
        run_history(["query", "flush"])
        gc.collect()
        gc.freeze()
    res = dict(evaluations=0, nontrivial=0, failures=[], samples=[], skipped_prefix_already_broken=0, get_without_sql=0, get_with_token_without_sql=0, add_conflicts=0,
               operations_raising_documented_errors=0, histories_with_identity_tokens=0, timeouts=[], skipped_equal_to_a_shorter_history=0,
               histories_releasing_a_savepoint=0, histories_rolling_back_to_a_savepoint=0, frame_checks=0, savepoint_shapes=set(), register_persistent_calls=0, restore_snapshot_calls=0, restore_snapshot_precondition_false=0)
    for idxs in H.job_sequences(job.get("catalogue", len(OPS)), job):
        names = [OPS[k] for k in idxs]
        if redundant(names):
            res["skipped_equal_to_a_shorter_history"] += 1
            continue
        r, timeout = _guarded_history(names)
        if timeout:
            res["timeouts"].append(timeout)
            continue
        res["evaluations"] += 1
        st = r["stats"]
        res["get_without_sql"] += st["get_nosql"]
        res["get_with_token_without_sql"] += st["get_nosql_token"]
        res["histories_with_identity_tokens"] += any(n in TOKEN_OPS for n in names)
        res["add_conflicts"] += st["add_conflict"]
        res["histories_releasing_a_savepoint"] += bool(st["savepoint_released"])
        res["histories_rolling_back_to_a_savepoint"] += bool(st["savepoint_rolled_back"])
        res["frame_checks"] += st["frame_checks"]
        res["register_persistent_calls"] += st["register_persistent_calls"]
        res["restore_snapshot_calls"] += st["restore_snapshot_calls"]
        res["restore_snapshot_precondition_false"] += st["restore_snapshot_precondition_false"]
        if st["savepoint_released"] or st["savepoint_rolled_back"]:
            # what happened inside / after the SAVEPOINT block, as an abstract shape: the mutations between begin_nested and its closing
            # operation, how the block was closed, and how the enclosing transaction ended afterwards
            res["savepoint_shapes"].add(savepoint_shape(names))
        res["operations_raising_documented_errors"] += st["raised"]
        if st["get_nosql"] or st["add_conflict"] or st["loads"]:
            res["nontrivial"] += 1
            if (st["add_conflict"] and len(res["samples"]) < 2) or (not res["samples"] and st["get_nosql"] and len(names) == job["length"]) or (st["get_nosql_token"] and len(res["samples"]) < 3 and len(set(names)) == job["length"] > 2):
                res["samples"].append(dict(ops=names, get_without_sql=st["get_nosql"], add_conflicts=st["add_conflict"]))
        if r["fails"]:
            if r["failed_at"] == len(names) - 1:
                res["failures"].append(dict(ops=names, broken=sorted(set(r["fails"]))))
            else:
                res["skipped_prefix_already_broken"] += 1
    return res


def redundant(names):
    """symmetry reduction: release_nested / rollback_nested with no begin_nested anywhere before it in the sequence cannot find an open SAVEPOINT and
    does nothing; the history equals the shorter history without that operation, which is in the scope — not run again"""
    opened = False
    for n in names:
        if n == "begin_nested":
            opened = True
        elif n in SAVEPOINT_CLOSERS and not opened:
            return True
    return False


MUTATIONS = ("modify1", "pk1to3", "delete1", "expunge1", "readd1", "new4", "merge1", "merge_detached1", "flush", "expire1", "refresh1", "dropref_gc")


def savepoint_shape(names):
    """(mutations inside the first SAVEPOINT block, how it was closed, the first transaction-ending operation after that)"""
    i = names.index("begin_nested")
    inside, closed, ended = [], None, None
    for n in names[i + 1:]:
        if closed is None:
            if n in SAVEPOINT_CLOSERS or n in ("commit", "rollback"):
                closed = n
            elif n in MUTATIONS:
                inside.append(n)
        elif n in ("commit", "rollback") and ended is None:
            ended = n
    return (tuple(inside), closed, ended)


def lengths_for(tier):
    return (1, 2, 3) if tier == "quick" else (1, 2, 3, 4)


def bounded(run, tier, seed):
    t0 = time.time()
    lengths = lengths_for(tier)
    joblist = H.jobs(len(OPS), lengths, min_jobs=100)
    extra = ""
    if tier == "quick":
        # one level deeper where it pays: histories of length 4 that start by vacating / altering row 1
        # (over the token-less catalogue; the identity-token operations take part in every history of length <= 3, and of length 4 in the thorough tier)
        first = [BASE_OPS.index(o) for o in QUICK_L4_FIRST]
        joblist += [j for j in H.jobs(len(BASE_OPS), (4,), min_jobs=100, catalogue=len(BASE_OPS)) if j["prefix"][0] in first]
        extra = f" plus ALL histories of length 4 over the {len(BASE_OPS)} token-less operations whose first operation is one of {QUICK_L4_FIRST}"
    if seed:
        import random
        random.Random(seed).shuffle(joblist)
    agg = H.Agg()
    for r in H.run_sharded(_worker, joblist):
        agg.add(r)
    failures = agg.get("failures", [])
    run.undecided += agg.get("timeouts", [])
    n = 0
    for d in sorted(failures, key=lambda d: (len(d["ops"]), d["ops"])):
        dj = json.dumps(d, sort_keys=True, default=repr)
        k = run.match_known(function=FN, input=dj)
        if k is not None:
            run.known_finding(k, "bounded replay on the real functions")
            continue
        if n < 6:
            n += 1
            run.violation("idmap-" + "-".join(d["ops"]), dict(function=FN, input=d, expected="clauses A-E, P, R, T, X hold after every operation", actual=d["broken"],
                                                              reason="bounded run-time contract check (C34_bounded)"))
    samples = sorted(agg.get("samples", []), key=lambda x: (-x["add_conflicts"], -len(x["ops"]), x["ops"]))
    samples = samples[:3] + [x for x in samples[3:] if any(n in TOKEN_OPS for n in x["ops"])][:2]
    blk = dict(
        scope=f"one Session on SQLite :memory:, two rows (+ up to two added), the application starts holding row 1; ALL histories of length in {list(lengths)}{extra} over the "
              f"{len(OPS)} operations {OPS} (<load>_<token> = the load made with identity_token=<token>; begin_nested = SAVEPOINT, release_nested / rollback_nested = "
              f"commit / rollback of the innermost nested transaction; a history in which one of these two comes before any begin_nested equals a shorter history of the scope and is "
              f"not run again); clauses A, B after every operation, C / D / E / T on every load / get / add, R on every rollback / rollback to a SAVEPOINT, P at every real call of Session._register_persistent",
        evaluations=agg["evaluations"], distinct_nontrivial=agg["nontrivial"],
        rule="every history of the scope is enumerated once; non-trivial = the history performed at least one load through the identity map, a get() answered "
             "without SQL, or an add() that hit the conflict branch (counted per history from the harness's own counters)",
        samples=samples[:5], exhaustive=True, label="bounded (not proof)", contract_failures=len(failures),
        get_answered_without_sql=agg["get_without_sql"], get_with_identity_token_answered_without_sql=agg["get_with_token_without_sql"],
        histories_with_identity_token_operations=agg["histories_with_identity_tokens"], add_conflicts_raised=agg["add_conflicts"],
        operations_raising_documented_errors=agg["operations_raising_documented_errors"],
        histories_releasing_a_savepoint=agg["histories_releasing_a_savepoint"], histories_rolling_back_to_a_savepoint=agg["histories_rolling_back_to_a_savepoint"],
        distinct_savepoint_block_shapes=len(agg.get("savepoint_shapes", set())),
        savepoint_block_shapes_rule="(mutations inside the first SAVEPOINT block, how the block was closed, how the enclosing transaction ended afterwards), distinct, counted",
        rollback_frame_key_comparisons=agg["frame_checks"], register_persistent_contract_evaluations_at_real_calls=agg["register_persistent_calls"],
        restore_snapshot_contract_evaluations_at_real_calls=agg["restore_snapshot_calls"], restore_snapshot_calls_outside_the_proved_precondition=agg["restore_snapshot_precondition_false"], skipped_equal_to_a_shorter_history=agg["skipped_equal_to_a_shorter_history"],
        skipped_prefix_already_broken=agg["skipped_prefix_already_broken"], wall_s=round(time.time() - t0, 1))
    run.coverage.setdefault("bounded", []).append(blk)
    return blk


def replay(data):
    H.quiet()
    d = data["input"]
    r = run_history(d["ops"], make_engine())
    if r["fails"]:
        print(f"REPLAY-FAILS {FN} ops={d['ops']} broken={sorted(set(r['fails']))}")
        return 1
    print(f"REPLAY-PASSES {FN} ops={d['ops']}")
    return 0
