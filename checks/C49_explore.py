"""C49 — Mutable column values propagate in-place changes (bounded run-time contract check, class B).

Functions under contract (the real ones, ``sqlalchemy.ext.mutable``): every method / operator of ``MutableList``,
``MutableDict``, ``MutableSet`` — *including every one they inherit un-overridden from list / dict / set* — plus
``Mutable.changed``, ``Mutable*.coerce``, ``Mutable*.__setstate__`` and ``MutableComposite.changed``.

Contract clauses (evaluated on the real call, ghost counter ``changed_calls`` = calls of ``self.changed()``):

  silent-change     contents(self) != old(contents(self))  ==>  changed_calls > old(changed_calls)
                    ("an in-place change is never silent"; also when the call ends in an exception)
  contents-differ   contents(self) after the call == contents of the builtin list/dict/set after the same call
  outcome-differs   same exception type and same return value (``self`` for in-place operators) as the builtin
  e2e-parent-not-flagged / e2e-db-differs
                    the same call on a value attached to a mapped object (``Mutable*.as_mutable(PickleType)`` column,
                    in-memory SQLite): contents changed ==> the parent is in ``session.dirty``; after commit the stored
                    value equals the in-memory value (also after expire/reload, refresh, pickle round trip + merge)
  coerce            plain list/dict/set |-> the Mutable type with equal contents; an instance |-> itself; None |-> None;
                    anything else raises ValueError
  composite         MutableComposite.changed() copies the composite's values to the parent's column attributes

How the mutator list is obtained: by *reflection*, not by hand — every callable attribute name in ``dir(list)``,
``dir(dict)``, ``dir(set)`` is called with every argument tuple of a fixed catalogue (arity 0, 1, 2 and keyword forms)
on every start container of size <= 3, on the builtin and on the Mutable type side by side.  A name is a *mutator* iff
some call changes the builtin's contents; so an un-overridden mutator (``list.__imul__``) cannot be missed, and a
mutator added by a future Python is picked up.  Only object-protocol names (constructor, attribute, pickling, typing
protocol) are excluded, and listed in the evidence.
"""
import itertools
import json
import multiprocessing
import operator
import pickle
import re
import types

LEVEL = "exploration"

# names that are the object / constructor / typing / pickling protocol, not operations on the contents
EXCLUDED = {
    "__init__": "constructor protocol: re-running __init__ on a live object is not counted as an in-place mutator",
    "__new__": "constructor protocol", "__init_subclass__": "class protocol", "__subclasshook__": "class protocol",
    "__class__": "class protocol", "__class_getitem__": "typing protocol",
    "__getattribute__": "attribute protocol (a subclass has an instance __dict__, a builtin has not)",
    "__setattr__": "attribute protocol", "__delattr__": "attribute protocol", "__dir__": "attribute protocol",
    "__reduce__": "pickling protocol (C51)", "__reduce_ex__": "pickling protocol (C51)", "__getstate__": "pickling protocol (C51)",
    "__sizeof__": "memory layout",
}

BASES = {"MutableList": list, "MutableDict": dict, "MutableSet": set}


# ----------------------------------------------------------------------------------------------- argument catalogue
class _Boom(RuntimeError):
    pass


def _raising(items):
    for x in items:
        yield x
    raise _Boom("verif: iterator fails after %d items" % len(items))


def _neg(x):
    return -x if isinstance(x, int) else 0


def _hashable(v):
    return tuple(v) if isinstance(v, list) else v


def build(desc, self_obj):
    """materialise one argument descriptor (JSON-able list) into a fresh Python value"""
    k = desc[0]
    if k in ("int", "str", "bool"):
        return desc[1]
    if k == "none":
        return None
    if k == "self":
        return self_obj
    if k == "slice":
        return slice(*desc[1])
    if k == "fn":
        return _neg
    v = [_hashable(x) for x in desc[1]]
    if k == "list":
        return list(v)
    if k == "tuple":
        return tuple(v)
    if k == "iter":
        return iter(list(v))
    if k == "raising_iter":
        return _raising(list(v))
    if k == "set":
        return set(v)
    if k == "frozenset":
        return frozenset(v)
    if k == "dict":
        return dict(v)
    raise ValueError(desc)


def _ints(vals):
    return [["int", v] for v in vals]


def catalogue(tname, tier):
    """-> (start containers, [(args, kwargs)]) for one type; everything JSON-able"""
    thorough = tier == "thorough"
    if tname == "MutableList":
        starts = [[], [1], [1, 2], [2, 1], [1, 1], [1, 2, 3], [3, 1, 2]]
        if thorough:
            starts += [[2, 2, 1], [3, 2, 1], [1, 2, 1]]
        ints = _ints([-4, -1, 0, 1, 2, 4, 9])
        sb = [None, -1, 1, 5] if not thorough else [None, -5, -1, 0, 1, 2, 5]
        slices = [["slice", [a, b, c]] for a in sb for b in sb for c in (None, -1, 2, 0)]
        slices2 = [["slice", [a, b, c]] for a in (None, -1, 1) for b in (None, -1, 1) for c in (None, -1, 2, 0)]
        its = [["list", []], ["list", [9]], ["list", [9, 8]], ["list", [1]], ["tuple", [9, 8]], ["iter", [9, 8]], ["raising_iter", [9, 8]],
               ["raising_iter", []], ["set", [9]], ["str", "ab"], ["dict", [[9, 1]]], ["self"]]
        one = ints + [["none"], ["bool", True], ["fn", "neg"]] + slices + its
        first = ints + [["none"]] + slices2
        second = [["int", 9], ["int", 1], ["none"]] + its
        kws = [{"reverse": ["bool", True]}, {"key": ["fn", "neg"]}, {"key": ["fn", "neg"], "reverse": ["bool", True]}, {"key": ["none"]}, {"z": ["int", 9]}]
    elif tname == "MutableDict":
        starts = [[], [["a", 1]], [["a", 1], ["b", 2]], [["b", 2], ["a", 1]], [[1, "x"], ["a", 2], ["b", 3]]]
        keys = [["str", "a"], ["str", "b"], ["str", "z"], ["int", 1], ["none"], ["list", [1]]]
        its = [["dict", []], ["dict", [["z", 9]]], ["dict", [["a", 5]]], ["dict", [["a", 1]]], ["dict", [["a", 5], ["z", 9]]], ["list", [["z", 9]]],
               ["list", [["a", 5], ["z", 9]]], ["iter", [["z", 9]]], ["raising_iter", [["z", 9]]], ["raising_iter", [["a", 5], ["z", 9]]], ["raising_iter", []],
               ["tuple", [["z", 9], ["y", 8]]], ["list", ["zy"]], ["self"], ["str", "zy"]]
        one = keys + its + _ints([0, 9])
        first = keys + its[:3]
        second = [["int", 9], ["int", 1], ["none"], ["str", "x"]] + its[:3]
        kws = [{"z": ["int", 9]}, {"a": ["int", 5]}, {"a": ["int", 1]}, {"a": ["int", 5], "z": ["int", 9]}]
    else:
        starts = [[], [1], [1, 2], [1, 2, 3]]
        els = _ints([1, 2, 9]) + [["none"], ["tuple", [1]], ["list", [1]]]
        conts = [[], [1], [9], [1, 9], [2, 3, 9], [1, 2, 3]]
        its = [[k, c] for k in ("set", "frozenset", "list", "iter", "raising_iter") for c in conts] + [["tuple", [9, 9, 1]], ["dict", [[9, 1]]], ["str", "ab"], ["self"]]
        one = els + its
        first = its
        second = its if thorough else [[k, c] for k in ("set", "list", "iter", "raising_iter") for c in ([9], [1, 2, 3])] + [["self"]]
        kws = [{"z": ["int", 9]}]
    cases = [([], {})] + [([a], {}) for a in one] + [([a, b], {}) for a in first for b in second]
    cases += [(args, kw) for kw in kws for args in [[]] + [[a] for a in one[:12]]]
    return starts, cases


# ----------------------------------------------------------------------------------------------- contents / outcomes
def _canon(x, depth=0):
    """elements: primitives by repr, containers recursively (a container may contain itself: depth cut), anything else
    (an iterator stored as an element) by type name"""
    if isinstance(x, (int, str, bool, float, bytes, type(None))):
        return repr(x)
    if depth > 3:
        return "<...>"
    if isinstance(x, tuple):
        return "(" + ", ".join(_canon(y, depth + 1) for y in x) + ")"
    if isinstance(x, list):
        return "list[" + ", ".join(_canon(y, depth + 1) for y in list.__iter__(x)) + "]"
    if isinstance(x, dict):
        return "dict{" + ", ".join(_canon(k, depth + 1) + ": " + _canon(v, depth + 1) for k, v in dict.items(x)) + "}"
    if isinstance(x, (set, frozenset)):
        return type(x).__name__ + "{" + ", ".join(sorted(_canon(y, depth + 1) for y in x)) + "}"
    return "<" + type(x).__name__ + ">"


def contents(obj, base):
    if base is list:
        return "[" + ", ".join(_canon(x) for x in list(obj)) + "]"
    if base is dict:
        return "{" + ", ".join(_canon(k) + ": " + _canon(v) for k, v in dict(obj).items()) + "}"
    return "{" + ", ".join(sorted(_canon(x) for x in set(obj))) + "}"


def norm_ret(ret, obj, base):
    if ret is obj:
        return "<self>"
    if ret is NotImplemented:
        return "<NotImplemented>"
    if isinstance(ret, base):
        return base.__name__ + ":" + contents(ret, base)
    if isinstance(ret, str):
        # repr()/str() of a set subclass carries the class name: CPython behaviour of every subclass, not a content difference
        return "str:" + re.sub(r"^(Counting)?Mutable(List|Dict|Set)\((.*)\)$", lambda m: m.group(3) or "set()", ret)
    if isinstance(ret, (int, bool, float, type(None))):
        return type(ret).__name__ + ":" + repr(ret)
    if isinstance(ret, (list, dict, set, frozenset, tuple)):
        return _canon(ret)                                                  # (subclass instances: by the builtin they extend)
    try:
        items = [_canon(x) for x in ret]                                    # iterators, views
        return type(ret).__name__ + ":" + repr(sorted(items) if base is set else items)
    except TypeError:
        return type(ret).__name__


_COUNTING = {}


def counting_class(tname):
    """subclass of the real Mutable type whose only addition is the ghost counter around the real changed()"""
    if tname not in _COUNTING:
        from sqlalchemy.ext import mutable
        real = getattr(mutable, tname)

        def changed(self):
            self.__dict__["_verif_changed_calls"] = self.__dict__.get("_verif_changed_calls", 0) + 1
            real.changed(self)
        _COUNTING[tname] = type("Counting" + tname, (real,), {"changed": changed})
    return _COUNTING[tname]


def make(tname, start, counting=True):
    base = BASES[tname]
    init = dict([(_hashable(k), v) for k, v in start]) if base is dict else list(start)
    b = base(init)
    if counting:
        m = counting_class(tname)(init)
    else:
        from sqlalchemy.ext import mutable
        m = getattr(mutable, tname)(init)
    return b, m


def call(obj, name, args, kwargs):
    a = [build(d, obj) for d in args]
    kw = {k: build(d, obj) for k, d in kwargs.items()}
    # operator dunders are applied in operator form (``x |= a`` rather than ``x.__ior__(a)``): NotImplemented + fallback
    # and a direct TypeError are the same observable behaviour
    fn = getattr(operator, name) if name.startswith("__") and not kw and hasattr(operator, name) else None
    try:
        if fn is not None:
            return None, fn(obj, *a)
        return None, getattr(obj, name)(*a, **kw)
    except Exception as e:      # noqa: BLE001 - the exception type is part of the outcome
        return type(e).__name__, None


def evaluate(tname, start, name, args, kwargs):
    """one case on the builtin and on the real Mutable type -> (failed clauses, facts)"""
    base = BASES[tname]
    b, m = make(tname, start)
    old = contents(b, base)
    eb, rb = call(b, name, args, kwargs)
    em, rm = call(m, name, args, kwargs)
    cb, cm = contents(b, base), contents(m, base)
    calls = m.__dict__.get("_verif_changed_calls", 0)
    failed = []
    if cm != old and calls == 0:
        failed.append("silent-change")
    if cm != cb:
        failed.append("contents-differ")
    elif eb != em or norm_ret(rb, b, base) != norm_ret(rm, m, base):
        failed.append("outcome-differs")
    facts = dict(builtin=dict(exception=eb, returns=norm_ret(rb, b, base), contents=cb),
                 mutable=dict(exception=em, returns=norm_ret(rm, m, base), contents=cm, changed_calls=calls), old_contents=old,
                 builtin_changed=cb != old)
    return failed, facts


# ----------------------------------------------------------------------------------------------- end to end (parent + DB)
_E2E = {}


def e2e_env():
    if not _E2E:
        from sqlalchemy import Column, Integer, PickleType, create_engine
        from sqlalchemy.ext.mutable import MutableDict, MutableList, MutableSet
        from sqlalchemy.orm import Session, declarative_base
        from sqlalchemy.pool import StaticPool
        Base = declarative_base()

        class VRow(Base):
            __tablename__ = "verif_c49"
            id = Column(Integer, primary_key=True)
            vl = Column("l", MutableList.as_mutable(PickleType))
            vd = Column("d", MutableDict.as_mutable(PickleType))
            vs = Column("s", MutableSet.as_mutable(PickleType))
        eng = create_engine("sqlite://", poolclass=StaticPool, connect_args={"check_same_thread": False})
        Base.metadata.create_all(eng)
        VRow.__qualname__ = "VRow"          # picklable: importable as <this module>.VRow
        globals()["VRow"] = VRow
        _E2E.update(VRow=VRow, eng=eng, Session=Session)
    return _E2E


PRE_STEPS = ("commit+reload", "flush+refresh", "flush-only", "pickle+merge", "pickle+merge-noload", "pickle+add")


def e2e(tname, start, name, args, kwargs, pre="commit+reload"):
    """the same call on a value owned by a mapped object -> (failed clauses, facts)"""
    from sqlalchemy import select
    env = e2e_env()
    VRow, Session = env["VRow"], env["Session"]
    base = BASES[tname]
    b, _ = make(tname, start, counting=False)
    probe = make(tname, start, counting=False)[1]
    call(probe, name, args, kwargs)
    try:
        pickle.dumps(probe)
    except Exception:                   # noqa: BLE001
        return [], dict(skipped="the resulting value is not storable (an iterator / function / the container itself was stored as an element)")
    attr = {"MutableList": "vl", "MutableDict": "vd", "MutableSet": "vs"}[tname]
    col = VRow.__table__.c[attr[1]]
    with Session(env["eng"]) as s:
        o = VRow(**{attr: base(b)})
        s.add(o)
        if pre == "flush-only":
            s.flush()                   # the value was coerced by the attribute "set" listener; no load event involved
        elif pre == "flush+refresh":
            s.flush()
            s.refresh(o)
        else:
            s.commit()
        if pre.startswith("pickle+"):
            o.id
            blob = pickle.dumps(o)
            s.close()
            s2 = Session(env["eng"])
            o2 = pickle.loads(blob)
            if pre == "pickle+merge":
                o = s2.merge(o2)
                s2.flush()              # merge itself sets the attribute: write that out first
            elif pre == "pickle+merge-noload":
                o = s2.merge(o2, load=False)
            else:
                s2.add(o2)
                o = o2
            s = s2
        try:
            m = getattr(o, attr)
            failed = []
            if type(m).__name__ != tname:
                failed.append("e2e-not-coerced")
            oid = o.id
            assert not s.dirty, "harness: parent dirty before the call"
            old = contents(m, base)
            call(b, name, args, kwargs)
            em, _rm = call(m, name, args, kwargs)
            cm, cb = contents(m, base), contents(b, base)
            flagged = o in s.dirty
            if cm != old and not flagged:
                failed.append("e2e-parent-not-flagged")
            s.commit()
            stored = s.execute(select(col).where(VRow.__table__.c.id == oid)).scalar()
            cs = contents(stored, base)
            if cs != cm:
                failed.append("e2e-db-differs")
            facts = dict(pre=pre, old_contents=old, in_memory=cm, stored=cs, builtin=cb, parent_flagged=flagged, exception=em)
            s.delete(o)
            s.commit()
        finally:
            s.close()
    return failed, facts


# ----------------------------------------------------------------------------------------------- coerce / setstate / composite
def other_contracts():
    """-> (evaluations, distinct, failures[(function, clause, input, facts)])"""
    from sqlalchemy.ext import mutable
    fails, n, distinct = [], 0, set()
    plain = {"MutableList": [[], [1, 2], [[1], None]], "MutableDict": [{}, {"a": 1}, {"a": {"b": 1}}], "MutableSet": [set(), {1, 2}, {(1, 2)}]}
    foreign = [1, "ab", 1.5, (1, 2), frozenset([1]), object, b"x"]
    for tname, base in BASES.items():
        cls = getattr(mutable, tname)
        others = [v for t, vs in plain.items() if t != tname for v in vs[:2]]
        for v in plain[tname]:
            n += 1
            r = cls.coerce("k", base(v) if base is not dict else dict(v))
            ok = type(r) is cls and contents(r, base) == contents(v, base)
            distinct.add((tname, "plain", repr(v)))
            if not ok:
                fails.append((f"{tname}.coerce", "coerce", dict(type=tname, value=repr(v), kind="plain"), dict(result=repr(r), result_type=type(r).__name__)))
            n += 1
            inst = cls(v)
            r2 = cls.coerce("k", inst)
            if r2 is not inst:
                fails.append((f"{tname}.coerce", "coerce", dict(type=tname, value=repr(v), kind="instance"), dict(result=repr(r2))))
        n += 1
        if cls.coerce("k", None) is not None:
            fails.append((f"{tname}.coerce", "coerce", dict(type=tname, value="None", kind="none"), {}))
        for v in foreign + others:
            n += 1
            distinct.add((tname, "foreign", repr(v)))
            try:
                r = cls.coerce("k", v)
                fails.append((f"{tname}.coerce", "coerce", dict(type=tname, value=repr(v), kind="foreign"), dict(result=repr(r), expected="ValueError")))
            except ValueError:
                pass
            except Exception as e:      # noqa: BLE001
                fails.append((f"{tname}.coerce", "coerce", dict(type=tname, value=repr(v), kind="foreign"), dict(exception=type(e).__name__, expected="ValueError")))
        # methods the Mutable class adds that the builtin does not have (e.g. __setstate__): never silent
        C = counting_class(tname)
        for mname, fn in vars(cls).items():
            if not isinstance(fn, types.FunctionType) or mname in dir(base) or mname in EXCLUDED:
                continue
            for start in plain[tname][:2]:
                for arg in plain[tname]:
                    n += 1
                    m = C(start)
                    old = contents(m, base)
                    try:
                        getattr(m, mname)(base(arg) if base is not dict else dict(arg))
                    except Exception:   # noqa: BLE001
                        pass
                    new = contents(m, base)
                    if new != old:
                        distinct.add((tname, mname, repr(start), repr(arg)))
                        if not m.__dict__.get("_verif_changed_calls", 0):
                            fails.append((f"{tname}.{mname}", "silent-change", dict(type=tname, init=repr(start), method=mname, arg=repr(arg)), dict(old=old, new=new)))
    # MutableComposite.changed: parent's column attributes follow the composite
    from sqlalchemy import Column, Integer, create_engine, select
    from sqlalchemy.orm import Session, composite, declarative_base
    Base = declarative_base()

    class Point(mutable.MutableComposite):
        def __init__(self, x, y):
            self.x, self.y = x, y

        def __setattr__(self, key, value):
            object.__setattr__(self, key, value)
            self.changed()

        def __composite_values__(self):
            return self.x, self.y

        def __eq__(self, other):
            return isinstance(other, Point) and (other.x, other.y) == (self.x, self.y)

    class Vertex(Base):
        __tablename__ = "verif_c49_vertex"
        id = Column(Integer, primary_key=True)
        x1 = Column(Integer)
        y1 = Column(Integer)
        start = composite(Point, x1, y1)
    eng = create_engine("sqlite://")
    Base.metadata.create_all(eng)
    for attr, val in itertools.product(("x", "y"), (0, -5, 2**40)):
        for pre in ("commit", "flush", "refresh"):
            n += 1
            distinct.add(("composite", attr, val, pre))
            with Session(eng) as s:
                v = Vertex(start=Point(3, 4))
                s.add(v)
                if pre == "commit":
                    s.commit()
                elif pre == "flush":
                    s.flush()
                else:
                    s.commit()
                    s.refresh(v)
                v.start
                dirty0 = v in s.dirty
                setattr(v.start, attr, val)
                want = (val, 4) if attr == "x" else (3, val)
                got = (v.x1, v.y1)
                flagged = v in s.dirty
                s.commit()
                stored = tuple(s.execute(select(Vertex.__table__.c.x1, Vertex.__table__.c.y1).where(Vertex.__table__.c.id == v.id)).one())
                if got != want or stored != want or not flagged or dirty0:
                    fails.append(("MutableComposite.changed", "composite", dict(attr=attr, value=val, pre=pre),
                                  dict(parent_columns=got, stored=stored, want=want, flagged=flagged, dirty_before=dirty0)))
    return n, len(distinct), fails


# ----------------------------------------------------------------------------------------------- enumeration
def _shard(job):
    tname, start, tier = job
    base = BASES[tname]
    _starts, cases = catalogue(tname, tier)
    names = sorted(n for n in dir(base) if callable(getattr(base, n, None)) and n not in EXCLUDED)
    n_eval = 0
    fails = []                      # (function, clause, input, facts)
    changing = []                   # inputs where the builtin's contents change (the antecedent is true)
    mutators = {}
    for name in names:
        for args, kwargs in cases:
            n_eval += 1
            failed, facts = evaluate(tname, start, name, args, kwargs)
            inp = dict(type=tname, init=start, method=name, args=args, kwargs=kwargs)
            if facts["builtin_changed"] or facts["mutable"]["contents"] != facts["old_contents"]:
                changing.append(inp)
                mutators[name] = mutators.get(name, 0) + 1
            for clause in failed:
                fails.append((f"{tname}.{name}", clause, inp, facts))
    # end to end for every case that changes the contents
    n_e2e = 0
    seen_first, seen_kinds = set(), set()
    for inp in changing:
        pres = ["commit+reload"]
        key = (inp["method"], len(inp["args"]), bool(inp["kwargs"]))
        kinds = (inp["method"], tuple(a[0] for a in inp["args"]))
        if tier != "thorough" and len(inp["args"]) == 2 and kinds in seen_kinds:
            continue                    # quick tier: two-argument cases once per (method, argument kinds); thorough: all
        seen_kinds.add(kinds)
        if key not in seen_first or tier == "thorough":
            seen_first.add(key)
            pres = list(PRE_STEPS)
        for pre in pres:
            n_e2e += 1
            try:
                failed, facts = e2e(tname, inp["init"], inp["method"], inp["args"], inp["kwargs"], pre)
            except Exception as e:      # noqa: BLE001
                failed, facts = ["e2e-harness-error"], dict(error=f"{type(e).__name__}: {e}"[:300], pre=pre)
            for clause in failed:
                fails.append((f"{tname}.{inp['method']}", clause, dict(inp, pre=pre), facts))
    return dict(type=tname, start=start, names=names, evaluations=n_eval, e2e=n_e2e, changing=len(changing), mutators=mutators, fails=fails,
                samples=changing[:: max(1, len(changing) // 3)][:3])


def run(run, tier, seed, args):
    import sqlalchemy
    from sqlalchemy.ext import mutable
    jobs = []
    for tname in BASES:
        starts, _ = catalogue(tname, tier)
        jobs += [(tname, s, tier) for s in starts]
    if tier == "thorough":
        with multiprocessing.get_context("fork").Pool(6) as pool:
            results = pool.map(_shard, jobs, chunksize=1)
    else:                               # ~10 CPU-seconds in all: forking workers costs more than it saves on a loaded machine
        results = [_shard(j) for j in jobs]
    n_other, d_other, other_fails = other_contracts()
    evaluations = sum(r["evaluations"] + r["e2e"] for r in results) + n_other
    nontrivial = sum(r["changing"] for r in results) + d_other
    fails = [f for r in results for f in r["fails"]] + other_fails
    per_type = {}
    for tname, base in BASES.items():
        cls = getattr(mutable, tname)
        muts = {}
        for r in results:
            if r["type"] == tname:
                for k, v in r["mutators"].items():
                    muts[k] = muts.get(k, 0) + v
        names = next(r["names"] for r in results if r["type"] == tname)
        per_type[tname] = dict(callable_names_reflected=len(names),
                               mutators_found={k: dict(changing_cases=v, overridden=any(k in vars(c) for c in cls.__mro__ if c.__module__.startswith("sqlalchemy")))
                                               for k, v in sorted(muts.items())},
                               non_mutating=sorted(set(names) - set(muts)))
        if len(muts) < 8:
            run.crashes.append(f"vacuity guard: only {len(muts)} mutators of {base.__name__} were found by reflection")
    # ---- report: known findings first, one replay per (function, clause) otherwise
    known_hits, new = {}, {}
    for function, clause, inp, facts in fails:
        if clause == "e2e-harness-error":
            run.crashes.append(f"e2e harness: {function} {json.dumps(inp)} {facts}")
            continue
        ij = json.dumps(inp, sort_keys=True, default=repr)
        k = run.match_known(function=function, clause=clause, input=ij)
        if k is not None:
            known_hits.setdefault(k["what"], [k, 0, (function, clause, inp)])[1] += 1
        else:
            new.setdefault((function, clause), []).append((inp, facts))
    for what, (k, cnt, (function, clause, inp)) in known_hits.items():
        run.known_finding(k, f"{cnt} failing cases, e.g. {function} {clause} init={inp.get('init')} args={inp.get('args', inp.get('value'))}")
    for (function, clause), lst in sorted(new.items()):
        inp, facts = min(lst, key=lambda t: len(json.dumps(t[0], default=repr)))
        run.violation(f"{function}-{clause}", dict(function=function, clause=clause, input=inp, facts=facts, failing_inputs_in_this_class=len(lst),
                                                    reason="run-time contract clause failed on the real Mutable type"))
    run.coverage.update(
        evaluations=evaluations, distinct_nontrivial=nontrivial, exhaustive=True,
        rule="cases = (type, start container, reflected method name, argument tuple) enumerated exhaustively from the catalogue, each distinct by "
             "construction; a case is non-trivial iff the call changes the contents of the builtin or of the Mutable value (the antecedent of the "
             "'never silent' clause is true); coerce / __setstate__ / composite cases count once per distinct input",
        scope="every callable name in dir(list) / dir(dict) / dir(set) except the listed object-protocol names x "
              "argument catalogue (arity 0, 1, 2 + keyword forms; ints, None, slices, list/tuple/set/frozenset/dict/str/one-shot iterator/"
              "iterator failing midway/the container itself) x start containers of size <= 3; every content-changing case (quick tier: two-argument cases once per method and argument kinds) repeated on a value owned by "
              "a mapped object on in-memory SQLite (parent flagged, stored value == in-memory value; first case of each method also after "
              "flush+refresh, flush only, pickle+merge, pickle+merge(load=False), pickle+add); coerce on 16 values per type; MutableComposite on 18 cases",
        per_type=per_type, excluded_names=EXCLUDED,
        unit_evaluations=sum(r["evaluations"] for r in results), e2e_evaluations=sum(r["e2e"] for r in results), other_evaluations=n_other,
        contract_failures=len(fails), sqlalchemy=sqlalchemy.__file__,
        samples=[s for r in results for s in r["samples"]][:: max(1, len(results) // 6)][:8])
    run.assumptions += [
        "contents are compared by repr of list(x) / list(x.items()) / sorted(x): elements are ints, strings, None, tuples",
        "the builtin list/dict/set executed side by side is the oracle for contents, return value and exception type",
        "re-running __init__ on a live object and the attribute/pickling/typing protocol names are not counted as mutators (listed in coverage.excluded_names)",
        "nested mutation of values inside the container is outside (documented: Mutable* does not track values themselves)",
        "database = in-memory SQLite through PickleType; other backends / types (JSON, ARRAY, HSTORE) outside",
    ]


# ----------------------------------------------------------------------------------------------- replay
def replay(data):
    inp, clause, function = data["input"], data.get("clause", ""), data.get("function")
    if clause in ("coerce", "composite") or "method" not in inp or "args" not in inp:
        _n, _d, fails = other_contracts()
        hit = [f for f in fails if f[0] == function and f[2] == inp]
        if hit:
            print(f"REPLAY-FAILS {function} clause={clause} input={inp} facts={hit[0][3]}")
            return 1
        print(f"REPLAY-PASSES {function} clause={clause} input={inp}")
        return 0
    if clause.startswith("e2e"):
        failed, facts = e2e(inp["type"], inp["init"], inp["method"], inp["args"], inp["kwargs"], inp.get("pre", "commit+reload"))
    else:
        failed, facts = evaluate(inp["type"], inp["init"], inp["method"], inp["args"], inp["kwargs"])
    if clause in failed or (not clause and failed):
        print(f"REPLAY-FAILS {function} clause={clause} input={json.dumps(inp)} facts={json.dumps(facts, default=repr)}")
        return 1
    print(f"REPLAY-PASSES {function} clause={clause} input={json.dumps(inp)} (other clauses failing now: {failed})")
    return 0
