"""C27 — a database disconnect invalidates the connection and blocks silent continuation: RootTransaction end-of-life
(_close_impl / _do_commit / _deactivate_from_connection) under proof — the dead transaction is detached from the connection on
every exit, also when the DBAPI rollback itself raises — and the fault enumeration on a fake DBAPI (checks/C27_explore.py) as
the bounded complement."""
import contracts.transaction_root  # noqa: F401
from vlib.wrap import run_proof_and_explore
from checks import C27_explore

LEVEL = "proof"
replay = C27_explore.replay


def run(run, tier, seed, args):
    run_proof_and_explore(run, "C27", C27_explore, tier, seed, args, [
        "abstract contracts: Connection._rollback_impl / _commit_impl may raise anything (a disconnect) and do not touch the transaction links; NestedTransaction._cancel only touches savepoint handles",
        "under proof: RootTransaction._close_impl, _do_commit, _deactivate_from_connection; Connection._handle_dbapi_exception, _revalidate_connection, invalidate and the pool are in the bounded complement (fault enumeration)",
    ])
