"""C27 — a database disconnect invalidates the connection and blocks silent continuation.  Under proof:
Connection._handle_dbapi_exception (every exit: per-call flags reset; classified as a disconnect ==> the Connection holds no DBAPI
connection afterwards, the pool is told only together with that; not a disconnect ==> nothing invalidated), Connection.invalidate, _revalidate_connection (no reconnect while a transaction is pending)
and the closed / invalidated / _still_open_and_dbapi_connection_is_valid properties; RootTransaction end-of-life (_close_impl /
_do_commit / _deactivate_from_connection): the dead transaction is detached from the connection on every exit, also when the DBAPI
rollback itself raises.  The fault enumeration on a fake DBAPI (checks/C27_explore.py) is the bounded complement."""
import contracts.transaction_root  # noqa: F401
import contracts.handle_dbapi_exception  # noqa: F401
from vlib.wrap import run_proof_and_explore
from checks import C27_explore

LEVEL = "proof"
replay = C27_explore.replay


def run(run, tier, seed, args):
    run_proof_and_explore(run, "C27", C27_explore, tier, seed, args, [
        "abstract contracts: Connection._rollback_impl / _commit_impl may raise anything (a disconnect) and do not touch the transaction links; NestedTransaction._cancel only touches savepoint handles",
        "_handle_dbapi_exception: quick tier proves the paths without handle_error listeners (dialect._has_events false, 66 paths); the thorough tier all paths with listeners that may re-classify the error, return a replacement exception or raise",
        "assumed in _handle_dbapi_exception: sys.exc_info()[1] is not None (the function is only called while an exception is handled); dialect.is_disconnect / util.is_exit_exception / in_transaction are arbitrary booleans; isinstance against the driver's Error class is an uninterpreted predicate; DBAPIError.instance / ExceptionContextImpl return new objects; _rollback_impl / _safe_close_cursor / context.handle_dbapi_exception do not touch the modelled state; Pool._invalidate and the pooled connection's invalidate() do not raise (a BaseException out of the DBAPI close() would: known finding of C26)",
        "_revalidate_connection is under proof too: it refuses (PendingRollbackError) while a transaction is pending and (ResourceClosedError) on a closed connection; Engine.raw_connection is an abstract callee that returns a fresh pooled connection or raises; the pool itself is in the bounded complement and C25/C26",
    ])
