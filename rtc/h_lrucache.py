"""Harness for util/_collections.py::LRUCache: real cache (capacity 3, threshold .5) filled by a short operation prefix, then the call."""
import itertools
from .harness import harness, CallSpec, REGISTRY
from sqlalchemy.util._collections import LRUCache

KEYS = ["a", "b", "c", "d", "e", "f"]


class H:
    def __init__(self, meth, has_value=False, has_default=False):
        self.meth, self.has_value, self.has_default = meth, has_value, has_default
        self.scope = "cache(capacity=3, threshold=.5) after every prefix of <= 3 (quick) / 5 (thorough) set/get operations over 6 keys; call on every key"

    def enumerate(self, tier):
        n = 3 if tier == "quick" else 5
        ops = [("set", k) for k in KEYS[:n + 1]] + [("get", k) for k in KEYS[:2]]
        for ln in range(0, n + 1):
            for pre in itertools.product(ops, repeat=ln) if ln <= 2 else itertools.islice(itertools.product(ops, repeat=ln), 0, 4000, 7):
                for key in KEYS[:4]:
                    yield {"prefix": [list(p) for p in pre], "key": key}

    def build(self, desc):
        c = LRUCache(capacity=3, threshold=.5)
        for op, k in desc["prefix"]:
            if op == "set":
                c[k] = ("v", k)
            else:
                c.get(k)
        fn = getattr(c, self.meth)
        key = desc["key"]
        if self.has_value:
            val = ("new", key)
            return CallSpec(fn, {"key": key, "value": val}, args=(key, val), self_obj=c, universe=KEYS)
        if self.has_default:
            return CallSpec(fn, {"key": key, "default": "dflt"}, args=(key, "dflt"), self_obj=c, universe=KEYS)
        return CallSpec(fn, {"key": key}, args=(key,), self_obj=c, universe=KEYS)


for name, a in [("lrucache.get", ("get", False, True)), ("lrucache.getitem", ("__getitem__",)), ("lrucache.setitem", ("__setitem__", True))]:
    h = H(*a)
    h.name = name
    REGISTRY[name] = h
