"""Harness for util/_collections.py::LRUCache: real cache (capacity 3, threshold .5) filled by a short operation prefix, then the call."""
import itertools
from .harness import harness, CallSpec, REGISTRY
from sqlalchemy.util._collections import LRUCache

KEYS = ["a", "b", "c", "d", "e", "f"]


class H:
    def __init__(self, meth, has_value=False, has_default=False):
        self.meth, self.has_value, self.has_default = meth, has_value, has_default
        self.scope = "cache(capacity=3, threshold=.5) after every prefix of <= 3 (quick) / 5 (thorough) set/get operations over 6 keys; call on every key"

    def enumerate(self, tier):
        n = 3 if tier == "quick" else 5
        ops = [("set", k) for k in KEYS[:n + 1]] + [("get", k) for k in KEYS[:2]]
        for ln in range(0, n + 1):
            for pre in itertools.product(ops, repeat=ln) if ln <= 2 else itertools.islice(itertools.product(ops, repeat=ln), 0, 4000, 7):
                for key in KEYS[:4]:
                    yield {"prefix": [list(p) for p in pre], "key": key}

    def build(self, desc):
        c = LRUCache(capacity=3, threshold=.5)
        for op, k in desc["prefix"]:
            if op == "set":
                c[k] = ("v", k)
            else:
                c.get(k)
        c._mutex = GhostLock()      # same lock, with the contract's ghost flags readable
        fn = getattr(c, self.meth)
        key = desc["key"]
        if self.has_value:
            val = ("new", key)
            return CallSpec(fn, {"key": key, "value": val}, args=(key, val), self_obj=c, universe=KEYS)
        if self.has_default:
            return CallSpec(fn, {"key": key, "default": "dflt"}, args=(key, "dflt"), self_obj=c, universe=KEYS)
        return CallSpec(fn, {"key": key}, args=(key,), self_obj=c, universe=KEYS)


for name, a in [("lrucache.get", ("get", False, True)), ("lrucache.getitem", ("__getitem__",)), ("lrucache.setitem", ("__setitem__", True))]:
    h = H(*a)
    h.name = name
    REGISTRY[name] = h


class GhostLock:
    """threading.Lock with the two ghost flags of the contract readable: `_g_locked` (held by anybody), `_g_mine` (held by the caller)"""

    def __init__(self, held_by_other=False):
        import threading
        self._l = threading.Lock()
        self._g_mine = False
        if held_by_other:
            self._l.acquire()

    @property
    def _g_locked(self):
        return self._l.locked()

    def acquire(self, blocking=True, timeout=-1):
        r = self._l.acquire(blocking, timeout)
        if r:
            self._g_mine = True
        return r

    def release(self):
        self._l.release()
        self._g_mine = False


class AlertBoom(Exception):
    pass


class ManageSize:
    name = "lrucache.manage_size"
    scope = ("cache with capacity 0..3 x threshold {0, .5, 1.0} x 0..8 entries (counters in insertion order, or reversed) x size_alert in "
             "{None, returns, raises} x mutex {free, held by another thread}")

    def enumerate(self, tier):
        for cap in (0, 1, 2, 3):
            for thr in (0, .5, 1.0):
                for n in range(0, 9 if tier != "quick" else 7):
                    for alert in ("none", "ok", "raise"):
                        for locked in (False, True):
                            for rev in (False, True):
                                yield dict(cap=cap, thr=thr, n=n, alert=alert, locked=locked, rev=rev)

    def build(self, desc):
        calls = []

        def ok(cache):
            calls.append(len(cache))

        def boom(cache):
            calls.append(len(cache))
            raise AlertBoom("size_alert hook failed")
        alert = {"none": None, "ok": ok, "raise": boom}[desc["alert"]]
        c = LRUCache(capacity=desc["cap"], threshold=desc["thr"], size_alert=alert)
        ks = KEYS + ["g", "h", "i"]
        order = ks[:desc["n"]]
        for k in (reversed(order) if desc["rev"] else order):
            c._data[k] = (k, ("v", k), [c._inc_counter()])
        c._mutex = GhostLock(held_by_other=desc["locked"])
        return CallSpec(c._manage_size, {}, args=(), self_obj=c, universe=ks)


REGISTRY[ManageSize.name] = ManageSize()
