"""Helpers for the dual-implemented ``_*_cy`` modules (DESIGN §2.5).  Used by C54_bounded, C55, C09.

* ``pkg_dir()``            directory of the sqlalchemy package that is (or will be) imported in this process
                           (honours VERIF_REPO through PYTHONPATH; nothing is hard-wired to /repo)
* ``freshness(modname)``   decides mechanically whether the compiled ``.so`` of a module may be evaluated:
                           the Cython-generated ``.c`` next to it embeds every source line it was compiled from
                           (``/* "pkg/mod.py":N`` ... `` * <line>`` ... ``*/``); every embedded (N, text) pair must equal
                           line N of the current ``.py``.  Result ``fresh`` / ``stale`` / ``absent`` / ``unknown``.
                           Anything but ``fresh`` means "compiled side not evaluated" — never a violation.
* ``load_pure(modname)``   loads the ``.py`` under an alias with an explicit source loader, next to the compiled module
* ``force_pure_imports()`` for a *fresh* process: a meta-path finder that makes every ``sqlalchemy.**._*_cy`` import load the
                           ``.py`` source, so the whole library runs on the pure-Python implementations
"""
import importlib.abc
import importlib.machinery
import importlib.util
import os
import re
import sys

CY_MODULES = (
    "sqlalchemy.util._collections_cy",
    "sqlalchemy.util._immutabledict_cy",
    "sqlalchemy.engine._processors_cy",
    "sqlalchemy.engine._result_cy",
    "sqlalchemy.engine._row_cy",
    "sqlalchemy.engine._util_cy",
    "sqlalchemy.sql._util_cy",
)


def pkg_dir():
    m = sys.modules.get("sqlalchemy")
    if m is not None:
        return os.path.dirname(os.path.abspath(m.__file__))
    spec = importlib.util.find_spec("sqlalchemy")       # does not execute the package
    return os.path.abspath(list(spec.submodule_search_locations)[0])


def _paths(modname):
    rel = modname.split(".", 1)[1].replace(".", os.sep)
    base = os.path.join(pkg_dir(), rel)
    d, leaf = os.path.split(base)
    so = None
    if os.path.isdir(d):
        for fn in sorted(os.listdir(d)):
            if fn.startswith(leaf + ".") and any(fn.endswith(s) for s in importlib.machinery.EXTENSION_SUFFIXES):
                so = os.path.join(d, fn)
    return base + ".py", so, base + ".c"


_BLOCK = re.compile(r'/\* "([^"\n]+)":(\d+)\n(.*?)\n\s*\*/', re.S)
_MARK = "# <<<<<<<<<<<<<<"


def freshness(modname):
    """-> dict(module, status, detail, so, embedded_lines)"""
    py, so, c = _paths(modname)
    out = dict(module=modname, so=so, status="unknown", detail="", embedded_lines=0)
    if so is None:
        out.update(status="absent", detail="no compiled extension next to the source")
        return out
    if not os.path.exists(c):
        out.update(detail="no Cython-generated .c next to the .so: freshness cannot be established")
        return out
    if os.path.getmtime(so) + 1 < os.path.getmtime(c):
        out.update(detail=".so is older than the .c it should have been built from")
        return out
    src = open(py, encoding="utf-8").read().split("\n")
    ctext = open(c, encoding="utf-8", errors="replace").read()
    leaf = os.path.basename(py)
    pairs = {}
    for m in _BLOCK.finditer(ctext):
        if os.path.basename(m.group(1)) != leaf:
            continue
        n = int(m.group(2))
        lines = m.group(3).split("\n")
        texts = []
        mark = None
        for i, ln in enumerate(lines):
            if ln.startswith(" * "):
                t = ln[3:]
            elif ln.rstrip() == " *":
                t = ""
            else:
                texts = None
                break
            if t.rstrip().endswith(_MARK):
                t = t.rstrip()[: -len(_MARK)]
                mark = i
            texts.append(t.rstrip())
        if not texts or mark is None:
            continue
        for i, t in enumerate(texts):
            pairs.setdefault(n - mark + i, set()).add(t)
    if not pairs:
        out.update(detail="the .c embeds no source lines of this module")
        return out
    out["embedded_lines"] = len(pairs)
    for n in sorted(pairs):
        cur = src[n - 1].rstrip() if 0 < n <= len(src) else None
        # Cython escapes comment terminators inside the embedded text
        cands = {t for t in pairs[n]} | {t.replace("* /", "*/").replace("/ *", "/*") for t in pairs[n]}
        if cur not in cands:
            out.update(status="stale", detail=f"line {n} of {leaf} is {cur!r}; the extension was compiled from {sorted(pairs[n])[0]!r}")
            return out
    out.update(status="fresh", detail=f"{len(pairs)} embedded source lines equal the current {leaf}")
    return out


def load_pure(modname):
    """the .py of a *_cy module loaded under an alias in the same package (relative imports keep working)"""
    py, _so, _c = _paths(modname)
    pkg, _, leaf = modname.rpartition(".")
    alias = pkg + "._verif_pure_" + leaf
    if alias in sys.modules:
        return sys.modules[alias]
    importlib.import_module(pkg)
    spec = importlib.util.spec_from_file_location(alias, py)
    m = importlib.util.module_from_spec(spec)
    sys.modules[alias] = m
    try:
        spec.loader.exec_module(m)
    except BaseException:
        del sys.modules[alias]
        raise
    if m._is_compiled():
        raise RuntimeError(f"{modname}: source loader produced a compiled module")
    return m


class _PureFinder(importlib.abc.MetaPathFinder):
    def find_spec(self, fullname, path=None, target=None):
        if fullname in CY_MODULES:
            py, _so, _c = _paths(fullname)
            return importlib.util.spec_from_file_location(fullname, py)
        return None


def force_pure_imports():
    if "sqlalchemy" in sys.modules:
        raise RuntimeError("force_pure_imports() must run before sqlalchemy is imported")
    root = pkg_dir()
    sys.meta_path.insert(0, _PureFinder())
    return root


def compiled_state():
    """after import: {modname: bool _is_compiled()}"""
    out = {}
    for n in CY_MODULES:
        out[n] = bool(importlib.import_module(n)._is_compiled())
    return out
