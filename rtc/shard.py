"""Run a bounded enumeration in shards over worker processes (class-B checks with large exhaustive scopes).

``shard_map(worker, n_shards, procs, *args)`` calls ``worker(shard_index, n_shards, *args)`` for every shard and returns
the list of results in shard order.  ``worker`` must be a module-level function of an importable module, ``args`` and the
result picklable.  Every shard runs in a FRESH interpreter (``python -c`` with the parent's environment, hence the same
PYTHONPATH: /repo or the VERIF_REPO worktree): forked children of a large parent turned out ~10x slower here
(copy-on-write page faults), fresh interpreters cost one ``import sqlalchemy`` each.  A crashing worker is reported as
``{"crash": "..."}`` in its slot instead of killing the run.
"""
import concurrent.futures as cf
import os
import pickle
import subprocess
import sys
import traceback


def default_procs(tier):
    n = os.cpu_count() or 4
    return max(1, min(n, 8 if tier == "quick" else 16))


def _guard(worker, i, n, args):
    try:
        return worker(i, n, *args)
    except BaseException as e:          # noqa: the parent decides
        return {"crash": f"shard {i}/{n}: {type(e).__name__}: {e}\n{traceback.format_exc(limit=8)}"}


def _child():
    import importlib
    spec = pickle.loads(sys.stdin.buffer.read())
    mod = importlib.import_module(spec["module"])
    out = []
    for i in spec["shards"]:
        out.append((i, _guard(getattr(mod, spec["func"]), i, spec["n"], spec["args"])))
    sys.stdout.buffer.write(b"\0SHARD\0" + pickle.dumps(out))
    sys.stdout.buffer.flush()


def _spawn(spec):
    p = subprocess.run([sys.executable, "-c", "from rtc.shard import _child; _child()"], input=pickle.dumps(spec),
                       stdout=subprocess.PIPE, cwd=os.path.dirname(os.path.dirname(os.path.abspath(__file__))))
    if p.returncode != 0 or b"\0SHARD\0" not in p.stdout:
        return [(i, {"crash": f"shard {i}/{spec['n']}: worker process exited {p.returncode}"}) for i in spec["shards"]]
    return pickle.loads(p.stdout.split(b"\0SHARD\0", 1)[1])


def shard_map(worker, n_shards, procs, *args):
    if procs <= 1 or n_shards <= 1:
        return [_guard(worker, i, n_shards, args) for i in range(n_shards)]
    procs = min(procs, n_shards)
    groups = [list(range(k, n_shards, procs)) for k in range(procs)]        # one interpreter per group of shards
    out = [None] * n_shards
    with cf.ThreadPoolExecutor(max_workers=procs) as ex:
        specs = [dict(module=worker.__module__, func=worker.__name__, n=n_shards, args=args, shards=g) for g in groups]
        for res in ex.map(_spawn, specs):
            for i, r in res:
                out[i] = r
    return out
