"""Harness for C31 (flush ordering): mapped "worlds" built once per process, an enforcing SQLite engine, a recorder of the
DML a flush emits, a shadow database that replays that DML with immediate foreign-key enforcement, and the comparison of
the database with the in-memory object graph.

Nothing here decides an order by looking at unitofwork.py: the verdicts are
  * SQLite itself (PRAGMA foreign_keys=ON, immediate) accepting every statement,
  * the shadow database: every recorded INSERT / UPDATE / DELETE, applied in the emitted order (row by row inside an
    executemany), must leave no row that references a missing row,
  * the final rows equal to what the loaded relationships of the live objects say.
"""
import types

_WORLDS = {}


class Skip(Exception):
    """an operation that does not apply to the current in-memory state (e.g. remove of a non-member)"""


# ------------------------------------------------------------------------------------------------- op helpers
def _add(x):
    return (f"s.add({x})", lambda e, s: s.add(e[x]))


def _delete(x):
    def fn(e, s):
        s.delete(e[x])
    return (f"s.delete({x})", fn)


def _note_attach(e, s, *objs):
    """attaching something to an object on which Session.delete() was already called is a contradictory request (the delete cascade ran
    at delete() time; what is attached afterwards is neither cascaded nor detached): recorded, such a flush may fail"""
    for o in objs:
        if o is not None and o in s.deleted:
            e["_contradiction"] = "an object was attached to an object already marked deleted by an earlier Session.delete()"


def _enter(e, s, x):
    """an operation whose subject is one of the new (transient) objects adds it to the session first — otherwise nothing of it would reach the flush"""
    from sqlalchemy import inspect
    if inspect(e[x]).transient:
        s.add(e[x])


def _set(x, attr, y):
    def fn(e, s):
        _note_attach(e, s, None if y is None else e[y])
        _enter(e, s, x)
        setattr(e[x], attr, None if y is None else e[y])
    return (f"{x}.{attr}={y}", fn)


def _append(x, attr, y):
    def fn(e, s):
        coll = getattr(e[x], attr)
        if e[y] in coll:
            raise Skip("already a member")
        _note_attach(e, s, e[x], e[y])
        _enter(e, s, x)
        coll.append(e[y])
    return (f"{x}.{attr}.append({y})", fn)


def _append_exclusive(x, attr, y):
    """unidirectional one-to-many: an object belongs to at most one collection (nothing would take it out of the other one)"""
    def fn(e, s):
        for k, o in e.items():
            if not k.startswith("_") and type(o) is type(e[x]) and e[y] in o.__dict__.get(attr, ()):
                raise Skip("already a member of a loaded collection")
        _note_attach(e, s, e[x])
        _enter(e, s, x)
        getattr(e[x], attr).append(e[y])
    return (f"{x}.{attr}.append({y})", fn)


def _remove(x, attr, y):
    def fn(e, s):
        getattr(e[x], attr).remove(e[y])     # ValueError when absent -> not applicable
    return (f"{x}.{attr}.remove({y})", fn)


def _remove_delete(x, attr, y):
    def fn(e, s):
        getattr(e[x], attr).remove(e[y])
        s.delete(e[y])
    return (f"{x}.{attr}.remove({y});s.delete({y})", fn)


def _move(x, attr, y, z):
    """unidirectional collection: take y out of x.attr and put it into z.attr"""
    def fn(e, s):
        getattr(e[x], attr).remove(e[y])
        coll = getattr(e[z], attr)
        if e[y] in coll:
            raise Skip("already a member")
        _note_attach(e, s, e[z])
        _enter(e, s, z)
        coll.append(e[y])
    return (f"{x}.{attr}.remove({y});{z}.{attr}.append({y})", fn)


def _fk_none(x, col):
    def fn(e, s):
        setattr(e[x], col, None)
        e["_fk_touched"].add(x)
    return (f"{x}.{col}=None", fn)


def _load(x, attr):
    return (f"load {x}.{attr}", lambda e, s: getattr(e[x], attr))


def _m2o(obj, rel, fk, byid):
    """current many-to-one target without touching (loading) anything: the relationship value when loaded, else the object
    that the loaded foreign-key column names"""
    d = obj.__dict__
    if rel in d:
        return d[rel]
    v = d.get(fk)
    return None if v is None else byid.get(v)


def on_cycle_ids(edges):
    """edges: node -> set(nodes); True when a directed cycle exists"""
    state = {}

    def visit(n):
        if state.get(n) == 1:
            return True
        if state.get(n) == 2:
            return False
        state[n] = 1
        for m in edges.get(n, ()):
            if visit(m):
                return True
        state[n] = 2
        return False
    return any(visit(n) for n in list(edges))


def _in_session(s, obj):
    from sqlalchemy import inspect
    st = inspect(obj)
    return (st.persistent or st.pending) and obj not in s.deleted


def generic_unsat(env, s):
    """contradictory requests, whatever the mapping: during this sequence a live object was attached (relationship history
    `added`) to an object that the same flush deletes — the final state would hold a reference to a deleted row, no
    statement order can satisfy that.  Nothing is loaded: only the history of loaded attributes is read."""
    from sqlalchemy import inspect
    from sqlalchemy.orm.interfaces import MANYTOMANY, MANYTOONE, ONETOMANY
    names = {id(o): k for k, o in env.items() if not k.startswith("_")}

    def live(o):
        st = inspect(o)
        return (st.persistent or st.pending) and o not in s.deleted

    for k, o in env.items():
        if k.startswith("_"):
            continue
        st = inspect(o)
        if st.transient:
            for rel in st.mapper.relationships:
                v = st.dict.get(rel.key)
                for x in ([] if v is None else (list(v) if rel.uselist else [v])):
                    if live(x):
                        return f"{names.get(id(x))} was attached to {k}.{rel.key} but {k} never entered the session (the link can not be persisted)"
            continue
        for rel in st.mapper.relationships:
            if rel.key not in st.dict and rel.key not in getattr(st, "_pending_mutations", {}):
                continue
            if rel.direction is MANYTOONE and live(o) and st.dict.get(rel.key) is not None and inspect(st.dict[rel.key]).transient:
                return f"{k}.{rel.key} refers to an object that never entered the session (the link can not be persisted, SAWarning)"
            added = [a for a in (st.attrs[rel.key].history.added or ()) if a is not None]
            if not added:
                continue
            if rel.direction is MANYTOONE:
                if live(o) and any(a in s.deleted for a in added):
                    return f"{k}.{rel.key} was set to an object that is deleted in the same flush"
            elif rel.direction is ONETOMANY:
                if o in s.deleted and any(live(a) for a in added):
                    return f"{names.get(id(added[0]))} was appended to {k}.{rel.key} while {k} is deleted in the same flush"
            elif rel.direction is MANYTOMANY:
                if (o in s.deleted and any(live(a) for a in added)) or (live(o) and any(a in s.deleted for a in added)):
                    return f"an association was added through {k}.{rel.key} to an object that is deleted in the same flush"
    return None


# ------------------------------------------------------------------------------------------------- worlds
def _world_o2m(variant):
    """P 1--* C, bidirectional.  variant: nullable | cascade (NOT NULL, all+delete-orphan) | nocascade (NOT NULL) |
    passive (NOT NULL, ON DELETE CASCADE, passive_deletes=True, all+delete-orphan)"""
    from sqlalchemy import Column, ForeignKey, Integer
    from sqlalchemy.orm import declarative_base, relationship
    Base = declarative_base()
    notnull = variant != "nullable"
    rk = {}
    if variant in ("cascade", "passive"):
        rk["cascade"] = "all, delete-orphan"
    if variant == "passive":
        rk["passive_deletes"] = True

    class P(Base):
        __tablename__ = "p"
        id = Column(Integer, primary_key=True)
        x = Column(Integer)
        children = relationship("C", back_populates="parent", **rk)

    class C(Base):
        __tablename__ = "c"
        id = Column(Integer, primary_key=True)
        pid = Column(ForeignKey("p.id", ondelete="CASCADE") if variant == "passive" else ForeignKey("p.id"), nullable=not notnull)
        parent = relationship("P", back_populates="children")

    graphs = [
        {"p": [dict(id=0, x=0), dict(id=1, x=0)], "c": [dict(id=0, pid=0), dict(id=1, pid=0), dict(id=2, pid=None if not notnull else 1)]},
        {"p": [dict(id=0, x=0), dict(id=1, x=0)], "c": [dict(id=0, pid=1), dict(id=1, pid=0)]},
    ]
    names = {"p": P, "c": C}
    new = {"p2": lambda: P(id=2), "c3": lambda: C(id=3)}
    ops = [_add("p2"), _add("c3")]
    ops += [_delete(x) for x in ("p0", "p1", "c0", "c1", "c2")]
    for c in ("c0", "c1", "c2", "c3"):
        for p in ("p0", "p1", "p2", None):
            ops.append(_set(c, "parent", p))
    for p in ("p0", "p1"):
        for c in ("c0", "c1", "c2"):
            ops.append(_remove(p, "children", c))
    for p in ("p0", "p1", "p2"):
        for c in ("c0", "c1", "c3"):
            ops.append(_append(p, "children", c))
    ops += [_load("p0", "children"), _load("p1", "children")]
    if not notnull:
        ops += [_fk_none("c0", "pid"), _fk_none("c1", "pid")]
    core = {"s.add(c3)", "s.delete(p0)", "s.delete(p1)", "s.delete(c0)", "s.delete(c1)", "c0.parent=p1", "c1.parent=p2", "c0.parent=None", "c3.parent=p0",
            "c3.parent=p2", "p0.children.remove(c0)", "p0.children.remove(c1)", "p1.children.append(c0)", "p2.children.append(c1)", "p1.children.append(c3)",
            "load p0.children"}

    def unsat(e, s):
        from sqlalchemy import inspect
        pbyid = {o.id: o for k, o in e.items() if isinstance(o, P)}
        for k, c in e.items():
            if not isinstance(c, C):
                continue
            st = inspect(c)
            if not (st.persistent or st.pending) or c in s.deleted:
                continue
            par = _m2o(c, "parent", "pid", pbyid)
            if par is None:
                if variant in ("cascade", "passive"):
                    if st.pending:
                        return f"{k} is a pending orphan under delete-orphan"
                elif notnull:
                    return f"{k} has no parent but c.pid is NOT NULL"
            elif par in s.deleted or not (inspect(par).persistent or inspect(par).pending):
                if variant == "nocascade":
                    return f"{k} keeps a deleted / unsaved parent but c.pid is NOT NULL and nothing cascades"
                if variant in ("cascade", "passive") and not (inspect(par).persistent or inspect(par).pending):
                    return f"{k} refers to a parent that is not in the session"
        return None
    return types.SimpleNamespace(name="o2m_" + variant, Base=Base, classes=names, graphs=graphs, new=new, ops=ops, core=core, unsat=unsat)


def _world_uni(variant):
    """unidirectional relationships between two plain classes.  variant: o2m (P.children only, nullable FK, nullify) |
    o2m_cascade (P.children only, NOT NULL FK, all + delete-orphan) | m2o (C.parent only, nullable FK)"""
    from sqlalchemy import Column, ForeignKey, Integer
    from sqlalchemy.orm import declarative_base, relationship
    Base = declarative_base()
    notnull = variant == "o2m_cascade"

    class P(Base):
        __tablename__ = "p"
        id = Column(Integer, primary_key=True)
        if variant != "m2o":
            children = relationship("C", **({"cascade": "all, delete-orphan"} if notnull else {}))

    class C(Base):
        __tablename__ = "c"
        id = Column(Integer, primary_key=True)
        pid = Column(ForeignKey("p.id"), nullable=not notnull)
        if variant == "m2o":
            parent = relationship("P")

    graphs = [
        {"p": [dict(id=0), dict(id=1)], "c": [dict(id=0, pid=0), dict(id=1, pid=0), dict(id=2, pid=1)]},
        {"p": [dict(id=0), dict(id=1)], "c": [dict(id=0, pid=1), dict(id=1, pid=1 if notnull else None)]},
    ]
    new = {"p2": lambda: P(id=2), "c3": lambda: C(id=3)}
    ops = [_add("p2")] + ([_add("c3")] if not notnull else [])
    ops += [_delete(x) for x in ("p0", "p1", "c0", "c1", "c2")]
    if variant == "m2o":
        for c in ("c0", "c1", "c2", "c3"):
            for p in ("p0", "p1", "p2", None):
                ops.append(_set(c, "parent", p))
        ops += [_load("c0", "parent")]
        core = {"s.add(p2)", "s.add(c3)", "s.delete(p0)", "s.delete(p1)", "s.delete(c0)", "s.delete(c1)", "s.delete(c2)", "c0.parent=p1", "c1.parent=p2", "c0.parent=None",
                "c3.parent=p0", "c3.parent=p2", "c2.parent=p0", "load c0.parent"}
    else:
        for p in ("p0", "p1"):
            for c in ("c0", "c1", "c2"):
                ops.append(_remove(p, "children", c))
                ops.append(_remove_delete(p, "children", c))
        for p in ("p0", "p1", "p2"):
            ops.append(_append_exclusive(p, "children", "c3"))
        ops += [_move("p0", "children", "c0", "p1"), _move("p0", "children", "c1", "p2"), _move("p1", "children", "c2", "p0"), _move("p1", "children", "c0", "p2"),
                _move("p1", "children", "c0", "p0")]
        ops += [_load("p0", "children"), _load("p1", "children")]
        core = {"s.add(p2)", "s.delete(p0)", "s.delete(p1)", "s.delete(c0)", "s.delete(c1)", "s.delete(c2)", "p0.children.remove(c0)", "p0.children.remove(c1);s.delete(c1)",
                "p1.children.append(c3)", "p2.children.append(c3)", "p0.children.remove(c0);p1.children.append(c0)", "p0.children.remove(c1);p2.children.append(c1)",
                "p1.children.remove(c2);p0.children.append(c2)", "load p0.children"}

    def unsat(e, s):
        from sqlalchemy import inspect
        if variant == "m2o":
            ps = {o.id: o for o in e.values() if isinstance(o, P)}
            for k, c in e.items():
                if isinstance(c, C) and _in_session(s, c):
                    par = _m2o(c, "parent", "pid", ps)
                    if par is not None and (par in s.deleted or not (inspect(par).persistent or inspect(par).pending)):
                        return f"{k}.parent (many-to-one without a reverse side) refers to a deleted / unsaved row"
        return None
    return types.SimpleNamespace(name="uni_" + variant, Base=Base, classes={"p": P, "c": C}, graphs=graphs, new=new, ops=ops, core=core, unsat=unsat)


def _world_m2m():
    from sqlalchemy import Column, ForeignKey, Integer, Table
    from sqlalchemy.orm import declarative_base, relationship
    Base = declarative_base()
    lr = Table("lr", Base.metadata, Column("lid", ForeignKey("l.id"), primary_key=True), Column("rid", ForeignKey("r.id"), primary_key=True))

    class L(Base):
        __tablename__ = "l"
        id = Column(Integer, primary_key=True)
        rights = relationship("R", secondary=lr, back_populates="lefts")

    class R(Base):
        __tablename__ = "r"
        id = Column(Integer, primary_key=True)
        lefts = relationship("L", secondary=lr, back_populates="rights")

    graphs = [
        {"l": [dict(id=0), dict(id=1)], "r": [dict(id=0), dict(id=1)], "lr": [dict(lid=0, rid=0), dict(lid=0, rid=1), dict(lid=1, rid=0)]},
        {"l": [dict(id=0), dict(id=1)], "r": [dict(id=0), dict(id=1)], "lr": [dict(lid=1, rid=1)]},
    ]
    new = {"l2": lambda: L(id=2), "r2": lambda: R(id=2)}
    ops = [_add("l2"), _add("r2")] + [_delete(x) for x in ("l0", "l1", "r0", "r1")]
    for a in ("l0", "l1", "l2"):
        for b in ("r0", "r1", "r2"):
            ops.append(_append(a, "rights", b))
    for a in ("l0", "l1"):
        for b in ("r0", "r1"):
            ops.append(_remove(a, "rights", b))
            ops.append(_remove(b, "lefts", a))
            ops.append(_remove_delete(a, "rights", b))
    for b in ("r0", "r2"):
        for a in ("l1", "l2"):
            ops.append(_append(b, "lefts", a))
    ops += [_load("l0", "rights"), _load("r0", "lefts")]
    core = {"s.add(l2)", "s.delete(l0)", "s.delete(r0)", "s.delete(r1)", "l0.rights.append(r2)", "l2.rights.append(r0)", "l1.rights.append(r1)", "l0.rights.remove(r0)",
            "r0.lefts.remove(l1)", "l0.rights.remove(r1);s.delete(r1)", "l0.rights.remove(r0);s.delete(r0)", "r2.lefts.append(l1)", "load r0.lefts", "l2.rights.append(r2)"}
    return types.SimpleNamespace(name="m2m", Base=Base, classes={"l": L, "r": R}, graphs=graphs, new=new, ops=ops, core=core, unsat=lambda e, s: None)


def _world_uni_m2m():
    """many-to-many declared on one side only (L.rights), plain classes"""
    from sqlalchemy import Column, ForeignKey, Integer, Table
    from sqlalchemy.orm import declarative_base, relationship
    Base = declarative_base()
    lr = Table("lr", Base.metadata, Column("lid", ForeignKey("l.id"), primary_key=True), Column("rid", ForeignKey("r.id"), primary_key=True))

    class L(Base):
        __tablename__ = "l"
        id = Column(Integer, primary_key=True)
        rights = relationship("R", secondary=lr)

    class R(Base):
        __tablename__ = "r"
        id = Column(Integer, primary_key=True)

    graphs = [
        {"l": [dict(id=0), dict(id=1)], "r": [dict(id=0), dict(id=1)], "lr": [dict(lid=0, rid=0), dict(lid=0, rid=1), dict(lid=1, rid=0)]},
        {"l": [dict(id=0), dict(id=1)], "r": [dict(id=0), dict(id=1)], "lr": [dict(lid=1, rid=1)]},
    ]
    new = {"l2": lambda: L(id=2), "r2": lambda: R(id=2)}
    ops = [_add("l2"), _add("r2")] + [_delete(x) for x in ("l0", "l1", "r0", "r1")]
    for a in ("l0", "l1", "l2"):
        for b in ("r0", "r1", "r2"):
            ops.append(_append(a, "rights", b))
    for a in ("l0", "l1"):
        for b in ("r0", "r1"):
            ops.append(_remove(a, "rights", b))
            ops.append(_remove_delete(a, "rights", b))
    ops += [_load("l0", "rights"), _load("l1", "rights")]
    core = {"s.add(l2)", "s.delete(l0)", "s.delete(l1)", "s.delete(r1)", "l0.rights.append(r2)", "l2.rights.append(r0)", "l1.rights.append(r1)", "l0.rights.remove(r0)",
            "l0.rights.remove(r1);s.delete(r1)", "l1.rights.remove(r0);s.delete(r0)", "l1.rights.remove(r1);s.delete(r1)", "load l0.rights", "l2.rights.append(r2)"}

    def unsat(e, s):
        from sqlalchemy import inspect
        g = e["_graph"]
        for k, r in e.items():
            if isinstance(r, R) and r in s.deleted:
                for kl, l in e.items():
                    if isinstance(l, L) and _in_session(s, l):
                        cur = l.__dict__["rights"] if "rights" in l.__dict__ else [x for x in e.values() if isinstance(x, R) and dict(lid=l.id, rid=x.id) in g["lr"]]
                        if r in cur:
                            return f"{k} is deleted while the unidirectional {kl}.rights still holds it"
        return None
    return types.SimpleNamespace(name="uni_m2m", Base=Base, classes={"l": L, "r": R}, graphs=graphs, new=new, ops=ops, core=core, unsat=unsat)


def _world_mutual():
    """two classes that depend on each other at the mapper level WITHOUT post_update (rows stay acyclic): A.bs <-> B.a through b.a_id and
    B.as_ <-> A.b through a.b_id — every flush that touches both takes the per-state path with two different mappers"""
    from sqlalchemy import Column, ForeignKey, Integer
    from sqlalchemy.orm import declarative_base, relationship
    Base = declarative_base()

    class A(Base):
        __tablename__ = "a"
        id = Column(Integer, primary_key=True)
        b_id = Column(ForeignKey("b.id", name="fk_a_b", use_alter=True))
        bs = relationship("B", back_populates="a", foreign_keys="B.a_id")
        b = relationship("B", back_populates="as_", foreign_keys=b_id)

    class B(Base):
        __tablename__ = "b"
        id = Column(Integer, primary_key=True)
        a_id = Column(ForeignKey("a.id"))
        a = relationship("A", back_populates="bs", foreign_keys=a_id)
        as_ = relationship("A", back_populates="b", foreign_keys="A.b_id")

    graphs = [
        # a0 <- b0 <- a1 <- b1 (a chain), b2 alone
        {"a": [dict(id=0, b_id=None), dict(id=1, b_id=0)], "b": [dict(id=0, a_id=0), dict(id=1, a_id=1), dict(id=2, a_id=None)]},
        {"a": [dict(id=0, b_id=1), dict(id=1, b_id=None)], "b": [dict(id=0, a_id=None), dict(id=1, a_id=1)]},
    ]
    new = {"a2": lambda: A(id=2), "b3": lambda: B(id=3)}
    ops = [_add("a2"), _add("b3")] + [_delete(x) for x in ("a0", "a1", "b0", "b1", "b2")]
    for a in ("a0", "a1", "a2"):
        for b in ("b0", "b1", "b3", None):
            ops.append(_set(a, "b", b))
    for b in ("b0", "b1", "b2", "b3"):
        for a in ("a0", "a1", "a2", None):
            ops.append(_set(b, "a", a))
    ops += [_remove("a0", "bs", "b0"), _remove("a1", "bs", "b1"), _remove("b0", "as_", "a1"), _append("a2", "bs", "b3"), _append("a1", "bs", "b2"), _append("b3", "as_", "a2"),
            _append("b1", "as_", "a2"), _load("a0", "bs"), _load("b0", "as_"), _load("a1", "b")]
    core = {"s.add(a2)", "s.add(b3)", "s.delete(a0)", "s.delete(a1)", "s.delete(b0)", "s.delete(b1)", "a1.b=b1", "a2.b=b1", "a1.b=None", "a0.b=b3", "b3.a=a1", "b2.a=a2", "b0.a=None",
            "b1.a=a0", "a2.bs.append(b3)", "b3.as_.append(a2)", "a1.bs.remove(b1)", "load a0.bs"}

    def unsat(e, s):
        # documented: mutually dependent tables need post_update as soon as rows depend on each other; the unit of work orders an
        # object after its previous AND its new target, so the precondition is: previous + new references together are acyclic
        As = {o.id: o for o in e.values() if isinstance(o, A)}
        Bs = {o.id: o for o in e.values() if isinstance(o, B)}
        g = e["_graph"]
        edges = {}
        from sqlalchemy import inspect
        for k, o in e.items():
            if k.startswith("_") or inspect(o).transient:      # deleted rows count too: deleting mutually referencing rows needs post_update as well
                continue
            if isinstance(o, A):
                tg = [_m2o(o, "b", "b_id", Bs)] + [Bs.get(r["b_id"]) for r in g["a"] if r["id"] == o.id]
            else:
                tg = [_m2o(o, "a", "a_id", As)] + [As.get(r["a_id"]) for r in g["b"] if r["id"] == o.id]
            edges[id(o)] = {id(t) for t in tg if t is not None}
        if on_cycle_ids(edges):
            return "previous + new references between a and b rows form a cycle (mutually dependent rows need post_update)"
        return None
    return types.SimpleNamespace(name="mutual", Base=Base, classes={"a": A, "b": B}, graphs=graphs, new=new, ops=ops, core=core, unsat=unsat)


def _world_selfref(cascade):
    """adjacency list Node (children <-> parent) with two more relationships from Node to classes outside the cycle:
    Node.items (one-to-many, unidirectional, nullify) and Node.tags (many-to-many, unidirectional)"""
    from sqlalchemy import Column, ForeignKey, Integer, Table
    from sqlalchemy.orm import declarative_base, relationship
    Base = declarative_base()
    node_tag = Table("node_tag", Base.metadata, Column("node_id", ForeignKey("node.id"), primary_key=True),
                     Column("tag_id", ForeignKey("tag.id"), primary_key=True))

    class Node(Base):
        __tablename__ = "node"
        id = Column(Integer, primary_key=True)
        parent_id = Column(ForeignKey("node.id"))
        children = relationship("Node", back_populates="parent", **({"cascade": "all, delete-orphan"} if cascade else {}))
        parent = relationship("Node", back_populates="children", remote_side=id)
        items = relationship("Item")
        tags = relationship("Tag", secondary=node_tag)

    class Item(Base):
        __tablename__ = "item"
        id = Column(Integer, primary_key=True)
        node_id = Column(ForeignKey("node.id"))

    class Tag(Base):
        __tablename__ = "tag"
        id = Column(Integer, primary_key=True)

    graphs = [
        {"node": [dict(id=0, parent_id=None), dict(id=1, parent_id=0), dict(id=2, parent_id=1), dict(id=3, parent_id=None)],
         "item": [dict(id=0, node_id=1), dict(id=1, node_id=1), dict(id=2, node_id=0)],
         "tag": [dict(id=0), dict(id=1)],
         "node_tag": [dict(node_id=1, tag_id=0), dict(node_id=0, tag_id=0), dict(node_id=1, tag_id=1)]},
        {"node": [dict(id=0, parent_id=None), dict(id=1, parent_id=0), dict(id=2, parent_id=0)],
         "item": [dict(id=0, node_id=2)],
         "tag": [dict(id=0)],
         "node_tag": [dict(node_id=2, tag_id=0)]},
    ]
    new = {"n4": lambda: Node(id=4), "i3": lambda: Item(id=3), "t2": lambda: Tag(id=2)}
    ops = [_add("n4"), _add("i3"), _add("t2")]
    ops += [_delete(x) for x in ("n0", "n1", "n2", "n3", "i0", "i2", "t0", "t1")]
    for a in ("n1", "n2", "n3", "n4"):
        for b in ("n0", "n1", "n3", "n4", None):
            if a != b:
                ops.append(_set(a, "parent", b))
    for a in ("n0", "n1"):
        for b in ("n1", "n2"):
            if a != b:
                ops.append(_remove(a, "children", b))
    for a in ("n3", "n4", "n1"):
        for b in ("n2", "n4", "n1"):
            if a != b:
                ops.append(_append(a, "children", b))
    for a in ("n0", "n1", "n2"):
        for b in ("i0", "i2"):
            ops.append(_remove(a, "items", b))
    for a in ("n1", "n3", "n4"):
        ops.append(_append_exclusive(a, "items", "i3"))
    ops += [_move("n1", "items", "i0", "n0"), _move("n1", "items", "i0", "n4"), _move("n0", "items", "i2", "n2"), _move("n2", "items", "i0", "n1")]
    for a in ("n0", "n1", "n2"):
        for b in ("t0", "t1"):
            ops.append(_remove(a, "tags", b))
            ops.append(_remove_delete(a, "tags", b))
    for a in ("n1", "n3", "n4"):
        for b in ("t0", "t2"):
            ops.append(_append(a, "tags", b))
    ops += [_load("n1", "items"), _load("n1", "tags"), _load("n0", "children"), _load("n1", "parent")]
    core = {"s.add(n4)", "s.delete(n1)", "s.delete(n0)", "s.delete(n2)", "s.delete(i0)", "n2.parent=n0", "n1.parent=n3", "n4.parent=n1", "n2.parent=None", "n3.parent=n4",
            "n0.children.remove(n1)", "n4.children.append(n2)", "n1.items.remove(i0)", "n4.items.append(i3)", "n1.items.remove(i0);n0.items.append(i0)",
            "n1.tags.remove(t1);s.delete(t1)", "n1.tags.remove(t0)", "n4.tags.append(t0)", "n3.tags.append(t2)", "load n1.items", "load n1.parent"}

    def unsat(e, s):
        from sqlalchemy import inspect
        nodes = {o.id: o for o in e.values() if isinstance(o, Node)}
        names = {id(o): k for k, o in e.items() if not k.startswith("_")}
        g = e["_graph"]
        # a cycle among rows of one table needs post_update (documented); parents that are not going to be saved
        for k, n in e.items():
            if not isinstance(n, Node) or not _in_session(s, n):
                continue
            seen, cur = set(), n
            while cur is not None:
                if id(cur) in seen:
                    return f"the parent pointers from {k} form a cycle (needs post_update)"
                seen.add(id(cur))
                cur = _m2o(cur, "parent", "parent_id", nodes)
        # unidirectional many-to-many / one-to-many: deleting the far side while a live collection still holds it
        for k, t in e.items():
            if isinstance(t, Tag) and t in s.deleted:
                for n in nodes.values():
                    if n in s.deleted or not inspect(n).persistent:
                        if not (inspect(n).pending and "tags" in n.__dict__ and t in n.__dict__["tags"]):
                            continue
                    cur = n.__dict__["tags"] if "tags" in n.__dict__ else [x for x in e.values() if isinstance(x, Tag) and
                                                                          dict(node_id=n.id, tag_id=x.id) in g["node_tag"]]
                    if t in cur:
                        return f"{k} is deleted while the unidirectional {names[id(n)]}.tags still holds it"
        return None
    return types.SimpleNamespace(name="selfref_cascade" if cascade else "selfref", Base=Base, classes={"n": Node, "i": Item, "t": Tag},
                                 tables={"n": "node", "i": "item", "t": "tag"}, graphs=graphs, new=new, ops=ops, core=core, unsat=unsat)


def _world_postupdate():
    """two mutually dependent classes: Ball.owner -> Person (one-to-many Person.balls), Person.favorite -> Ball with post_update"""
    from sqlalchemy import Column, ForeignKey, Integer
    from sqlalchemy.orm import declarative_base, relationship
    Base = declarative_base()

    class Person(Base):
        __tablename__ = "person"
        id = Column(Integer, primary_key=True)
        fav_id = Column(ForeignKey("ball.id", name="fk_person_fav", use_alter=True))
        balls = relationship("Ball", back_populates="owner", foreign_keys="Ball.person_id")
        favorite = relationship("Ball", foreign_keys=fav_id, post_update=True)

    class Ball(Base):
        __tablename__ = "ball"
        id = Column(Integer, primary_key=True)
        person_id = Column(ForeignKey("person.id"))
        owner = relationship("Person", back_populates="balls", foreign_keys=person_id)

    graphs = [
        {"person": [dict(id=0, fav_id=0), dict(id=1, fav_id=None)], "ball": [dict(id=0, person_id=0), dict(id=1, person_id=0), dict(id=2, person_id=1)]},
        {"person": [dict(id=0, fav_id=1), dict(id=1, fav_id=1)], "ball": [dict(id=0, person_id=None), dict(id=1, person_id=1)]},
    ]
    new = {"e2": lambda: Person(id=2), "b3": lambda: Ball(id=3)}
    ops = [_add("e2"), _add("b3")] + [_delete(x) for x in ("e0", "e1", "b0", "b1", "b2")]
    for p in ("e0", "e1", "e2"):
        for b in ("b0", "b1", "b3", None):
            ops.append(_set(p, "favorite", b))
    for b in ("b0", "b1", "b2", "b3"):
        for p in ("e0", "e1", "e2", None):
            ops.append(_set(b, "owner", p))
    for p in ("e0", "e1"):
        for b in ("b0", "b1"):
            ops.append(_remove(p, "balls", b))
    for p in ("e1", "e2"):
        for b in ("b0", "b3"):
            ops.append(_append(p, "balls", b))
    ops += [_load("e0", "balls"), _load("e0", "favorite")]
    core = {"s.add(e2)", "s.add(b3)", "s.delete(e0)", "s.delete(b0)", "s.delete(b1)", "s.delete(e1)", "e0.favorite=b1", "e2.favorite=b3", "e1.favorite=b0", "e0.favorite=None",
            "e2.favorite=b0", "b3.owner=e2", "b0.owner=e1", "b1.owner=None", "b3.owner=e0", "e0.balls.remove(b0)", "e2.balls.append(b3)", "load e0.balls"}

    def unsat(e, s):
        from sqlalchemy import inspect
        balls = {o.id: o for o in e.values() if isinstance(o, Ball)}
        for k, p in e.items():
            if isinstance(p, Person) and _in_session(s, p):
                f = _m2o(p, "favorite", "fav_id", balls)
                if f is not None and (f in s.deleted or not (inspect(f).persistent or inspect(f).pending)):
                    return f"{k}.favorite (many-to-one without a reverse side) refers to a deleted / unsaved ball"
        return None
    return types.SimpleNamespace(name="post_update", Base=Base, classes={"e": Person, "b": Ball}, tables={"e": "person", "b": "ball"}, graphs=graphs, new=new, ops=ops,
                                 core=core, unsat=unsat)


def _world_joined():
    """joined-table inheritance: emp <- eng, mgr; Company.employees <-> Employee.company; Engineer.manager <-> Manager.reports"""
    from sqlalchemy import Column, ForeignKey, Integer, String
    from sqlalchemy.orm import declarative_base, relationship
    Base = declarative_base()

    class Company(Base):
        __tablename__ = "company"
        id = Column(Integer, primary_key=True)
        employees = relationship("Employee", back_populates="company")

    class Employee(Base):
        __tablename__ = "emp"
        id = Column(Integer, primary_key=True)
        type = Column(String(10), nullable=False)
        company_id = Column(ForeignKey("company.id"))
        company = relationship("Company", back_populates="employees")
        __mapper_args__ = {"polymorphic_on": type, "polymorphic_identity": "emp"}

    class Manager(Employee):
        __tablename__ = "mgr"
        id = Column(ForeignKey("emp.id"), primary_key=True)
        level = Column(Integer)
        reports = relationship("Engineer", back_populates="manager", foreign_keys="Engineer.manager_id")
        __mapper_args__ = {"polymorphic_identity": "mgr"}

    class Engineer(Employee):
        __tablename__ = "eng"
        id = Column(ForeignKey("emp.id"), primary_key=True)
        manager_id = Column(ForeignKey("mgr.id"))
        manager = relationship("Manager", back_populates="reports", foreign_keys=manager_id)
        __mapper_args__ = {"polymorphic_identity": "eng", "inherit_condition": id == Employee.id}

    graphs = [
        {"company": [dict(id=0), dict(id=1)],
         "emp": [dict(id=0, type="eng", company_id=0), dict(id=1, type="eng", company_id=0), dict(id=2, type="mgr", company_id=0), dict(id=3, type="mgr", company_id=1)],
         "mgr": [dict(id=2, level=1), dict(id=3, level=1)],
         "eng": [dict(id=0, manager_id=2), dict(id=1, manager_id=None)]},
        {"company": [dict(id=0)],
         "emp": [dict(id=0, type="eng", company_id=None), dict(id=2, type="mgr", company_id=0)],
         "mgr": [dict(id=2, level=1)],
         "eng": [dict(id=0, manager_id=2)]},
    ]
    new = {"k2": lambda: Company(id=2), "g4": lambda: Engineer(id=4), "m5": lambda: Manager(id=5, level=2)}
    ops = [_add("k2"), _add("g4"), _add("m5")] + [_delete(x) for x in ("k0", "k1", "g0", "g1", "m2", "m3")]
    for g in ("g0", "g1", "g4"):
        for m in ("m2", "m3", "m5", None):
            ops.append(_set(g, "manager", m))
    for x in ("g0", "g4", "m2", "m5"):
        for k in ("k0", "k1", "k2", None):
            ops.append(_set(x, "company", k))
    for m in ("m2",):
        for g in ("g0", "g1"):
            ops.append(_remove(m, "reports", g))
            ops.append(_remove_delete(m, "reports", g))
    for m in ("m3", "m5"):
        for g in ("g0", "g4"):
            ops.append(_append(m, "reports", g))
    for k in ("k0",):
        for x in ("g0", "m2"):
            ops.append(_remove(k, "employees", x))
    for k in ("k1", "k2"):
        for x in ("g4", "m5", "g0"):
            ops.append(_append(k, "employees", x))
    ops += [_load("m2", "reports"), _load("k0", "employees")]
    core = {"s.add(g4)", "s.add(m5)", "s.delete(k0)", "s.delete(g0)", "s.delete(m2)", "s.delete(m3)", "g0.manager=m3", "g4.manager=m5", "g4.manager=m2", "g0.manager=None",
            "g1.manager=m5", "g4.company=k2", "m5.company=k0", "g0.company=k1", "m2.reports.remove(g0);s.delete(g0)", "m5.reports.append(g0)", "k2.employees.append(m5)",
            "load m2.reports"}
    return types.SimpleNamespace(name="joined", Base=Base, classes={"k": Company, "g": Engineer, "m": Manager}, tables={"k": "company", "g": "eng", "m": "mgr"},
                                 graphs=graphs, new=new, ops=ops, core=core, unsat=lambda e, s: None)


WORLD_NAMES = ("uni_o2m", "uni_o2m_cascade", "uni_m2o", "o2m_nullable", "o2m_cascade", "o2m_nocascade", "o2m_passive", "m2m", "uni_m2m", "mutual", "selfref", "selfref_cascade", "post_update", "joined")


def world(name):
    """per process singleton: the mapped classes of one world, configured"""
    if name not in _WORLDS:
        if name.startswith("o2m_"):
            w = _world_o2m(name[4:])
        elif name.startswith("uni_"):
            w = _world_uni(name[4:])
        elif name == "m2m":
            w = _world_m2m()
        elif name == "uni_m2m":
            w = _world_uni_m2m()
        elif name == "mutual":
            w = _world_mutual()
        elif name == "selfref":
            w = _world_selfref(False)
        elif name == "selfref_cascade":
            w = _world_selfref(True)
        elif name == "post_update":
            w = _world_postupdate()
        elif name == "joined":
            w = _world_joined()
        else:
            raise KeyError(name)
        from sqlalchemy.orm import configure_mappers
        configure_mappers()
        if not hasattr(w, "tables"):
            w.tables = {k: c.__tablename__ for k, c in w.classes.items()}
        w.opnames = [o[0] for o in w.ops]
        assert len(set(w.opnames)) == len(w.opnames), "duplicate operation names"
        assert w.core <= set(w.opnames), sorted(w.core - set(w.opnames))
        w.engine = None
        w.loaded_graph = None
        _WORLDS[name] = w
    return _WORLDS[name]


# ------------------------------------------------------------------------------------------------- engine / recorder
_REC = {"on": False, "log": []}


def engine_for(w):
    """SQLite :memory: on one connection, PRAGMA foreign_keys=ON (immediate enforcement), tables of the world created;
    checks once that enforcement is really active"""
    if w.engine is None:
        from sqlalchemy import create_engine, event
        from sqlalchemy.pool import StaticPool
        e = create_engine("sqlite://", poolclass=StaticPool)

        @event.listens_for(e, "connect")
        def _fk(dbapi_conn, rec):
            dbapi_conn.execute("PRAGMA foreign_keys=ON")

        @event.listens_for(e, "before_cursor_execute")
        def _rec(conn, cursor, statement, parameters, context, executemany):
            if _REC["on"]:
                c = context.compiled if context is not None else None
                if c is None or not (context.isinsert or context.isupdate or context.isdelete):
                    if not statement.lstrip().upper().startswith(("SELECT", "PRAGMA")):
                        _REC["log"].append(("?", None, None, statement))
                    return
                kind = "INSERT" if context.isinsert else ("UPDATE" if context.isupdate else "DELETE")
                _REC["log"].append((kind, c.statement.table, [dict(p) for p in context.compiled_parameters], statement))
        w.Base.metadata.create_all(e)
        with e.connect() as conn:
            on = conn.exec_driver_sql("PRAGMA foreign_keys").scalar()
            deferred = conn.exec_driver_sql("PRAGMA defer_foreign_keys").scalar()
        if on != 1 or deferred != 0:
            raise RuntimeError(f"foreign key enforcement is not immediate: foreign_keys={on} defer_foreign_keys={deferred}")
        w.engine = e
        w.loaded_graph = None
    return w.engine


def load_graph(w, gi):
    """(re)place the committed rows of the world's database by initial graph number gi"""
    e = engine_for(w)
    if w.loaded_graph == gi:
        return e
    g = w.graphs[gi]
    md = w.Base.metadata
    with e.begin() as conn:
        conn.exec_driver_sql("PRAGMA defer_foreign_keys=ON")      # this transaction only: rows are loaded in any order
        for t in reversed(md.sorted_tables):
            conn.execute(t.delete())
        for tname, rows in g.items():
            if rows:
                conn.execute(md.tables[tname].insert(), rows)
    w.loaded_graph = gi
    return e


def reset_engine(w):
    if w.engine is not None:
        w.engine.dispose()
    w.engine = None
    w.loaded_graph = None


def read_db(conn, md):
    out = {}
    for t in md.sorted_tables:
        pk = [c.name for c in t.primary_key.columns]
        out[t.name] = {tuple(r[k] for k in pk): dict(r) for r in conn.execute(t.select()).mappings()}
    return out


def graph_rows(w, gi):
    md = w.Base.metadata
    out = {}
    for t in md.sorted_tables:
        pk = [c.name for c in t.primary_key.columns]
        out[t.name] = {}
        for r in w.graphs[gi].get(t.name, []):
            row = {c.name: r.get(c.name) for c in t.columns}
            out[t.name][tuple(row[k] for k in pk)] = row
    return out


# ------------------------------------------------------------------------------------------------- shadow database
def _fks(md):
    """[(table, [local cols], reftable, [ref cols], ondelete)]"""
    out = []
    for t in md.tables.values():
        for f in t.foreign_key_constraints:
            out.append((t.name, [c.name for c in f.columns], f.referred_table.name, [e.column.name for e in f.elements], (f.ondelete or "").upper()))
    return out


def _dangling(shadow, fks, only_table=None):
    """rows that reference a missing row: [(table, pk, cols, reftable, values)]"""
    out = []
    for t, lc, rt, rc, _ in fks:
        if only_table is not None and t not in only_table and rt not in only_table:
            continue
        have = {tuple(r[c] for c in rc) for r in shadow[rt].values()}
        for pk, r in shadow[t].items():
            v = tuple(r[c] for c in lc)
            if None in v:
                continue
            if v not in have:
                out.append((t, pk, lc, rt, v))
    return out


def replay_statements(w, gi, log):
    """apply the recorded DML to a copy of the initial rows, row by row in the emitted order, with immediate foreign-key
    enforcement -> (shadow rows, [ordering violations as sentences], events written out)"""
    md = w.Base.metadata
    fks = _fks(md)
    shadow = graph_rows(w, gi)
    problems, events = [], []
    w.cascaded = set()      # rows removed by the schema's ON DELETE CASCADE during the last replay
    for kind, table, plist, sql in log:
        if kind == "?":
            raise RuntimeError(f"unrecognised statement in a flush: {sql}")
        t = table.name
        pkcols = [c for c in table.primary_key.columns]
        for p in plist:
            if kind == "INSERT":
                row = {c.name: p.get(c.key) for c in table.columns}
                pk = tuple(row[c.name] for c in pkcols)
                ev = f"INSERT {t} {row}"
                if pk in shadow[t]:
                    problems.append(f"{ev}: primary key exists already")
                shadow[t][pk] = row
            elif kind == "DELETE":
                crit = {c.name: p[c.key] for c in table.columns if c.key in p}
                if not crit or set(p) - {c.key for c in table.columns}:
                    raise RuntimeError(f"cannot interpret DELETE parameters {p} for {sql}")
                ev = f"DELETE {t} {crit}"
                victims = [k for k, r in shadow[t].items() if all(r[c] == v for c, v in crit.items())]
                if not victims:
                    problems.append(f"{ev}: no such row at this point")
                for k in victims:
                    del shadow[t][k]
                # ON DELETE CASCADE of the schema
                changed = True
                while changed:
                    changed = False
                    for ft, lc, rt, rc, ondel in fks:
                        if ondel == "CASCADE":
                            have = {tuple(r[c] for c in rc) for r in shadow[rt].values()}
                            for k, r in list(shadow[ft].items()):
                                v = tuple(r[c] for c in lc)
                                if None not in v and v not in have:
                                    del shadow[ft][k]
                                    w.cascaded.add((ft, k))
                                    changed = True
            else:
                where = {}
                for c in pkcols:
                    for key in (c._label, "old_" + c.key):
                        if key in p:
                            where[c.name] = p[key]
                sets = {c.name: p[c.key] for c in table.columns if c.key in p}
                if len(where) != len(pkcols) or set(p) - {c.key for c in table.columns} - {c._label for c in pkcols} - {"old_" + c.key for c in pkcols}:
                    raise RuntimeError(f"cannot interpret UPDATE parameters {p} for {sql}")
                pk = tuple(where[c.name] for c in pkcols)
                ev = f"UPDATE {t} {where} SET {sets}"
                if pk not in shadow[t]:
                    problems.append(f"{ev}: no such row at this point")
                else:
                    shadow[t][pk].update(sets)
                    newpk = tuple(shadow[t][pk][c.name] for c in pkcols)
                    if newpk != pk:
                        shadow[t][newpk] = shadow[t].pop(pk)
            events.append(ev)
            for ft, pk, lc, rt, v in _dangling(shadow, fks, only_table={t}):
                problems.append(f"after statement #{len(events)} [{ev}]: row {ft}{list(pk)} references {rt}{list(v)} through {lc}, which does not exist at this point "
                                f"({'not yet inserted' if kind == 'INSERT' else 'already deleted' if kind == 'DELETE' else 'missing'})")
            if problems and len(problems) > 6:
                return shadow, problems, events
    return shadow, problems, events


# ------------------------------------------------------------------------------------------------- graph vs database
def graph_vs_db(w, env, db):
    """the loaded relationships / columns of the live objects against the rows; -> sentences"""
    from sqlalchemy import inspect
    from sqlalchemy.orm import RelationshipProperty  # noqa: F401
    from sqlalchemy.orm.interfaces import MANYTOMANY, MANYTOONE, ONETOMANY
    out = []
    names = {id(o): k for k, o in env.items() if not k.startswith("_")}
    touched = {id(env[k]) for k in env["_fk_touched"]}

    def live(o):
        return o is not None and inspect(o).persistent

    byrow = {}
    unlinked = set()   # objects with a loaded many-to-one to an object that never entered the session: that link is not persisted (SAWarning)
    for k, o in env.items():
        if not k.startswith("_"):
            mo = inspect(o).mapper
            for t in mo.tables:
                byrow[(t.name, tuple(mo.primary_key_from_instance(o)))] = k
            for rel in mo.relationships:
                v = inspect(o).dict.get(rel.key)
                if rel.direction is MANYTOONE and v is not None and inspect(v).transient:
                    unlinked.add(k)
                if v is not None and rel.direction is not MANYTOONE and (inspect(o).transient or inspect(o).deleted or inspect(o).detached):
                    # attached to an object that never entered the session, or that this very flush deleted (possibly by cascade)
                    for x in (list(v) if rel.uselist else [v]):
                        unlinked.add(names.get(id(x)))

    def rowof(o, table):
        st = inspect(o)
        m = st.mapper
        pk = tuple(m._get_state_attr_by_column(st, st.dict, c) for c in table.primary_key.columns) if table in m.tables else None
        return db[table.name].get(pk)

    for k, o in env.items():
        if k.startswith("_"):
            continue
        st = inspect(o)
        m = st.mapper
        ident = m.primary_key_from_instance(o)
        base_row = db[m.tables[0].name].get(tuple(ident)) if None not in ident else None
        if st.persistent:
            if any((t.name, tuple(ident)) in w.cascaded for t in m.tables):
                continue     # removed by ON DELETE CASCADE in the database: the (passive_deletes) object is stale by design
            for t in m.tables:
                pkv = tuple(ident)
                if pkv not in db[t.name]:
                    out.append(f"{k} is persistent but has no row in {t.name}")
            if any(tuple(ident) not in db[t.name] for t in m.tables):
                continue
            for ca in m.column_attrs:
                if ca.key in st.dict and ca.key not in st.expired_attributes:
                    col = ca.columns[0]
                    row = db[col.table.name].get(tuple(ident))
                    if row is not None and row[col.name] != st.dict[ca.key]:
                        out.append(f"{k}.{ca.key} is {st.dict[ca.key]!r} in memory but {row[col.name]!r} in {col.table.name}")
            if id(o) in touched:
                continue
            for rel in m.relationships:
                if rel.key not in st.dict or rel.viewonly:
                    continue
                val = st.dict[rel.key]
                if rel.direction is MANYTOONE:
                    if val is not None and inspect(val).transient:
                        continue     # target never entered the session (SAWarning "add operation along ... will not proceed"): nothing to persist
                    tgt = val if live(val) else None
                    for lcol, rcol in rel.local_remote_pairs:
                        row = db[lcol.table.name].get(tuple(ident))
                        exp = None if tgt is None else inspect(tgt).mapper._get_state_attr_by_column(inspect(tgt), inspect(tgt).dict, rcol)
                        if row is not None and row[lcol.name] != exp:
                            out.append(f"{k}.{rel.key} is {names.get(id(val), val)}{'' if val is None or live(val) else ' (deleted)'} but row {lcol.table.name}{list(ident)}.{lcol.name} "
                                       f"is {row[lcol.name]!r}")
                elif rel.direction is ONETOMANY:
                    members = list(val) if rel.uselist else ([val] if val is not None else [])
                    members = [x for x in members if live(x) and id(x) not in touched]
                    for lcol, rcol in rel.local_remote_pairs:
                        mine = m._get_state_attr_by_column(st, st.dict, lcol)
                        pks = set()
                        for x in members:
                            xid = tuple(inspect(x).mapper.primary_key_from_instance(x))
                            pks.add(xid)
                            row = db[rcol.table.name].get(xid)
                            if row is None or row[rcol.name] != mine:
                                out.append(f"{names.get(id(x), x)} is in {k}.{rel.key} but row {rcol.table.name}{list(xid)}.{rcol.name} is "
                                           f"{None if row is None else row[rcol.name]!r}")
                        for xid, row in db[rcol.table.name].items():
                            if row[rcol.name] == mine and xid not in pks and byrow.get((rcol.table.name, xid)) not in env["_fk_touched"] \
                                    and byrow.get((rcol.table.name, xid)) not in unlinked:
                                out.append(f"row {rcol.table.name}{list(xid)}.{rcol.name} is {mine!r} but that object is not in the loaded {k}.{rel.key}")
                elif rel.direction is MANYTOMANY:
                    members = [x for x in val if live(x)]
                    sec = rel.secondary
                    (pcol, spcol), = rel.synchronize_pairs
                    (ccol, sccol), = rel.secondary_synchronize_pairs
                    mine = m._get_state_attr_by_column(st, st.dict, pcol)
                    exp = sorted((mine, inspect(x).mapper._get_state_attr_by_column(inspect(x), inspect(x).dict, ccol)) for x in members)
                    act = sorted((r[spcol.name], r[sccol.name]) for r in db[sec.name].values() if r[spcol.name] == mine)
                    if exp != act:
                        out.append(f"{k}.{rel.key} is {[names.get(id(x), x) for x in members]} but {sec.name} rows for it are {act}")
        else:
            if base_row is not None and (st.transient or st.deleted or st.detached):
                out.append(f"{k} is {'deleted' if (st.deleted or st.detached) else 'transient'} but row {m.tables[0].name}{list(ident)} exists")
    return out
