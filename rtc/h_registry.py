"""Harness for util._collections.ScopedRegistry: real class, registry pre-filled for 0..2 scopes, current scope varied."""
import itertools
from .harness import harness, CallSpec
from sqlalchemy.util._collections import ScopedRegistry


class _Base:
    meth = None
    nargs = 0

    def enumerate(self, tier):
        keys = ["k0", "k1", "k2"]
        for present in itertools.chain.from_iterable(itertools.combinations(keys, n) for n in range(0, 4)):
            for order in ([list(present)] if len(present) < 2 else [list(present), list(reversed(present))]):
                for cur in keys:
                    yield {"present": order, "current": cur}
                    if self.meth == "__call__" and cur not in order:
                        # interference: while the factory runs, another thread sharing the scope completes its own call
                        yield {"present": order, "current": cur, "race": True}

    def build(self, desc):
        created = []

        competing = ("competing-session",) if desc.get("race") else None

        def create():
            o = object()
            created.append(o)
            if competing is not None:
                reg.registry.setdefault(desc["current"], competing)     # the other thread won the race
            return o
        reg = ScopedRegistry(create, lambda: desc["current"])
        for k in desc["present"]:
            reg.registry[k] = ("obj", k)
        fn = getattr(reg, self.meth)
        args = (("new",),) if self.nargs else ()
        bind = {"obj": args[0]} if self.nargs else {}
        bind["competing"] = competing
        uni = list(desc["present"]) + ["k0", "k1", "k2"]
        return CallSpec(fn, bind, args=args, self_obj=reg, universe=list(dict.fromkeys(uni)))


@harness("registry.call", "registry pre-filled with every ordered subset of 3 scope keys x current scope in 3 keys")
class Call(_Base):
    meth = "__call__"


@harness("registry.has", "same scope")
class Has(_Base):
    meth = "has"


@harness("registry.set", "same scope")
class Set_(_Base):
    meth = "set"
    nargs = 1


@harness("registry.clear", "same scope")
class Clear(_Base):
    meth = "clear"
