"""Harness for orm/identity.py::_WeakInstanceDict: the real container, duck-typed states (key, obj(), modified, _instance_dict)
— the container code only touches those attributes.  Map pre-filled with <= 2 entries; argument state new / same / other-live /
other-dead under an existing or a new key."""
import itertools
from .harness import harness, CallSpec
from sqlalchemy.orm.identity import _WeakInstanceDict
from sqlalchemy import exc as sa_exc


class Obj:
    pass


class FakeState:
    class_ = Obj

    def __init__(self, key, alive=True, modified=False):
        self.key = key
        self._o = Obj() if alive else None
        self.modified = modified
        self._instance_dict = None

    def obj(self):
        return self._o

    def __repr__(self):
        return f"St({self.key},{'alive' if self._o is not None else 'dead'})"


KEYS = [("A", (1,), None), ("A", (2,), None), ("B", (1,), None)]


class _Base:
    meth = None
    arg = "state"

    def enumerate(self, tier):
        nkeys = 2 if tier == "quick" else 3
        for present in itertools.chain.from_iterable(itertools.combinations(range(nkeys), n) for n in range(0, nkeys + 1)):
            for alive_mask in itertools.product([True, False], repeat=len(present)):
                for target in range(nkeys):
                    for which in ("same", "other-alive", "other-dead"):
                        if which == "same" and target not in present:
                            continue
                        for modified in (False, True):
                            yield {"present": list(present), "alive": list(alive_mask), "target": target, "which": which, "modified": modified}

    def build(self, desc):
        m = _WeakInstanceDict()
        states = {}
        for k, al in zip(desc["present"], desc["alive"]):
            s = FakeState(KEYS[k], al, modified=desc["modified"])
            m._dict[KEYS[k]] = s
            s._instance_dict = m._wr
            if s.modified:
                m._modified.add(s)
            states[k] = s
        if desc["which"] == "same":
            st = states[desc["target"]]
        else:
            st = FakeState(KEYS[desc["target"]], desc["which"] == "other-alive", desc["modified"])
        fn = getattr(m, self.meth)
        uni = list(KEYS) + list(states.values()) + [st, None]
        if self.arg == "state":
            return CallSpec(fn, {"state": st}, args=(st,), self_obj=m, universe=uni, consts={"InvalidRequestError": sa_exc.InvalidRequestError})
        key = KEYS[desc["target"]]
        return CallSpec(fn, {"key": key, "default": "dflt"}, args=(key, "dflt"), self_obj=m, universe=uni)


for _n, _meth, _arg in [("add", "add", "state"), ("replace", "replace", "state"), ("safe_discard", "safe_discard", "state"),
                        ("_fast_discard", "_fast_discard", "state"), ("get", "get", "key")]:
    harness("identity." + _n, _Base.__doc__ or "map with <= 2 (quick) / 3 (thorough) entries, live/dead; argument same / other-live / other-dead state")(
        type("H_" + _n, (_Base,), {"meth": _meth, "arg": _arg, "__doc__": "map with <= 2 (quick) / 3 (thorough) entries live/dead; argument: the stored state, another live state, another dead state, under each key"}))
