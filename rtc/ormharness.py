"""In-memory ORM harness shared by the class-B checks (DESIGN §5.0).

* `mappings()`   three declarative mappings, built ONCE per process and reused (the event registry slows down badly
                 when thousands of throw-away classes accumulate, DESIGN §2.9):
                   P/C   one-to-many + many-to-one, `back_populates`      (P.children <-> C.parent)
                   P/O   one-to-one, `back_populates`, `uselist=False`     (P.one      <-> O.owner)
                   L/R   many-to-many through table `lr`, `back_populates` (L.rights   <-> R.lefts)
                 P.x and C.y are plain nullable integer columns for the checks that need a scalar.
* `new_engine()` a fresh SQLite `:memory:` engine with the tables created, a SQL statement counter attached.
* `sequences / jobs / job_sequences / run_sharded`  the operation-sequence enumerator: itertools.product over an
                 operation catalogue, sharded by sequence prefix over a multiprocessing pool (fork); every worker
                 process builds its own mappings / engine lazily, nothing mapped or connected is inherited.
* `canonical()`  optional symmetry reduction over object identities.

The harness only *drives* real SQLAlchemy functions; verdicts come from the contract clauses of each check.
"""
import itertools
import multiprocessing
import os
import types
import warnings

_NS = None


def mappings():
    """the shared mapped classes (per process singleton)"""
    global _NS
    if _NS is not None:
        return _NS
    from sqlalchemy import Column, ForeignKey, Integer, Table
    from sqlalchemy.orm import declarative_base, relationship

    Base = declarative_base()

    class P(Base):
        __tablename__ = "p"
        id = Column(Integer, primary_key=True)
        x = Column(Integer)
        children = relationship("C", back_populates="parent", order_by="C.id")
        one = relationship("O", back_populates="owner", uselist=False)

        def __repr__(self):
            return f"p{self.id}"

    class C(Base):
        __tablename__ = "c"
        id = Column(Integer, primary_key=True)
        pid = Column(ForeignKey("p.id"))
        y = Column(Integer)
        parent = relationship("P", back_populates="children")

        def __repr__(self):
            return f"c{self.id}"

    class O(Base):  # noqa: E742
        __tablename__ = "o"
        id = Column(Integer, primary_key=True)
        pid = Column(ForeignKey("p.id"))
        owner = relationship("P", back_populates="one")

        def __repr__(self):
            return f"o{self.id}"

    lr = Table("lr", Base.metadata, Column("lid", ForeignKey("l.id")), Column("rid", ForeignKey("r.id")))

    class L(Base):
        __tablename__ = "l"
        id = Column(Integer, primary_key=True)
        rights = relationship("R", secondary=lr, back_populates="lefts", order_by="R.id")

        def __repr__(self):
            return f"l{self.id}"

    class R(Base):
        __tablename__ = "r"
        id = Column(Integer, primary_key=True)
        lefts = relationship("L", secondary=lr, back_populates="rights", order_by="L.id")

        def __repr__(self):
            return f"r{self.id}"

    from sqlalchemy.orm import configure_mappers
    configure_mappers()
    _NS = types.SimpleNamespace(Base=Base, P=P, C=C, O=O, L=L, R=R, lr=lr)
    return _NS


def new_engine(metadata=None, count_sql=True, savepoint=False):
    """fresh SQLite :memory: engine (one connection per thread, tables created); engine.sqlcount[0] counts statements.
    savepoint=True: the documented pysqlite recipe for SAVEPOINT / transactional DDL (dialects/sqlite/pysqlite.py "Serializable
    isolation / Savepoints / Transactional DDL"): the driver's own transaction handling is switched off (isolation_level=None)
    and BEGIN is emitted by a `begin` event, so that Session.begin_nested() / release / rollback-to-savepoint really nest inside
    the enclosing transaction."""
    from sqlalchemy import create_engine, event
    e = create_engine("sqlite://")
    if savepoint:
        @event.listens_for(e, "connect")
        def _connect(dbapi_connection, connection_record):
            dbapi_connection.isolation_level = None

        @event.listens_for(e, "begin")
        def _begin(conn):
            conn.exec_driver_sql("BEGIN")
    (metadata or mappings().Base.metadata).create_all(e)
    e.sqlcount = [0]
    if count_sql:
        @event.listens_for(e, "before_cursor_execute")
        def _count(*a):
            e.sqlcount[0] += 1
    return e


def quiet():
    warnings.simplefilter("ignore")


# ------------------------------------------------------------------------------------------------ enumeration

def sequences(n_ops, length):
    """all operation-index sequences of exactly `length` over a catalogue of n_ops operations"""
    return itertools.product(range(n_ops), repeat=length)


def n_sequences(n_ops, lengths):
    return sum(n_ops ** L for L in lengths)


def jobs(n_ops, lengths, min_jobs=64, **extra):
    """shard descriptors: one job = all sequences of one length that start with one prefix.  JSON-able dicts."""
    out = []
    for L in lengths:
        k = 0
        while k < L and n_ops ** k < min_jobs:
            k += 1
        for prefix in itertools.product(range(n_ops), repeat=k):
            out.append(dict(extra, length=L, prefix=list(prefix)))
    return out


def job_sequences(n_ops, job):
    """the sequences of one job (tuples of operation indices)"""
    pre = tuple(job["prefix"])
    for rest in itertools.product(range(n_ops), repeat=job["length"] - len(pre)):
        yield pre + rest


def canonical(refs_per_op):
    """symmetry reduction: `refs_per_op` = for each operation of a sequence the ordered list of (kind, index) objects
    it mentions.  Canonical iff, per kind, objects are first mentioned in index order 0, 1, 2, ... ; every sequence
    is equivalent (by renaming interchangeable fresh objects) to exactly one canonical sequence."""
    nxt = {}
    for refs in refs_per_op:
        for kind, i in refs:
            n = nxt.get(kind, 0)
            if i > n:
                return False
            if i == n:
                nxt[kind] = n + 1
    return True


def procs():
    try:
        n = int(os.environ.get("VERIF_PROCS", "0"))
    except ValueError:
        n = 0
    return n or min(16, os.cpu_count() or 1)


def run_sharded(worker, joblist, nprocs=None):
    """worker(job) -> result, a top-level function of an importable module.  Results in completion order.
    Workers are forked; each builds its own mappings / engine on first use."""
    nprocs = nprocs or procs()
    if nprocs <= 1 or len(joblist) <= 1:
        return [worker(j) for j in joblist]
    ctx = multiprocessing.get_context("fork")
    # largest jobs first for balance
    order = sorted(joblist, key=lambda j: -j.get("length", 0))
    with ctx.Pool(min(nprocs, len(order))) as pool:
        return list(pool.imap_unordered(worker, order, chunksize=1))


class Agg:
    """merge of per-job result dicts: integer counters are added, lists concatenated (capped), sets united"""

    def __init__(self, cap=400):
        self.cap = cap
        self.d = {}

    def add(self, res):
        for k, v in res.items():
            if isinstance(v, bool):
                self.d[k] = self.d.get(k, False) or v
            elif isinstance(v, (int, float)):
                self.d[k] = self.d.get(k, 0) + v
            elif isinstance(v, (set, frozenset)):
                self.d.setdefault(k, set()).update(v)
            elif isinstance(v, dict):
                t = self.d.setdefault(k, {})
                for kk, vv in v.items():
                    if isinstance(vv, (int, float)):
                        t[kk] = t.get(kk, 0) + vv
                    else:
                        t.setdefault(kk, vv)
            elif isinstance(v, list):
                t = self.d.setdefault(k, [])
                t.extend(v[: max(0, self.cap - len(t))] if k != "failures" else v)
        return self

    def __getitem__(self, k):
        return self.d[k]

    def get(self, k, default=None):
        return self.d.get(k, default)
