"""Harness for util/_collections_cy.py OrderedSet / unique_list: the pure-Python class loaded from the current source
(rtc.cymods.load_pure), self = every duplicate-free list <= 3 over a pool of 3 elements, argument = list with duplicates /
set / index, per method."""
import itertools
from .harness import harness, CallSpec, REGISTRY
from . import cymods

POOL = ["a", "b", "c"]


def _mod():
    return cymods.load_pure("sqlalchemy.util._collections_cy")


def selfs(n):
    for k in range(0, n + 1):
        for p in itertools.permutations(POOL, k):
            yield list(p)


def lists(n):
    for k in range(0, n + 1):
        for p in itertools.product(POOL + ["d"], repeat=k):
            yield list(p)


class H:
    def __init__(self, meth, argkinds, star=False, params=(), bindname=None):
        self.meth, self.argkinds, self.star, self.params = meth, argkinds, star, params
        self.scope = f"self: duplicate-free lists <= 3 over {POOL}; argument kinds {argkinds}: lists (with duplicates) <= 2 (quick) / 3 (thorough) over {POOL + ['d']}, sets thereof, indices -5..5"

    def enumerate(self, tier):
        n = 2 if tier == "quick" else 3
        for s in selfs(3):
            if not self.argkinds:
                yield {"self": s, "args": []}
                continue
            for kind in self.argkinds:
                if kind == "elem":
                    for e in POOL + ["d"]:
                        yield {"self": s, "args": [["elem", e]]}
                elif kind == "index":
                    for i in range(-5, 6):
                        yield {"self": s, "args": [["index", i]]}
                elif kind == "index+elem":
                    for i in range(-5, 6):
                        for e in ("a", "d"):
                            yield {"self": s, "args": [["index", i], ["elem", e]]}
                elif kind in ("list", "set"):
                    for l in lists(n):
                        if kind == "set" and len(set(l)) != len(l):
                            continue
                        yield {"self": s, "args": [[kind, l]]}

    def build(self, desc):
        m = _mod()
        s = m.OrderedSet(desc["self"])
        args = []
        for kind, v in desc["args"]:
            args.append(set(v) if kind == "set" else v)
        fn = getattr(s, self.meth)
        bind = {}
        if self.star:
            bind[self.params[0]] = tuple(args)
        else:
            for nm, a in zip(self.params, args):
                bind[nm] = a
        return CallSpec(fn, bind, args=tuple(args), self_obj=s, universe=POOL + ["d"], consts={"OrderedSet": m.OrderedSet})


def reg(name, *a, **k):
    h = H(*a, **k)
    h.name = name
    REGISTRY[name] = h


reg("orderedset.copy", "copy", [])
reg("orderedset.add", "add", ["elem"], params=("element",))
reg("orderedset.remove", "remove", ["elem"], params=("element",))
reg("orderedset.discard", "discard", ["elem"], params=("element",))
reg("orderedset.pop", "pop", [])
reg("orderedset.clear", "clear", [])
reg("orderedset.insert", "insert", ["index+elem"], params=("pos", "element"))
reg("orderedset.getitem", "__getitem__", ["index"], params=("key",))
reg("orderedset.update", "update", ["list", "set"], star=True, params=("iterables",))
reg("orderedset.ior", "__ior__", ["set"], params=("iterable",))
reg("orderedset.union", "union", ["list", "set"], star=True, params=("other",))
reg("orderedset.intersection", "intersection", ["list", "set"], star=True, params=("other",))
reg("orderedset.difference", "difference", ["list", "set"], star=True, params=("other",))
reg("orderedset.intersection_update", "intersection_update", ["list", "set"], star=True, params=("other",))
reg("orderedset.difference_update", "difference_update", ["list", "set"], star=True, params=("other",))
reg("orderedset.symmetric_difference", "symmetric_difference", ["list", "set"], params=("other",))
reg("orderedset.symmetric_difference_update", "symmetric_difference_update", ["list", "set"], params=("other",))


@harness("orderedset.unique_list", "every list <= 3 (quick) / 4 (thorough) over 4 elements")
class UniqueList:
    def enumerate(self, tier):
        for l in lists(3 if tier == "quick" else 4):
            yield {"seq": l}

    def build(self, desc):
        m = _mod()
        return CallSpec(m.unique_list, {"seq": desc["seq"]}, args=(desc["seq"],))
