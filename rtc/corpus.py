"""Statement corpus (DESIGN §5.0): grammar-directed, deterministic generator of Core and ORM-enabled statements and DDL
over a fixed schema.  Compilation only — no database.

* A statement is a JSON-able *descriptor*; `build(desc)` re-creates the SQLAlchemy construct from it (replay files carry
  descriptors).  Expressions are tagged lists (`["op", "==", ["c", "a", "x"], 5]`), statements are dicts with a `"k"` key.
* Fixed schema (`World`): `a(id, x, s, d, parent_id -> a.id)` (self-referential), `b(id, a_id -> a.id, x, s)`,
  `sch.c(id, b_id -> b.id, x, j)`; the column names `id / x / s` collide on purpose.  Classes `A, B, C` are mapped
  imperatively on these tables (relationships `A.parent / A.children / A.bs / B.a / B.cs / C.b`).
* Enumeration (`corpus(depth)`) is exhaustive over the grammar below up to the depth bound with *base-choice*
  combination: every production is instantiated with its canonical slot fillers, and then each slot in turn ranges over
  all fillers of the level below while the other slots stay canonical.  `seed` only shuffles the order of the result.
    depth 1: statement shapes with atomic expressions
    depth 2: + every clause position x every depth-1 expression (production over atoms, all base-choice combinations),
             every structural production (join / subquery / CTE / lateral / compound / scalar subquery ...) over the
             representative selects
    depth 3: + every clause position x every depth-2 expression (production nested in production), structural
             productions over the depth-2 selects' representatives
* `variants(desc)`: mechanical single-site near-collision variants of a descriptor (a literal, a list length, a label,
  a type argument, an operator, a flag, a column ...), used by C02.
* `compositions(descs)`: statement A as subquery / CTE / EXISTS / scalar subquery / INSERT..FROM SELECT source of B (C22).
* Builder-only descriptor forms (not enumerated by `corpus()`; used by the scopes of C02 / C22): type descriptors with keyword
  arguments, nested types and dialect types (`T`), upsert SET arguments keyed by expression objects / given as 2-tuples or a
  ColumnCollection (`_set_arg`), constraint objects as conflict target (`_table_constraint`), dialect syntax extensions
  (`"ext"` key, `EXT`).
"""
import datetime
import json
import random
import warnings

import sqlalchemy as sa
from sqlalchemy import (
    Column, DateTime, Float, ForeignKey, Integer, JSON, MetaData, Numeric, String, Table, Text, Boolean,
    select, insert, update, delete, func, text, literal, literal_column, bindparam, case, cast, type_coerce, null, true,
    false, and_, or_, not_, exists, tuple_, extract, union, union_all, intersect, except_, any_, all_, values, column,
    tablesample, Index, UniqueConstraint, CheckConstraint, ForeignKeyConstraint, PrimaryKeyConstraint, Sequence,
)
from sqlalchemy import exc as sa_exc
from sqlalchemy.orm import registry, relationship, aliased, selectinload, joinedload, load_only, defer, subqueryload, \
    contains_eager, with_loader_criteria
from sqlalchemy.schema import CreateTable, DropTable, CreateIndex, DropIndex, AddConstraint, DropConstraint, \
    CreateSequence, DropSequence, CreateSchema, DropSchema
from sqlalchemy.dialects import postgresql as _pg, sqlite as _sl, mysql as _my

DOCUMENTED = (sa_exc.CompileError, sa_exc.InvalidRequestError, sa_exc.ArgumentError)

STD_NAMING = {
    "ix": "ix_%(column_0_label)s",
    "uq": "uq_%(table_name)s_%(column_0_name)s",
    "ck": "ck_%(table_name)s_%(constraint_name)s",
    "fk": "fk_%(table_name)s_%(column_0_name)s_%(referred_table_name)s",
    "pk": "pk_%(table_name)s",
}


def dj(desc):
    """canonical JSON of a descriptor"""
    return json.dumps(desc, sort_keys=True, default=repr)


# ------------------------------------------------------------------------------------------------ the fixed schema
class A:
    pass


class B:
    pass


class C:
    pass


class World:
    """the fixed schema, optionally with other schema names (C16) ; ORM classes mapped imperatively"""

    def __init__(self, schemas=(None, None, "sch"), naming=None, orm=True, classes=None):
        self.schemas = tuple(schemas)
        self.metadata = m = MetaData(naming_convention=naming) if naming else MetaData()
        sa_, sb, sc = schemas

        def ref(tname, schema, col):
            return (schema + "." if schema else "") + tname + "." + col

        self.a = Table("a", m, Column("id", Integer, primary_key=True), Column("x", Integer), Column("s", String(20)),
                       Column("d", DateTime), Column("parent_id", Integer, ForeignKey(ref("a", sa_, "id"))), schema=sa_)
        self.b = Table("b", m, Column("id", Integer, primary_key=True), Column("a_id", Integer, ForeignKey(ref("a", sa_, "id"))),
                       Column("x", Numeric(10, 2)), Column("s", String(50)), schema=sb)
        self.c = Table("c", m, Column("id", Integer, primary_key=True), Column("b_id", Integer, ForeignKey(ref("b", sb, "id"))),
                       Column("x", Integer), Column("j", JSON), schema=sc)
        Index("ix_a_x", self.a.c.x)
        Index("ix_b_xs", self.b.c.x, self.b.c.s, unique=True)
        self.tables = {"a": self.a, "b": self.b, "c": self.c}
        self.classes = {}
        if orm:
            if classes is None:
                classes = (type("A", (), {}), type("B", (), {}), type("C", (), {}))
            ca, cb, cc = classes
            reg = registry()
            self.registry = reg
            reg.map_imperatively(ca, self.a, properties={
                "children": relationship(ca, back_populates="parent"),
                "parent": relationship(ca, back_populates="children", remote_side=[self.a.c.id]),
                "bs": relationship(cb, back_populates="a")})
            reg.map_imperatively(cb, self.b, properties={
                "a": relationship(ca, back_populates="bs"), "cs": relationship(cc, back_populates="b")})
            reg.map_imperatively(cc, self.c, properties={"b": relationship(cb, back_populates="cs")})
            reg.configure()
            self.classes = {"A": ca, "B": cb, "C": cc}


_WORLDS = {}


def world(schemas=(None, None, "sch"), naming=None):
    k = (tuple(schemas), dj(naming))
    if k not in _WORLDS:
        default = tuple(schemas) == (None, None, "sch") and naming is None
        _WORLDS[k] = World(schemas, naming, classes=(A, B, C) if default else None)
    return _WORLDS[k]


# ------------------------------------------------------------------------------------------------ builder
TYPES = {"Integer": Integer, "String": String, "Numeric": Numeric, "Float": Float, "Text": Text, "Boolean": Boolean,
         "DateTime": DateTime, "JSON": JSON, "BigInteger": sa.BigInteger, "Date": sa.Date, "LargeBinary": sa.LargeBinary,
         "Unicode": sa.Unicode, "Uuid": sa.Uuid, "Enum": sa.Enum, "Interval": sa.Interval, "ARRAY": None}


def T(d):
    """type descriptor -> TypeEngine: ["Numeric", 10, 2] | ["Float", {"asdecimal": True, "decimal_return_scale": 0}] |
    ["mysql.VARCHAR", 5, {"charset": ""}] | ["postgresql.ARRAY", ["Integer"], {"dimensions": 0}] | ["ARRAY", ["Integer"]]"""
    if d is None:
        return None
    if d[0] == "ARRAY":
        return sa.ARRAY(T(d[1]), **(d[2] if len(d) > 2 else {}))
    args = list(d[1:])
    kw = args.pop() if args and isinstance(args[-1], dict) else {}      # trailing dict = keyword arguments
    return type_class(d[0])(*[T(x) if isinstance(x, list) else x for x in args], **kw)      # a list argument is a nested type descriptor


def type_class(name):
    """'Numeric' (TYPES), any public name of sqlalchemy.types ('DECIMAL'), or '<dialect>.<NAME>' ('mysql.VARCHAR')"""
    if TYPES.get(name) is not None:
        return TYPES[name]
    if "." in name:
        import importlib
        mod, attr = name.rsplit(".", 1)
        return getattr(importlib.import_module("sqlalchemy.dialects." + mod), attr)
    return getattr(sa.types, name)


class Ctx:
    def __init__(self, w):
        self.w = w
        self.named = {}
        self.dml = None

    def table(self, ref):
        """'a' | 'a:alias' | a name registered by a FROM item | 'ent:A' (mapped class)"""
        if ref in self.named:
            return self.named[ref]
        if ref.startswith("ent:"):
            return self.w.classes[ref[4:]]
        if ":" in ref:
            base, al = ref.split(":", 1)
            self.named[ref] = self.w.tables[base].alias(al)
            return self.named[ref]
        return self.w.tables[ref]


BINOPS = {
    "==": lambda l, r: l == r, "!=": lambda l, r: l != r, "<": lambda l, r: l < r, "<=": lambda l, r: l <= r,
    ">": lambda l, r: l > r, ">=": lambda l, r: l >= r, "+": lambda l, r: l + r, "-": lambda l, r: l - r,
    "*": lambda l, r: l * r, "/": lambda l, r: l / r, "//": lambda l, r: l // r, "%": lambda l, r: l % r,
    "and": lambda l, r: and_(l, r), "or": lambda l, r: or_(l, r), "like": lambda l, r: l.like(r),
    "not_like": lambda l, r: l.not_like(r), "ilike": lambda l, r: l.ilike(r), "concat": lambda l, r: l.concat(r),
    "is": lambda l, r: l.is_(r), "is_not": lambda l, r: l.is_not(r), "is_distinct_from": lambda l, r: l.is_distinct_from(r),
    "isnot_distinct_from": lambda l, r: l.is_not_distinct_from(r), "regexp_match": lambda l, r: l.regexp_match(r),
    "regexp_replace": lambda l, r: l.regexp_replace(r, "z"), "bitwise_xor": lambda l, r: l.bitwise_xor(r),
    "bitwise_and": lambda l, r: l.bitwise_and(r), "bitwise_or": lambda l, r: l.bitwise_or(r),
    "lshift": lambda l, r: l.bitwise_lshift(r), "rshift": lambda l, r: l.bitwise_rshift(r),
    "startswith": lambda l, r: l.startswith(r), "startswith_ae": lambda l, r: l.startswith(r, autoescape=True),
    "endswith": lambda l, r: l.endswith(r), "contains": lambda l, r: l.contains(r),
    "contains_esc": lambda l, r: l.contains(r, escape="/"), "icontains": lambda l, r: l.icontains(r),
    "match": lambda l, r: l.match(r), "op&": lambda l, r: l.op("&")(r), "op%%": lambda l, r: l.op("%%")(r),
    "bool_op": lambda l, r: l.bool_op("<=>")(r), "pow": lambda l, r: func.pow(l, r), "radd": lambda l, r: r + l,
}
UNOPS = {
    "not": lambda e: not_(e), "neg": lambda e: -e, "desc": lambda e: e.desc(), "asc": lambda e: e.asc(),
    "nulls_last": lambda e: e.desc().nulls_last(), "nulls_first": lambda e: e.asc().nulls_first(),
    "is_null": lambda e: e.is_(None), "is_not_null": lambda e: e.is_not(None), "distinct": lambda e: e.distinct(),
    "bitwise_not": lambda e: e.bitwise_not(), "self_group": lambda e: e.self_group(), "is_true": lambda e: e.is_(True),
}


def E(ctx, d):
    """expression descriptor -> ColumnElement (raw Python values pass through for SQLAlchemy's own coercion)"""
    if not isinstance(d, list):
        return d
    t = d[0]
    if t == "c":
        return getattr(ctx.table(d[1]).c, d[2])
    if t == "attr":                                   # ORM attribute of a class or of a named aliased()
        ent = ctx.named[d[1]] if d[1] in ctx.named else ctx.w.classes[d[1]]
        return getattr(ent, d[2])
    if t == "ent":
        return ctx.named[d[1]] if d[1] in ctx.named else ctx.w.classes[d[1]]
    if t == "tbl":
        return ctx.table(d[1])
    if t == "lit":
        v = E(ctx, d[1]) if isinstance(d[1], list) and d[1] and d[1][0] == "dt" else d[1]
        return literal(v, T(d[2]) if len(d) > 2 else None)
    if t == "litx":
        return literal(d[1], literal_execute=True)
    if t == "litc":
        return literal_column(d[1], T(d[2]) if len(d) > 2 else None)
    if t == "col":
        return column(d[1], T(d[2]) if len(d) > 2 else None)
    if t == "name":
        return d[1]
    if t == "bp":
        o = dict(d[3]) if len(d) > 3 else {}
        if "type" in o:
            o["type_"] = T(o.pop("type"))
        if len(d) > 2 and d[2] != "__required__":
            return bindparam(d[1], d[2], **o)
        return bindparam(d[1], **o)
    if t == "op":
        return BINOPS[d[1]](E(ctx, d[2]), E(ctx, d[3]))
    if t == "un":
        return UNOPS[d[1]](E(ctx, d[2]))
    if t == "and" or t == "or":
        return (and_ if t == "and" else or_)(*[E(ctx, x) for x in d[1]])
    if t == "in":
        return E(ctx, d[1]).in_([E(ctx, x) for x in d[2]])
    if t == "not_in":
        return E(ctx, d[1]).not_in([E(ctx, x) for x in d[2]])
    if t == "in_bp":
        return E(ctx, d[1]).in_(bindparam(d[2], list(d[3]), expanding=True))
    if t == "in_sub":
        return E(ctx, d[1]).in_(S(ctx, d[2]))
    if t == "tuple_in":
        return tuple_(*[E(ctx, x) for x in d[1]]).in_([tuple(r) for r in d[2]])
    if t == "tuple":
        return tuple_(*[E(ctx, x) for x in d[1]])
    if t == "between":
        return E(ctx, d[1]).between(E(ctx, d[2]), E(ctx, d[3]), **(d[4] if len(d) > 4 else {}))
    if t == "fn":
        return getattr(func, d[1])(*[E(ctx, x) for x in d[2]])
    if t == "case":
        whens = [(E(ctx, c_), E(ctx, v)) for c_, v in d[1]]
        return case(*whens, else_=E(ctx, d[2])) if len(d) > 2 and d[2] is not None else case(*whens)
    if t == "case_value":
        return case({k: v for k, v in d[2]}, value=E(ctx, d[1]), else_=d[3])
    if t == "cast":
        return cast(E(ctx, d[1]), T(d[2]))
    if t == "try_cast":
        return sa.try_cast(E(ctx, d[1]), T(d[2]))
    if t == "tc":
        return type_coerce(E(ctx, d[1]), T(d[2]))
    if t == "label":
        return E(ctx, d[1]).label(d[2])
    if t == "over":
        o = d[2]
        kw = {}
        if o.get("partition_by"):
            kw["partition_by"] = [E(ctx, x) for x in o["partition_by"]]
        if o.get("order_by"):
            kw["order_by"] = [E(ctx, x) for x in o["order_by"]]
        for fr in ("rows", "range_", "groups"):
            if fr in o:
                kw[fr] = tuple(o[fr])
        return E(ctx, d[1]).over(**kw)
    if t == "filter":
        return E(ctx, d[1]).filter(E(ctx, d[2]))
    if t == "within_group":
        return E(ctx, d[1]).within_group(*[E(ctx, x) for x in d[2]])
    if t == "ssq":
        return S(ctx, d[1]).scalar_subquery()
    if t == "ssq_corr":
        return S(ctx, d[1]).correlate(ctx.table(d[2])).scalar_subquery()
    if t == "exists":
        return S(ctx, d[1]).exists()
    if t == "exists_where":
        return exists().where(E(ctx, d[1]))
    if t == "any":
        return any_(S(ctx, d[1]).scalar_subquery())
    if t == "all":
        return all_(S(ctx, d[1]).scalar_subquery())
    if t == "text":
        return text(d[1])
    if t == "textb":
        return text(d[1]).bindparams(**d[2])
    if t == "extract":
        return extract(d[1], E(ctx, d[2]))
    if t == "collate":
        return E(ctx, d[1]).collate(d[2])
    if t == "null":
        return null()
    if t == "true":
        return true()
    if t == "false":
        return false()
    if t == "idx":
        return E(ctx, d[1])[d[2]]
    if t == "json_path":
        return E(ctx, d[1])[tuple(d[2])]
    if t == "as_":
        return getattr(E(ctx, d[1]), "as_" + d[2])()
    if t == "star":
        return text("*") if len(d) == 1 else literal_column(d[1] + ".*")
    if t == "excluded":
        return getattr(ctx.dml.excluded, d[1])
    if t == "inserted":
        return getattr(ctx.dml.inserted, d[1])
    if t == "rel_any":
        ent = ctx.named[d[1]] if d[1] in ctx.named else ctx.w.classes[d[1]]
        r = getattr(ent, d[2])
        return r.any(E(ctx, d[3])) if len(d) > 3 and d[3] is not None else r.any()
    if t == "rel_has":
        ent = ctx.named[d[1]] if d[1] in ctx.named else ctx.w.classes[d[1]]
        r = getattr(ent, d[2])
        return r.has(E(ctx, d[3])) if len(d) > 3 and d[3] is not None else r.has()
    if t == "rel_is_none":
        return getattr(ctx.w.classes[d[1]], d[2]) == None  # noqa: E711
    if t == "dt":
        return datetime.datetime(*d[1])
    if t == "agg_order_by":                            # FunctionElement.aggregate_order_by (2.1)
        return E(ctx, d[1]).aggregate_order_by(*[E(ctx, x) for x in d[2]])
    raise KeyError("unknown expression tag %r" % (t,))


def F(ctx, d):
    """FROM item descriptor -> FromClause / entity ; named items are registered in ctx.named"""
    if isinstance(d, str):
        return ctx.table(d)
    t = d[0]
    if t == "subq":
        r = S(ctx, d[1]).subquery(d[2])
    elif t == "cte":
        o = d[3] if len(d) > 3 else {}
        r = S(ctx, d[1]).cte(d[2], recursive=o.get("recursive", False), nesting=o.get("nesting", False))
        if o.get("prefix"):
            r = r.prefix_with(o["prefix"])
    elif t == "rcte":                                   # canned recursive CTE over the self-referential table
        a = ctx.w.tables["a"]
        base = select(a.c.id, a.c.parent_id, literal(d[2]).label("lvl")).where(a.c.parent_id.is_(None)).cte(d[1], recursive=True)
        r = (base.union_all if d[3] else base.union)(select(a.c.id, a.c.parent_id, base.c.lvl + 1).where(a.c.parent_id == base.c.id))
    elif t == "lateral":
        r = S(ctx, d[1]).lateral(d[2])
    elif t == "values":
        r = values(*[column(n, T(ty)) for n, ty in d[1]], name=d[2], literal_binds=bool(d[4]) if len(d) > 4 else False).data([tuple(x) for x in d[3]])
        ctx.named[d[2]] = r
        return r
    elif t == "tablesample":
        r = tablesample(ctx.table(d[1]), E(ctx, d[3]), name=d[2], seed=E(ctx, d[4]) if len(d) > 4 else None)
    elif t == "textcols":
        r = text(d[1]).columns(*[column(n, T(ty)) for n, ty in d[2]]).subquery(d[3])
    elif t == "join":
        o = d[4] if len(d) > 4 else {}
        l_, r_ = F(ctx, d[1]), F(ctx, d[2])
        return sa.join(l_, r_, E(ctx, d[3]) if d[3] is not None else None, isouter=o.get("isouter", False), full=o.get("full", False))
    elif t == "aliased":                                # ORM aliased(A, name=)
        r = aliased(ctx.w.classes[d[1]], name=d[2])
    elif t == "aliased_subq":                           # aliased(A, subquery)
        r = aliased(ctx.w.classes[d[1]], S(ctx, d[2]).subquery(d[3]), name=d[3])
    elif t == "ent":
        return ctx.w.classes[d[1]]
    elif t == "rel":                                    # relationship attribute as a join target
        ent = ctx.named[d[1]] if d[1] in ctx.named else ctx.w.classes[d[1]]
        return getattr(ent, d[2])
    elif t == "rel_of":
        ent = ctx.named[d[1]] if d[1] in ctx.named else ctx.w.classes[d[1]]
        return getattr(ent, d[2]).of_type(F(ctx, d[3]))
    elif t == "fn_table":
        r = getattr(func, d[1])(*[E(ctx, x) for x in d[2]]).table_valued(*d[3], name=d[4])
        ctx.named[d[4]] = r
        return r
    else:
        raise KeyError("unknown FROM tag %r" % (t,))
    ctx.named[d[2] if t not in ("rcte", "textcols", "aliased_subq") else (d[1] if t == "rcte" else d[3])] = r
    return r


LABEL_STYLES = {"none": sa.LABEL_STYLE_NONE, "tcol": sa.LABEL_STYLE_TABLENAME_PLUS_COL, "disamb": sa.LABEL_STYLE_DISAMBIGUATE_ONLY}


def OPT(ctx, d):
    """loader option descriptor"""
    t = d[0]
    cl = ctx.w.classes
    if t in ("selectinload", "joinedload", "subqueryload", "contains_eager"):
        fn = {"selectinload": selectinload, "joinedload": joinedload, "subqueryload": subqueryload, "contains_eager": contains_eager}[t]
        o = fn(getattr(cl[d[1]], d[2]))
        if len(d) > 3:
            o = getattr(o, d[3][0])(getattr(cl[d[3][1]], d[3][2]))
        return o
    if t == "load_only":
        return load_only(*[getattr(cl[d[1]], n) for n in d[2]])
    if t == "defer":
        return defer(getattr(cl[d[1]], d[2]))
    if t == "loader_criteria":
        c_ = cl[d[1]]
        return with_loader_criteria(c_, getattr(c_, d[2]) > d[3])
    raise KeyError(t)


def _set_arg(ctx, v):
    """SET argument of an upsert: {name: value} | ["dict", [[key, value], ...]] (key: a name or an expression descriptor —
    Table column, column("x"), aliased column, ORM attribute ...) | ["pairs", [[key, value], ...]] (list of 2-tuples, ordered)
    | ["coll", "excluded" | "inserted" | "table"] (a ColumnCollection)"""
    if isinstance(v, dict):
        return {c_: E(ctx, x) for c_, x in v.items()}
    if v[0] == "dict":
        return {E(ctx, k_): E(ctx, x) for k_, x in v[1]}
    if v[0] == "pairs":
        return [(E(ctx, k_), E(ctx, x)) for k_, x in v[1]]
    if v[0] == "coll":
        return ctx.dml.table.c if v[1] == "table" else getattr(ctx.dml, v[1])
    raise KeyError("unknown SET form %r" % (v[0],))


def _table_constraint(tbl, spec):
    """constraint *object* of the target table: ["pk"] | ["index", i] (indexes sorted by name) | ["unique"|"check"|"fk", i]"""
    if not isinstance(tbl, sa.Table):
        tbl = sa.inspect(tbl).local_table
    if spec[0] == "index":
        return sorted(tbl.indexes, key=lambda i: str(i.name))[spec[1]]
    return _find_constraint(tbl, spec)


def EXT(ctx, d):
    """dialect syntax extension (HasSyntaxExtensions.ext): ["mysql_limit", expr] | ["pg_distinct_on", [exprs]]"""
    if d[0] == "mysql_limit":
        return _my.limit(E(ctx, d[1]))
    if d[0] == "pg_distinct_on":
        return _pg.distinct_on(*[E(ctx, x) for x in d[1]])
    raise KeyError("unknown syntax extension %r" % (d[0],))


def _common(ctx, s, d):
    for x in d.get("ext", ()):
        s = s.ext(EXT(ctx, x))
    for p in d.get("prefixes", ()):
        s = s.prefix_with(*( [p] if isinstance(p, str) else [p[0]]), **({} if isinstance(p, str) else {"dialect": p[1]}))
    for p in d.get("suffixes", ()):
        s = s.suffix_with(p)
    if d.get("exec_opts"):
        s = s.execution_options(**d["exec_opts"])
    return s


def S(ctx, d):
    """statement descriptor -> executable construct"""
    k = d["k"]
    if k == "select":
        froms = [F(ctx, f) for f in d.get("from", ())]
        jt = [(F(ctx, j[0]), j) for j in d.get("joins", ())]
        cols = [E(ctx, c_) for c_ in d["cols"]]
        s = select(*cols)
        if froms:
            s = s.select_from(*froms)
        for tgt, j in jt:
            o = j[2] if len(j) > 2 else {}
            on = E(ctx, j[1]) if len(j) > 1 and j[1] is not None else None
            if "from" in o:
                s = s.join_from(F(ctx, o["from"]), tgt, on, isouter=o.get("isouter", False), full=o.get("full", False))
            else:
                s = s.join(tgt, on, isouter=o.get("isouter", False), full=o.get("full", False))
        for w_ in d.get("where", ()):
            s = s.where(E(ctx, w_))
        if d.get("filter_by"):
            s = s.filter_by(**d["filter_by"])
        if d.get("group_by"):
            s = s.group_by(*[E(ctx, x) for x in d["group_by"]])
        for h in d.get("having", ()):
            s = s.having(E(ctx, h))
        if d.get("order_by"):
            s = s.order_by(*[E(ctx, x) for x in d["order_by"]])
        if d.get("limit") is not None:
            s = s.limit(E(ctx, d["limit"]))
        if d.get("offset") is not None:
            s = s.offset(E(ctx, d["offset"]))
        if d.get("fetch") is not None:
            s = s.fetch(E(ctx, d["fetch"][0]), **(d["fetch"][1] if len(d["fetch"]) > 1 else {}))
        if d.get("distinct"):
            s = s.distinct() if d["distinct"] is True else s.distinct(*[E(ctx, x) for x in d["distinct"]])
        if d.get("label_style"):
            s = s.set_label_style(LABEL_STYLES[d["label_style"]])
        for h in d.get("hints", ()):
            s = s.with_hint(ctx.table(h[0]), h[1], h[2] if len(h) > 2 else "*")
        for h in d.get("stmt_hints", ()):
            s = s.with_statement_hint(h)
        if d.get("for_update") is not None:
            fu = dict(d["for_update"])
            if "of" in fu:
                fu["of"] = [E(ctx, x) for x in fu["of"]]
            s = s.with_for_update(**fu)
        if d.get("correlate"):
            s = s.correlate(*[ctx.table(x) for x in d["correlate"]])
        if d.get("correlate_except"):
            s = s.correlate_except(*[ctx.table(x) for x in d["correlate_except"]])
        if d.get("options"):
            s = s.options(*[OPT(ctx, o) for o in d["options"]])
        if d.get("reduce_columns"):
            s = s.reduce_columns()
        if d.get("with_only_columns"):
            s = s.with_only_columns(*[E(ctx, x) for x in d["with_only_columns"]])
        if d.get("add_cte"):
            s = s.add_cte(*[F(ctx, x) for x in d["add_cte"]])
        return _common(ctx, s, d)
    if k in ("union", "union_all", "intersect", "except", "intersect_all", "except_all"):
        fn = {"union": union, "union_all": union_all, "intersect": intersect, "except": except_, "intersect_all": sa.intersect_all,
              "except_all": sa.except_all}[k]
        s = fn(*[S(ctx, x) for x in d["selects"]])
        if d.get("order_by"):
            s = s.order_by(*[E(ctx, x) for x in d["order_by"]])
        if d.get("limit") is not None:
            s = s.limit(E(ctx, d["limit"]))
        if d.get("offset") is not None:
            s = s.offset(E(ctx, d["offset"]))
        if d.get("group_by"):
            s = s.group_by(*[E(ctx, x) for x in d["group_by"]])
        return _common(ctx, s, d)
    if k == "insert":
        fam = d.get("fam")
        tbl = ctx.table(d["t"])
        s = {None: insert, "pg": _pg.insert, "sqlite": _sl.insert, "mysql": _my.insert}[fam](tbl)
        ctx.dml = s
        if d.get("values") is not None:
            s = s.values(**{c_: E(ctx, v) for c_, v in d["values"].items()})
        if d.get("mvalues") is not None:
            s = s.values([{c_: E(ctx, v) for c_, v in row.items()} for row in d["mvalues"]])
        if d.get("from_select") is not None:
            s = s.from_select(list(d["from_select"][0]), S(ctx, d["from_select"][1]))
        ctx.dml = s
        oc = d.get("on_conflict")
        if oc is not None:
            kw = {}
            if oc.get("index_elements"):
                kw["index_elements"] = [E(ctx, x) for x in oc["index_elements"]]
            if oc.get("constraint"):
                kw["constraint"] = oc["constraint"] if isinstance(oc["constraint"], str) else _table_constraint(tbl, oc["constraint"])
            if oc.get("index_where") is not None:
                kw["index_where"] = E(ctx, oc["index_where"])
            if oc["do"] == "nothing":
                s = s.on_conflict_do_nothing(**kw)
            else:
                if oc.get("where") is not None:
                    kw["where"] = E(ctx, oc["where"])
                s = s.on_conflict_do_update(set_=_set_arg(ctx, oc["set"]), **kw)
        od = d.get("on_dup")
        if od is not None:
            if isinstance(od, dict):
                s = s.on_duplicate_key_update(**{c_: E(ctx, v) for c_, v in od.items()})
            else:
                s = s.on_duplicate_key_update(_set_arg(ctx, od))
        if d.get("returning"):
            s = s.returning(*[E(ctx, x) for x in d["returning"]], **(d.get("returning_kw") or {}))
        if d.get("return_defaults"):
            s = s.return_defaults()
        if d.get("inline"):
            s = s.inline()
        if d.get("add_cte"):
            s = s.add_cte(*[F(ctx, x) for x in d["add_cte"]])
        return _common(ctx, s, d)
    if k in ("update", "delete"):
        tbl = ctx.table(d["t"])
        s = update(tbl) if k == "update" else delete(tbl)
        for f in d.get("from", ()):
            F(ctx, f)
        for w_ in d.get("where", ()):
            s = s.where(E(ctx, w_))
        if d.get("values") is not None:
            s = s.values(**{c_: E(ctx, v) for c_, v in d["values"].items()})
        if d.get("cvalues") is not None:               # column-object keys (multi-table UPDATE)
            s = s.values({E(ctx, c_): E(ctx, v) for c_, v in d["cvalues"]})
        if d.get("ordered") is not None:
            s = s.ordered_values(*[(E(ctx, ["c", d["t"], c_]), E(ctx, v)) for c_, v in d["ordered"]])
        if d.get("returning"):
            s = s.returning(*[E(ctx, x) for x in d["returning"]])
        if d.get("return_defaults"):
            s = s.return_defaults()
        for h in d.get("hints", ()):
            s = s.with_hint(h[0], dialect_name=h[1] if len(h) > 1 else "*")
        if d.get("with_dialect_options"):
            s = s.with_dialect_options(**d["with_dialect_options"])
        if d.get("add_cte"):
            s = s.add_cte(*[F(ctx, x) for x in d["add_cte"]])
        return _common(ctx, s, d)
    if k == "text":
        s = text(d["sql"])
        if d.get("binds"):
            s = s.bindparams(*[bindparam(n, v) for n, v in d["binds"].items()])
        if d.get("cols"):
            s = s.columns(*[column(n, T(ty)) for n, ty in d["cols"]])
        return _common(ctx, s, d) if not d.get("cols") else s
    if k == "ddl":
        return DDL(ctx, d)
    raise KeyError("unknown statement kind %r" % (k,))


# ------------------------------------------------------------------------------------------------ DDL
def build_meta(md):
    """{"naming": dict|"std"|None, "tables": [{"name", "schema", "cols": [[name, type, opts]], "cons": [...]}]} -> MetaData"""
    nc = md.get("naming")
    nc = STD_NAMING if nc == "std" else nc
    m = MetaData(naming_convention=nc) if nc else MetaData()
    for td in md["tables"]:
        items = []
        for cd in td["cols"]:
            name, ty = cd[0], cd[1]
            o = dict(cd[2]) if len(cd) > 2 else {}
            args = []
            if "fk" in o:
                fk = o.pop("fk")
                args.append(ForeignKey(fk) if isinstance(fk, str) else ForeignKey(fk[0], **fk[1]))
            if "seq" in o:
                args.append(Sequence(o.pop("seq")))
            if "identity" in o:
                args.append(sa.Identity(**o.pop("identity")))
            if "computed" in o:
                args.append(sa.Computed(o.pop("computed")))
            if "server_default" in o and isinstance(o["server_default"], list):
                o["server_default"] = text(o["server_default"][1])
            items.append(Column(name, T(ty), *args, **o))
        for cn in td.get("cons", ()):
            kind = cn[0]
            if kind == "unique":
                items.append(UniqueConstraint(*cn[1], name=cn[2]))
            elif kind == "check":
                items.append(CheckConstraint(cn[1], name=cn[2]))
            elif kind == "fk":
                items.append(ForeignKeyConstraint(cn[1], cn[2], name=cn[3], **(cn[4] if len(cn) > 4 else {})))
            elif kind == "pk":
                items.append(PrimaryKeyConstraint(*cn[1], name=cn[2]))
            elif kind == "index":
                items.append(Index(cn[2], *cn[1], **(cn[3] if len(cn) > 3 else {})))
            else:
                raise KeyError(kind)
        Table(td["name"], m, *items, schema=td.get("schema"), **(td.get("kw") or {}))
    return m


def _find_constraint(tbl, spec):
    """spec: ["pk"] | ["kind", index] | ["name", name]"""
    if spec[0] == "pk":
        return tbl.primary_key
    kinds = {"unique": UniqueConstraint, "check": CheckConstraint, "fk": ForeignKeyConstraint}
    if spec[0] in kinds:
        cs = sorted([c_ for c_ in tbl.constraints if type(c_) is kinds[spec[0]]], key=lambda c_: str(sorted(col.name for col in c_.columns)) + str(c_.name))
        return cs[spec[1]]
    raise KeyError(spec)


def DDL(ctx, d):
    op = d["op"]
    if "meta" in d:
        m = build_meta(d["meta"])
        tables = {t.name: t for t in m.tables.values()}
    elif op in ("add_constraint", "drop_constraint"):
        # AddConstraint / DropConstraint re-wire the constraint's _create_rule (it is then no longer rendered inline by
        # CREATE TABLE): never do that to the shared world; use a private copy of its tables
        tables = World(ctx.w.schemas, naming=ctx.w.metadata.naming_convention if ctx.w.metadata.naming_convention != MetaData().naming_convention else None, orm=False).tables
    else:
        m = ctx.w.metadata
        tables = ctx.w.tables
    o = d.get("o") or {}
    if op == "create_table":
        return CreateTable(tables[d["target"]], **o)
    if op == "drop_table":
        return DropTable(tables[d["target"]], **o)
    if op in ("create_index", "drop_index"):
        tbl = tables[d["target"][0]]
        ixs = sorted(tbl.indexes, key=lambda i: str(i.name) + str([c_.name for c_ in i.columns]))
        ix = ixs[d["target"][1]]
        return (CreateIndex if op == "create_index" else DropIndex)(ix, **o)
    if op in ("add_constraint", "drop_constraint"):
        con = _find_constraint(tables[d["target"][0]], d["target"][1])
        return (AddConstraint if op == "add_constraint" else DropConstraint)(con, **o)
    if op == "create_sequence":
        return CreateSequence(Sequence(d["target"], **(d.get("seq") or {})), **o)
    if op == "drop_sequence":
        return DropSequence(Sequence(d["target"], **(d.get("seq") or {})), **o)
    if op == "create_schema":
        return CreateSchema(d["target"], **o)
    if op == "drop_schema":
        return DropSchema(d["target"], **o)
    raise KeyError(op)


def build(desc, w=None):
    """descriptor -> construct (statement or DDL element) over world `w` (default: the fixed schema)"""
    with warnings.catch_warnings():
        warnings.simplefilter("ignore")
        return S(Ctx(w or world()), desc)


def try_build(desc, w=None):
    """(construct, None) or (None, exception) — constructors rejecting a descriptor make it not well-formed"""
    try:
        return build(desc, w), None
    except Exception as e:  # noqa: BLE001
        return None, e


# ------------------------------------------------------------------------------------------------ grammar
def base_choice(slots):
    """slots: list of filler lists; yields the canonical tuple, then each slot ranging over its other fillers"""
    base = tuple(s[0] for s in slots)
    yield base
    for i, s in enumerate(slots):
        for f in s[1:]:
            yield base[:i] + (f,) + base[i + 1:]


AX, AS_, AID, AD = ["c", "a", "x"], ["c", "a", "s"], ["c", "a", "id"], ["c", "a", "d"]
BX, BS, BID, BAID = ["c", "b", "x"], ["c", "b", "s"], ["c", "b", "id"], ["c", "b", "a_id"]
CX, CJ, CBID = ["c", "c", "x"], ["c", "c", "j"], ["c", "c", "b_id"]

ATOMS = {
    "num": [AX, ["lit", 5], BX, CX, ["bp", "p", 7], ["attr", "A", "x"], ["litc", "1", ["Integer"]], ["null"], ["bp", "q", 7, {"literal_execute": True}],
            ["litx", 3], ["bp", "a.b", 8]],
    "str": [AS_, ["lit", "q"], BS, ["bp", "sp", "v"], ["attr", "A", "s"], ["lit", "it's %"]],
    "bool": [["op", ">", AX, 1], ["true"], ["op", "==", AS_, "q"], ["op", "==", ["attr", "A", "x"], 2]],
}
SEL0 = {"k": "select", "cols": [BAID], "where": [["op", ">", BX, 1]]}          # canonical nested select (one column)
SELC = {"k": "select", "cols": [["fn", "max", [BX]]], "where": [["op", "==", BAID, AID]]}   # correlated on a


def _prods():
    """productions: kind -> list of (name, slot kinds, constructor(args) -> descriptor).  A slot kind is
    num/str/bool/sel (expression or select of the level below) or a list of literal alternatives (each-choice)."""
    P = {"num": [], "str": [], "bool": []}
    arith = ["+", "-", "*", "/", "//", "%", "bitwise_xor", "bitwise_and", "bitwise_or", "lshift", "rshift", "op&", "op%%", "pow", "radd"]
    P["num"] += [
        ("arith", [arith, "num", "num"], lambda o, l, r: ["op", o, l, r]),
        ("arith_raw", [["+", "*", "%"], "num", [3, 0, -1, 2.5]], lambda o, l, v: ["op", o, l, v]),
        ("unary", [["neg", "bitwise_not", "self_group", "distinct"], "num"], lambda o, e: ["un", o, e]),
        ("fn1", [["abs", "max", "min", "sum", "count", "avg", "random_fn_xyz"], "num"], lambda f, e: ["fn", f, [e]]),
        ("fn2", [["coalesce", "nullif", "mod", "greatest"], "num", "num"], lambda f, l, r: ["fn", f, [l, r]]),
        ("fn0", [["count", "now", "current_timestamp", "random", "current_user", "localtime", "sysdate"]], lambda f: ["fn", f, []]),
        ("case", ["bool", "num", "num"], lambda c_, v, e: ["case", [[c_, v]], e]),
        ("case2", ["bool", "bool", [None, 0]], lambda c1, c2, e: ["case", [[c1, 1], [c2, 2]], e]),
        ("case_value", ["num", [[[1, "one"], [2, "two"]], [[1, "one"]]], [None, "other"]], lambda e, m, el: ["case_value", e, m, el]),
        ("cast", ["num", [["Integer"], ["String", 20], ["String"], ["Numeric", 10, 2], ["Numeric"], ["Float"], ["Text"], ["Boolean"], ["DateTime"],
                          ["BigInteger"], ["JSON"], ["Unicode", 5], ["LargeBinary"], ["Date"], ["Uuid"], ["Interval"], ["ARRAY", ["Integer"]]]],
         lambda e, t: ["cast", e, t]),
        ("try_cast", ["num", [["Integer"], ["String", 20]]], lambda e, t: ["try_cast", e, t]),
        ("type_coerce", ["num", [["String"], ["Integer"], ["Numeric", 10, 2], ["JSON"], ["Boolean"]]], lambda e, t: ["tc", e, t]),
        ("label", ["num", ["lbl", "x", "id", "a_x", "select", "La Bel", "l" * 70]], lambda e, n: ["label", e, n]),
        ("over", [["row_number", "rank", "count"], "num", "num", [None, [None, 1], [-1, 1], [0, None], [None, None], [1, 3]]],
         lambda f, p, o, fr: ["over", ["fn", f, []], dict({"partition_by": [p], "order_by": [o]}, **({"rows": fr} if fr else {}))]),
        ("over_range", ["num", [[None, 0], [-2, 2]], ["range_", "groups"]], lambda o, fr, kw: ["over", ["fn", "sum", [AX]], {"order_by": [o], kw: fr}]),
        ("over_empty", ["num"], lambda e: ["over", ["fn", "sum", [e]], {}]),
        ("filter", ["num", "bool"], lambda e, c_: ["filter", ["fn", "count", [e]], c_]),
        ("filter_over", ["bool", "num"], lambda c_, p: ["over", ["filter", ["fn", "count", []], c_], {"partition_by": [p]}]),
        ("within_group", [["percentile_cont", "percentile_disc", "mode", "rank"], "num"], lambda f, o: ["within_group", ["fn", f, [0.5]], [o]]),
        ("ssq", ["sel"], lambda s: ["ssq", s]),
        ("ssq_arith", ["sel", "num"], lambda s, e: ["op", "+", ["ssq", s], e]),
        ("extract", [["year", "month", "dow", "epoch", "microseconds"], [AD, ["fn", "now", []]]], lambda f, e: ["extract", f, e]),
        ("json", [[["idx", CJ, "k"], ["idx", CJ, 1], ["json_path", CJ, ["k", 1]], ["as_", ["idx", CJ, "k"], "integer"], ["as_", ["idx", CJ, "k"], "string"],
                   ["as_", ["json_path", CJ, ["k", "z"]], "float"]]], lambda e: e),
        ("bind", [[["bp", "p", 7], ["bp", "p", 7, {"unique": True}], ["bp", "a b", 7], ["bp", "a[1]", 7], ["bp", "a%b", 7], ["bp", "x(y)", 7], ["bp", "q:r", 7],
                   ["bp", "p", "__required__"], ["bp", "p", None], ["bp", "p", 7, {"type": ["String"]}], ["bp", "p", 7, {"type": ["Numeric", 10, 2]}],
                   ["bp", "p", 7, {"literal_execute": True}], ["bp", "%", 7], ["bp", "1", 7], ["bp", "P", 7]]], lambda e: e),
        ("lit", [[["lit", 5], ["lit", 6], ["lit", 5, ["String"]], ["lit", 5.5], ["lit", True], ["lit", None], ["lit", 5, ["Numeric", 10, 2]], ["lit", 2 ** 40],
                  ["litx", 5], ["litc", "a.x + 1"], ["litc", "'%'", ["String"]], ["col", "adhoc"], ["col", "adhoc", ["Integer"]], ["text", "1"], ["text", "a.x %% 2"],
                  ["textb", "a.x + :tv", {"tv": 4}], ["lit", ["dt", [2020, 1, 2, 3, 4, 5]], ["DateTime"]], ["star"]]], lambda e: e),
        ("colref", [[AX, AID, BX, CX, ["c", "a", "parent_id"], ["c", "a:a_1", "x"], ["attr", "A", "x"], ["attr", "B", "x"], ["attr", "C", "x"], AD, CJ]], lambda e: e),
    ]
    P["str"] += [
        ("concat", ["str", "str"], lambda l, r: ["op", "concat", l, r]),
        ("plus", ["str", [" z", "", "%"]], lambda l, v: ["op", "+", l, v]),
        ("sfn1", [["lower", "upper", "length", "char_length", "max"], "str"], lambda f, e: ["fn", f, [e]]),
        ("sfn2", [["coalesce", "concat", "substring"], "str", [["lit", "z"], 2]], lambda f, l, r: ["fn", f, [l, r]]),
        ("collate", ["str", ["C", "NOCASE", "utf8_bin", "fr FR"]], lambda e, c_: ["collate", e, c_]),
        ("scast", ["str", [["Integer"], ["String", 5], ["Text"], ["Unicode"], ["LargeBinary"]]], lambda e, t: ["cast", e, t]),
        ("slabel", ["str", ["sl", "s"]], lambda e, n: ["label", e, n]),
        ("scase", ["bool", "str"], lambda c_, v: ["case", [[c_, v]], ["lit", "other"]]),
        ("regexp_replace", ["str", ["^a", "a%b"]], lambda e, p: ["op", "regexp_replace", e, p]),
        ("sagg", ["str", "str"], lambda e, o: ["fn", "string_agg", [e, ["lit", ","]]]),
        ("agg_order_by", [["array_agg", "group_concat", "string_agg"], "str", "str"], lambda f, e, o: ["agg_order_by", ["fn", f, [e]], [["un", "desc", o]]]),
    ]
    cmp_ = ["==", "!=", "<", "<=", ">", ">=", "is_distinct_from", "isnot_distinct_from", "bool_op"]
    strops = ["like", "not_like", "ilike", "startswith", "startswith_ae", "endswith", "contains", "contains_esc", "icontains", "regexp_match", "match", "=="]
    P["bool"] += [
        ("cmp", [cmp_, "num", "num"], lambda o, l, r: ["op", o, l, r]),
        ("cmp_raw", [["==", "!=", ">", "is", "is_not"], "num", [1, None, True, 0, 2.5]], lambda o, l, v: ["op", o, l, v]),
        ("null_test", [["is_null", "is_not_null", "is_true"], "num"], lambda o, e: ["un", o, e]),
        ("in", [["in", "not_in"], "num", [[1, 2, 3], [], [1], [1, 2], [None, 1], [["lit", 1], AID]]], lambda t, e, vs: [t, e, vs]),
        ("in_bp", ["num", [[4, 5, 6], [4], []], ["ids", "a.b"]], lambda e, vs, n: ["in_bp", e, n, vs]),
        ("in_sub", ["num", "sel"], lambda e, s: ["in_sub", e, s]),
        ("tuple_in", ["num", "num", [[[1, 2], [3, 4]], [[1, 2]], []]], lambda l, r, rows: ["tuple_in", [l, r], rows]),
        ("between", ["num", "num", "num", [{}, {"symmetric": True}]], lambda e, lo, hi, o: ["between", e, lo, hi, o]),
        ("between_raw", ["num", [1, 0], [9, 3]], lambda e, lo, hi: ["between", e, lo, hi]),
        ("strop", [strops, "str", "str"], lambda o, l, r: ["op", o, l, r]),
        ("strop_raw", [strops, "str", ["a%", "", "_/%", "it's"]], lambda o, l, v: ["op", o, l, v]),
        ("bool2", [["and", "or"], "bool", "bool"], lambda o, l, r: ["op", o, l, r]),
        ("booln", [["and", "or"], "bool", [0, 1, 3]], lambda o, e, n: [o, [e] * n + ([["op", "<", AX, 9]] if n != 1 else [])]),
        ("not", ["bool"], lambda e: ["un", "not", e]),
        ("exists", ["sel"], lambda s: ["exists", s]),
        ("not_exists", ["sel"], lambda s: ["un", "not", ["exists", s]]),
        ("exists_where", ["bool"], lambda e: ["exists_where", ["op", "and", ["op", "==", BAID, AID], e]]),
        ("any_all", [["any", "all"], ["==", "<"], "num", "sel"], lambda q, o, e, s: ["op", o, e, [q, s]]),
        ("const", [[["true"], ["false"], ["un", "not", ["true"]], ["op", "and", ["true"], ["false"]], ["text", "a.x > 1"], ["textb", "a.x > :tv", {"tv": 4}]]], lambda e: e),
        ("orm_rel", [[["rel_any", "A", "bs", None], ["rel_any", "A", "bs", ["op", ">", ["attr", "B", "x"], 2]], ["rel_has", "B", "a", None],
                      ["rel_has", "B", "a", ["op", "==", ["attr", "A", "s"], "q"]], ["rel_is_none", "B", "a"], ["rel_any", "A", "children", None]]], lambda e: e),
        ("cmp_ssq", [["==", ">"], "num", "sel"], lambda o, e, s: ["op", o, e, ["ssq", s]]),
        ("tuple_cmp", ["num", "num"], lambda l, r: ["op", "<", ["tuple", [l, r]], ["tuple", [1, 2]]]),
    ]
    return P


PRODS = _prods()
_MEMO = {}


def _sel_fillers(level):
    return [SEL0, SELC] if level <= 0 else [SEL0, SELC] + sel_reps()


def reps(kind):
    """representatives: the atoms plus the canonical instance of every production (first filler of every slot)"""
    k = ("reps", kind)
    if k not in _MEMO:
        out = list(ATOMS[kind])
        for name, slots, ctor in PRODS[kind]:
            out.append(ctor(*[s[0] if isinstance(s, list) else (SEL0 if s == "sel" else ATOMS[s][0]) for s in slots]))
        _MEMO[k] = _dedup(out)
    return _MEMO[k]


def exprs(kind, level):
    """level 0: atoms; level 1: every production over atoms, all base-choice combinations;
    level 2: every production with each slot ranging over the level-1 *representatives* (production nested in
    production), plus level 1"""
    k = ("exprs", kind, level)
    if k in _MEMO:
        return _MEMO[k]
    if level <= 0:
        out = list(ATOMS[kind])
    else:
        out = list(exprs(kind, level - 1))
        for name, slots, ctor in PRODS[kind]:
            fl = []
            for s in slots:
                if isinstance(s, list):
                    fl.append(s)
                elif s == "sel":
                    fl.append(_sel_fillers(level - 1))
                else:
                    fl.append(list(ATOMS[s]) if level == 1 else reps(s))
            for combo in base_choice(fl):
                out.append(ctor(*combo))
    _MEMO[k] = _dedup(out)
    return _MEMO[k]


def _dedup(lst):
    seen, out = set(), []
    for d in lst:
        j = dj(d)
        if j not in seen:
            seen.add(j)
            out.append(d)
    return out


def _sel(**kw):
    d = {"k": "select", "cols": [AID, AX]}
    d.update(kw)
    return d


def sel_reps():
    """representative selects used as nested operands (subquery / CTE / compound member / scalar subquery)"""
    return [
        {"k": "select", "cols": [AID]},
        {"k": "select", "cols": [BAID], "where": [["op", "==", BX, ["bp", "p", 7]]], "order_by": [BX], "limit": 2},
        {"k": "select", "cols": [["label", ["fn", "count", [BID]], "n"]], "group_by": [BAID], "having": [["op", ">", ["fn", "count", [BID]], 1]]},
        {"k": "select", "cols": [CX], "joins": [["b", None]], "distinct": True},
        {"k": "union", "selects": [{"k": "select", "cols": [AID]}, {"k": "select", "cols": [BID]}]},
        {"k": "select", "cols": [["attr", "A", "id"]], "where": [["op", ">", ["attr", "A", "x"], 3]]},
        {"k": "select", "cols": [["c", "w", "id"]], "from": [["cte", {"k": "select", "cols": [AID]}, "w"]]},
        {"k": "select", "cols": [["c", "a:a_2", "id"]], "where": [["in", ["c", "a:a_2", "x"], [1, 2]]]},
    ]


def select_shapes(level):
    """structural SELECT productions (no free expression slot); nested selects range over sel_reps() from level 2"""
    nested = [SEL0] if level <= 1 else [SEL0] + sel_reps()
    nested2 = [{"k": "select", "cols": [AID, AX], "where": [["op", ">", AX, 1]]}] + (
        [] if level <= 1 else [{"k": "select", "cols": [AID, ["label", ["fn", "count", [BID]], "x"]], "joins": [["b", None]], "group_by": [AID]},
                               {"k": "select", "cols": [["attr", "A", "id"], ["attr", "A", "x"]]},
                               {"k": "union_all", "selects": [{"k": "select", "cols": [AID, AX]}, {"k": "select", "cols": [BID, BX]}]},
                               {"k": "select", "cols": [AID, AX], "order_by": [AX], "limit": 3, "offset": 1}])
    out = [_sel(), {"k": "select", "cols": [["tbl", "a"]]}, {"k": "select", "cols": [["tbl", "a"], ["tbl", "b"]], "joins": [["b", None]]},
           {"k": "select", "cols": [["tbl", "c"]]}, {"k": "select", "cols": [AID, BID, ["c", "c", "id"]], "from": ["a", "b", "c"]}]
    # joins
    on = ["op", "==", AID, BAID]
    for j in ([["b", None]], [["b", on]], [["b", None, {"isouter": True}]], [["b", on, {"full": True}]], [["b", None], ["c", None]],
              [["a:a_1", ["op", "==", ["c", "a", "parent_id"], ["c", "a:a_1", "id"]]]], [["b", None, {"from": "a"}]], [["c", ["op", "==", CBID, AID]]],
              [[["subq", SEL0, "sq"], ["op", "==", ["c", "sq", "a_id"], AID]]], [["b", ["op", "and", on, ["op", ">", BX, 2]]]],
              [[["lateral", SELC, "lat"], ["true"]]], [["b", None, {"isouter": True}], ["c", None, {"isouter": True}]]):
        out.append(_sel(joins=j))
        out.append({"k": "select", "cols": [AID, BID, BX] if any(x[0] == "b" for x in j) else [AID], "joins": j, "label_style": "tcol"})
    out.append({"k": "select", "cols": [AID], "from": [["join", "a", "b", None, {"isouter": True}]]})
    out.append({"k": "select", "cols": [AID], "from": [["join", ["join", "a", "b", None], "c", None]]})
    # FROM items over nested selects
    for n in nested2:
        out.append({"k": "select", "cols": [["c", "sq", "id"]], "from": [["subq", n, "sq"]]})
        out.append({"k": "select", "cols": [["c", "sq", "id"], ["c", "sq", "x"]], "from": [["subq", n, "sq"]], "where": [["op", ">", ["c", "sq", "x"], 1]], "label_style": "tcol"})
        out.append({"k": "select", "cols": [["c", "w", "id"]], "from": [["cte", n, "w"]]})
        out.append({"k": "select", "cols": [["c", "w", "id"], BID], "from": [["cte", n, "w"]], "joins": [["b", ["op", "==", BAID, ["c", "w", "id"]]]]})
        out.append({"k": "select", "cols": [["c", "w", "id"]], "from": [["cte", n, "w", {"nesting": True}]]})
        out.append({"k": "select", "cols": [["c", "w2", "id"]], "from": [["cte", {"k": "select", "cols": [["c", "w", "id"]], "from": [["cte", n, "w"]]}, "w2"]]})
        out.append({"k": "select", "cols": [AID, ["c", "l", "x"]], "from": ["a", ["lateral", n, "l"]]})
        out.append({"k": "select", "cols": [["ent", "aa"]], "from": [["aliased_subq", "A", n, "aa"]]})
        for comp in ("union", "union_all", "intersect", "except", "intersect_all", "except_all"):
            out.append({"k": comp, "selects": [n, {"k": "select", "cols": [BID, BX]}]})
        out.append({"k": "union", "selects": [n, {"k": "select", "cols": [BID, BX]}], "order_by": [["name", "id"]], "limit": 3, "offset": 1})
        out.append({"k": "union", "selects": [n, {"k": "union_all", "selects": [{"k": "select", "cols": [BID, BX]}, {"k": "select", "cols": [["c", "c", "id"], CX]}]}]})
        out.append({"k": "select", "cols": [["c", "u", "id"]], "from": [["subq", {"k": "union", "selects": [n, {"k": "select", "cols": [BID, BX]}]}, "u"]]})
        out.append({"k": "insert", "t": "a", "from_select": [["id", "x"], n]})
    for n in nested:
        out.append(_sel(where=[["in_sub", AID, n]]))
        out.append(_sel(cols=[AID, ["label", ["ssq", n], "sub"]]))
        out.append(_sel(where=[["exists", n]]))
        out.append({"k": "insert", "t": "a", "from_select": [["x"], n]})
        out.append({"k": "update", "t": "a", "values": {"x": ["ssq", n]}})
        out.append({"k": "delete", "t": "a", "where": [["in_sub", AID, n]]})
    out += [
        {"k": "select", "cols": [["c", "r", "id"], ["c", "r", "lvl"]], "from": [["rcte", "r", 0, True]]},
        {"k": "select", "cols": [["c", "r", "id"]], "from": [["rcte", "r", 1, False]], "where": [["op", "<", ["c", "r", "lvl"], 5]]},
        {"k": "select", "cols": [["c", "v", "q"]], "from": [["values", [["q", ["Integer"]]], "v", [[1], [2]]]]},
        {"k": "select", "cols": [["c", "v", "q"], ["c", "v", "r"]], "from": [["values", [["q", ["Integer"]], ["r", ["String"]]], "v", [[1, "x"], [2, "y"], [3, "z"]]]]},
        {"k": "select", "cols": [["c", "v", "q"]], "from": [["values", [["q", ["Integer"]]], "v", [[1]], True]]},
        {"k": "select", "cols": [["c", "ts", "id"]], "from": [["tablesample", "a", "ts", 10]]},
        {"k": "select", "cols": [["c", "ts", "id"]], "from": [["tablesample", "a", "ts", 10, 42]]},
        {"k": "select", "cols": [["c", "tc", "q"]], "from": [["textcols", "select 1 as q", [["q", ["Integer"]]], "tc"]]},
        {"k": "select", "cols": [["c", "g", "value"]], "from": [["fn_table", "generate_series", [1, 3], ["value"], "g"]]},
        {"k": "select", "cols": [["c", "a:a_1", "id"], ["c", "a:a_2", "id"]], "from": ["a:a_1", "a:a_2"], "where": [["op", "==", ["c", "a:a_1", "parent_id"], ["c", "a:a_2", "id"]]]},
        {"k": "select", "cols": [AID], "where": [["op", "==", AX, ["ssq_corr", SELC, "a"]]]},
        {"k": "select", "cols": [AID, AX], "add_cte": [["cte", {"k": "insert", "t": "b", "values": {"x": 1}, "returning": [BID]}, "ins"]]},
        {"k": "select", "cols": [["c", "upd", "id"]], "from": [["cte", {"k": "update", "t": "a", "values": {"x": 1}, "returning": [AID]}, "upd"]]},
        {"k": "select", "cols": [["c", "del_", "id"]], "from": [["cte", {"k": "delete", "t": "a", "where": [["op", ">", AX, 3]], "returning": [AID]}, "del_"]]},
        {"k": "select", "cols": [["c", "w", "id"]], "from": [["cte", {"k": "select", "cols": [AID]}, "w", {"prefix": "MATERIALIZED"}]]},
        {"k": "select", "cols": [["c", "ts", "id"]], "from": [["tablesample", "a", "ts", ["fn", "bernoulli", [10]], ["lit", 42]]]},
        # bind names that need escaping, alone and colliding after escaping
        {"k": "select", "cols": [["bp", "a.b", 1], ["bp", "a[1]", 2], ["bp", "a%b", 3], ["bp", "a b", 4]], "where": [["op", ">", AX, ["bp", "x(y)", 5]]]},
        {"k": "select", "cols": [["bp", "a_b", 1], ["bp", "a.b", 2]]},
        {"k": "select", "cols": [["bp", "a.b", 1], ["bp", "a b", 2]]},
        {"k": "select", "cols": [AID], "where": [["op", "==", AX, ["bp", "a_b", 1]], ["op", "==", AS_, ["bp", "a.b", "q"]]]},
    ]
    # clause combinations without expression slots
    for kw in (dict(group_by=[AX], cols=[AX, ["fn", "count", []]]), dict(group_by=[AX], cols=[AX, ["fn", "count", []]], having=[["op", ">", ["fn", "count", []], 1]]),
               dict(order_by=[AX]), dict(order_by=[["un", "desc", AX], AID]), dict(order_by=[["un", "nulls_last", AX]]), dict(order_by=[["un", "nulls_first", AX]]),
               dict(order_by=[["name", "x"]]), dict(cols=[["label", AX, "lx"]], order_by=[["name", "lx"]]), dict(cols=[["label", AX, "lx"]], group_by=[["name", "lx"]]),
               dict(limit=5), dict(limit=0), dict(offset=2), dict(limit=5, offset=2), dict(limit=["bp", "lim", 5]), dict(limit=5, offset=["bp", "off", 1]),
               dict(limit=5, offset=2, order_by=[AID]), dict(limit=["op", "+", ["lit", 1], 2]), dict(limit=5, order_by=[AID], distinct=True),
               dict(fetch=[3], order_by=[AID]), dict(fetch=[3, {"with_ties": True}], order_by=[AID]), dict(fetch=[10, {"percent": True}], order_by=[AID], offset=1),
               dict(distinct=True), dict(distinct=[AX]), dict(distinct=True, order_by=[AX], limit=2, offset=1),
               dict(label_style="none"), dict(label_style="tcol"), dict(label_style="disamb"),
               dict(cols=[AID, BID, ["c", "c", "id"], AX, BX], from_=None, joins=[["b", None], ["c", None]], label_style="disamb"),
               dict(cols=[AID, BID, AX, BX], joins=[["b", None]], label_style="none"),
               dict(cols=[AID, AID]), dict(cols=[AX, ["label", AX, "x"]]), dict(cols=[AX, ["label", AID, "x"]], label_style="tcol"),
               dict(prefixes=["/*p*/"]), dict(prefixes=["SQL_NO_CACHE", ["HIGH_PRIORITY", "mysql"]]), dict(suffixes=["/*s*/"]),
               dict(hints=[["a", "USE INDEX (ix_a_x)", "mysql"]]), dict(hints=[["a", "WITH (NOLOCK)", "mssql"]]), dict(hints=[["a", "index(%(name)s ix)", "oracle"]]),
               dict(hints=[["a", "ONLY", "postgresql"]]), dict(hints=[["a", "h%%x"]]), dict(stmt_hints=["OPTION (RECOMPILE)"]),
               dict(for_update={}), dict(for_update={"nowait": True}), dict(for_update={"read": True}), dict(for_update={"skip_locked": True}),
               dict(for_update={"of": [AID]}), dict(for_update={"key_share": True, "read": True}), dict(for_update={"of": [AID], "nowait": True}, joins=[["b", None]]),
               dict(for_update={}, limit=2), dict(exec_opts={"foo": 1}), dict(exec_opts={"foo": 2, "bar": "z"}), dict(correlate=["b"]), dict(correlate_except=["b"]),
               dict(reduce_columns=True, cols=[AID, BAID], joins=[["b", None]]), dict(with_only_columns=[AID]), dict(filter_by={"x": 3}),
               dict(filter_by={"x": 3, "s": "q"})):
        kw = dict(kw)
        kw.pop("from_", None)
        out.append(_sel(**kw))
    return _dedup(out)


def orm_shapes(level):
    EA, EB = ["ent", "A"], ["ent", "B"]
    out = [
        {"k": "select", "cols": [EA]}, {"k": "select", "cols": [EA, EB], "joins": [[["rel", "A", "bs"]]]}, {"k": "select", "cols": [EA], "joins": [[["rel", "A", "bs"], None, {"isouter": True}]]},
        {"k": "select", "cols": [["attr", "A", "id"], ["attr", "B", "x"]], "joins": [[["ent", "B"], None]]},
        {"k": "select", "cols": [EA], "joins": [[["ent", "B"], ["op", "==", ["attr", "A", "id"], ["attr", "B", "a_id"]]]]},
        {"k": "select", "cols": [EA], "joins": [[["rel", "A", "bs"]], [["rel", "B", "cs"]]]},
        {"k": "select", "cols": [EA, ["ent", "a1"]], "from": [["aliased", "A", "a1"]], "joins": [[["rel_of", "A", "children", ["ent", "A"]], None]]},
        {"k": "select", "cols": [["ent", "a1"]], "from": [["aliased", "A", "a1"]], "where": [["op", ">", ["attr", "a1", "x"], 1]]},
        {"k": "select", "cols": [EA, ["ent", "a1"]], "from": [["ent", "A"], ["aliased", "A", "a1"]], "where": [["op", "==", ["attr", "A", "parent_id"], ["attr", "a1", "id"]]]},
        {"k": "select", "cols": [["fn", "count", [["attr", "A", "id"]]]], "from": [["ent", "A"]]},
        {"k": "select", "cols": [EA], "filter_by": {"x": 3}}, {"k": "select", "cols": [EA], "order_by": [["attr", "A", "x"]], "limit": 2, "offset": 1},
        {"k": "select", "cols": [EA], "distinct": True}, {"k": "select", "cols": [EA], "label_style": "tcol"}, {"k": "select", "cols": [EA], "for_update": {}},
        {"k": "select", "cols": [["attr", "A", "x"], ["fn", "count", [["attr", "B", "id"]]]], "joins": [[["rel", "A", "bs"]]], "group_by": [["attr", "A", "x"]],
         "having": [["op", ">", ["fn", "count", [["attr", "B", "id"]]], 1]]},
        {"k": "select", "cols": [["ent", "C"]], "joins": [[["rel", "C", "b"]], [["rel", "B", "a"]]], "where": [["op", "==", ["attr", "A", "s"], "q"]]},
        {"k": "select", "cols": [["c", "sq", "id"]], "from": [["subq", {"k": "select", "cols": [EA]}, "sq"]]},
        {"k": "union", "selects": [{"k": "select", "cols": [["attr", "A", "id"]]}, {"k": "select", "cols": [["attr", "B", "id"]]}]},
        {"k": "update", "t": "ent:A", "where": [["op", ">", ["attr", "A", "x"], 1]], "values": {"x": 2}},
        {"k": "update", "t": "ent:A", "values": {"x": ["op", "+", ["attr", "A", "x"], 1]}, "returning": [["attr", "A", "id"]]},
        {"k": "delete", "t": "ent:A", "where": [["op", "==", ["attr", "A", "s"], "q"]]}, {"k": "delete", "t": "ent:B", "where": [["rel_has", "B", "a", None]]},
        {"k": "insert", "t": "ent:A", "values": {"x": 1}}, {"k": "insert", "t": "ent:A", "values": {"x": 1}, "returning": [EA]},
        {"k": "insert", "t": "ent:A", "mvalues": [{"x": 1}, {"x": 2}], "returning": [["attr", "A", "id"]]},
    ]
    for o in ([["selectinload", "A", "bs"]], [["joinedload", "A", "bs"]], [["subqueryload", "A", "bs"]], [["joinedload", "A", "bs", ["joinedload", "B", "cs"]]],
              [["joinedload", "A", "parent"]], [["joinedload", "A", "children"]], [["load_only", "A", ["x"]]], [["defer", "A", "s"]], [["loader_criteria", "A", "x", 5]],
              [["loader_criteria", "A", "x", 6]], [["selectinload", "A", "bs", ["selectinload", "B", "cs"]]], [["joinedload", "A", "bs"], ["defer", "A", "s"]]):
        out.append({"k": "select", "cols": [EA], "options": o})
        out.append({"k": "select", "cols": [EA], "options": o, "limit": 2, "order_by": [["attr", "A", "id"]]})
    out.append({"k": "select", "cols": [EA], "joins": [[["rel", "A", "bs"]]], "options": [["contains_eager", "A", "bs"]]})
    out.append({"k": "select", "cols": [EB], "options": [["joinedload", "B", "a"]], "where": [["op", ">", ["attr", "B", "x"], 1]]})
    return _dedup(out)


def dml_shapes(level):
    out = []
    for fam in (None,):
        out += [
            {"k": "insert", "t": "a"}, {"k": "insert", "t": "a", "values": {"x": 1}}, {"k": "insert", "t": "a", "values": {"x": 1, "s": "q"}}, {"k": "insert", "t": "a", "values": {"id": 1, "x": 1}},
            {"k": "insert", "t": "a", "values": {}}, {"k": "insert", "t": "c", "values": {"x": 1, "j": {"k": [1, 2]}}}, {"k": "insert", "t": "b", "values": {"x": 1.5}},
            {"k": "insert", "t": "a", "mvalues": [{"x": 1}, {"x": 2}]}, {"k": "insert", "t": "a", "mvalues": [{"x": 1, "s": "p"}, {"x": 2, "s": "q"}, {"x": 3, "s": "r"}]},
            {"k": "insert", "t": "a", "mvalues": [{"x": 1}]}, {"k": "insert", "t": "a", "values": {"x": 1}, "returning": [AID]}, {"k": "insert", "t": "a", "values": {"x": 1}, "returning": [AID, AX, ["op", "+", AX, 1]]},
            {"k": "insert", "t": "a", "values": {"x": 1}, "returning": [["tbl", "a"]]}, {"k": "insert", "t": "a", "values": {"x": 1}, "return_defaults": True},
            {"k": "insert", "t": "a", "values": {"x": 1}, "inline": True}, {"k": "insert", "t": "a", "values": {"x": 1}, "prefixes": ["OR REPLACE"]},
            {"k": "insert", "t": "a", "mvalues": [{"x": 1}, {"x": 2}], "returning": [AID], "returning_kw": {"sort_by_parameter_order": True}},
            {"k": "insert", "t": "a", "values": {"x": 1}, "add_cte": [["cte", SEL0, "w"]]},
            {"k": "insert", "t": "a", "from_select": [["x"], {"k": "select", "cols": [["c", "w", "a_id"]], "from": [["cte", SEL0, "w"]]}]},
            {"k": "insert", "t": "a", "from_select": [["x"], SEL0], "returning": [AID]}, {"k": "insert", "t": "a", "from_select": [["x", "s"], {"k": "select", "cols": [BX, BS]}], "inline": True},
            {"k": "insert", "t": "c", "values": {"x": 1}, "returning": [["c", "c", "id"]]},
            {"k": "update", "t": "a", "values": {"x": 1}}, {"k": "update", "t": "a", "where": [["op", "==", AID, 1]], "values": {"x": 1, "s": "q"}}, {"k": "update", "t": "a"},
            {"k": "update", "t": "a", "where": [["op", "==", AID, 1]], "values": {"x": ["op", "+", AX, 1]}, "returning": [AX]},
            {"k": "update", "t": "a", "ordered": [["x", 1], ["s", "q"]]}, {"k": "update", "t": "a", "ordered": [["s", "q"], ["x", 1]]},
            {"k": "update", "t": "a", "where": [["op", "==", AID, BAID]], "values": {"x": BID}},                                  # UPDATE .. FROM
            {"k": "update", "t": "a", "where": [["op", "==", AID, BAID]], "cvalues": [[AX, BID], [BS, "z"]]},                   # multi-table SET
            {"k": "update", "t": "a", "where": [["op", "==", AID, ["c", "w", "a_id"]]], "from": [["cte", SEL0, "w"]], "values": {"x": 1}},
            {"k": "update", "t": "a", "where": [["op", "==", AID, ["c", "sq", "a_id"]]], "from": [["subq", SEL0, "sq"]], "values": {"x": ["c", "sq", "a_id"]}},
            {"k": "update", "t": "a", "values": {"x": 1}, "return_defaults": True}, {"k": "update", "t": "a", "values": {"x": 1}, "prefixes": ["LOW_PRIORITY"]},
            {"k": "update", "t": "a", "values": {"x": 1}, "with_dialect_options": {"mysql_limit": 2}}, {"k": "update", "t": "c", "values": {"x": 1}, "where": [["op", ">", CX, 1]]},
            {"k": "update", "t": "a", "values": {"x": 1}, "hints": [["WITH (PAGLOCK)", "mssql"]]}, {"k": "update", "t": "a:a_1", "values": {"x": 1}, "where": [["op", ">", ["c", "a:a_1", "x"], 1]]},
            {"k": "update", "t": "a", "values": {"x": ["bp", "newx", 9]}, "where": [["op", "==", AID, ["bp", "theid", 1]]]},
            {"k": "delete", "t": "a"}, {"k": "delete", "t": "a", "where": [["op", "==", AID, 1]]}, {"k": "delete", "t": "a", "where": [["op", "==", AID, 1]], "returning": [AID, AX]},
            {"k": "delete", "t": "a", "where": [["op", "==", AID, BAID], ["op", ">", BX, 1]]},                                # DELETE .. USING
            {"k": "delete", "t": "a", "where": [["op", "==", AID, ["c", "w", "a_id"]]], "from": [["cte", SEL0, "w"]]},
            {"k": "delete", "t": "c", "where": [["op", ">", CX, 1]]}, {"k": "delete", "t": "a", "prefixes": ["QUICK"]},
            {"k": "delete", "t": "a", "where": [["op", ">", AX, 1]], "with_dialect_options": {"mysql_limit": 2}},
            {"k": "delete", "t": "a", "where": [["exists", SELC]], "returning": [["tbl", "a"]]},
        ]
    oc_targets = [{"index_elements": [AID]}, {"index_elements": [["name", "id"]]}, {"constraint": "a_pkey"}, {}, {"index_elements": [AX], "index_where": ["op", ">", AX, 0]}]
    for fam in ("pg", "sqlite"):
        for tgt in oc_targets:
            if fam == "sqlite" and "constraint" in tgt:
                continue
            out.append({"k": "insert", "t": "a", "fam": fam, "values": {"id": 1, "x": 2}, "on_conflict": dict(tgt, do="nothing")})
            if tgt:
                for set_ in ({"x": 3}, {"x": ["excluded", "x"]}, {"x": ["op", "+", AX, ["excluded", "x"]], "s": "q"}, {"x": ["bp", "up", 5]}, {"x": ["ssq", SEL0]}):
                    out.append({"k": "insert", "t": "a", "fam": fam, "values": {"id": 1, "x": 2}, "on_conflict": dict(tgt, do="update", set=set_)})
                out.append({"k": "insert", "t": "a", "fam": fam, "values": {"id": 1, "x": 2}, "on_conflict": dict(tgt, do="update", set={"x": 3}, where=["op", ">", AX, 1])})
                out.append({"k": "insert", "t": "a", "fam": fam, "values": {"id": 1, "x": 2}, "on_conflict": dict(tgt, do="update", set={"x": ["excluded", "x"]}), "returning": [AID, AX]})
                out.append({"k": "insert", "t": "a", "fam": fam, "mvalues": [{"id": 1, "x": 2}, {"id": 2, "x": 3}], "on_conflict": dict(tgt, do="update", set={"x": ["excluded", "x"]})})
                out.append({"k": "insert", "t": "a", "fam": fam, "from_select": [["id", "x"], {"k": "select", "cols": [BID, BAID]}], "on_conflict": dict(tgt, do="update", set={"x": ["excluded", "x"]})})
    for od in ({"x": 5}, {"x": ["inserted", "x"]}, {"x": ["op", "+", ["inserted", "x"], 1], "s": "q"}, {"s": ["fn", "concat", [["inserted", "s"], ["lit", "z"]]]}, {"x": ["bp", "up", 5]}, {"x": ["ssq", SEL0]}):
        out.append({"k": "insert", "t": "a", "fam": "mysql", "values": {"id": 1, "x": 2}, "on_dup": od})
        out.append({"k": "insert", "t": "a", "fam": "mysql", "mvalues": [{"id": 1, "x": 2}, {"id": 2, "x": 3}], "on_dup": od})
    out.append({"k": "insert", "t": "a", "fam": "mysql", "from_select": [["id", "x"], {"k": "select", "cols": [BID, BAID]}], "on_dup": {"x": ["inserted", "x"]}})
    out += [{"k": "insert", "t": "a", "fam": f, "values": {"x": 1}} for f in ("pg", "sqlite", "mysql")]
    return _dedup(out)


def text_shapes():
    return [{"k": "text", "sql": "select 1"}, {"k": "text", "sql": "select * from a where x = :p", "binds": {"p": 5}}, {"k": "text", "sql": "select * from a where x = :p and s = :q", "binds": {"p": 5, "q": "z"}},
            {"k": "text", "sql": "select a\\:b, '%' from a where x > :p", "binds": {"p": 5}}, {"k": "text", "sql": "select 1 as q", "cols": [["q", ["Integer"]]]},
            {"k": "text", "sql": "select x::int from a where x = :p", "binds": {"p": 1}}, {"k": "text", "sql": "select :p + :p", "binds": {"p": 2}}, {"k": "text", "sql": "select :p"}]


def _t(name, cols, cons=(), schema=None, kw=None):
    d = {"name": name, "cols": cols}
    if cons:
        d["cons"] = list(cons)
    if schema:
        d["schema"] = schema
    if kw:
        d["kw"] = kw
    return d


PK = ["id", ["Integer"], {"primary_key": True}]


def ddl_metas():
    L = "l" * 40
    return [
        {"naming": None, "tables": [_t("p", [PK, ["y", ["Integer"]]]), _t("t1", [PK, ["p_id", ["Integer"], {"fk": "p.id"}], ["y", ["Integer"], {"unique": True}], ["z", ["String", 10], {"index": True, "nullable": False}]],
                                                                            [["check", "y > 0", "pos"], ["unique", ["y", "z"], None], ["index", ["y", "z"], "ix_t1_yz", {"unique": True}]])]},
        {"naming": "std", "tables": [_t("p", [PK, ["y", ["Integer"]]]), _t("t1", [PK, ["p_id", ["Integer"], {"fk": "p.id"}], ["y", ["Integer"], {"unique": True}], ["z", ["String", 10], {"index": True}]],
                                                                             [["check", "y > 0", "pos"], ["unique", ["y", "z"], None], ["fk", ["y"], ["p.y"], None, {"ondelete": "CASCADE", "onupdate": "SET NULL"}],
                                                                              ["index", ["y", "z"], None], ["index", ["z"], "explicit_ix"]])]},
        {"naming": {"ix": "ix_%(table_name)s_%(column_0_N_name)s", "uq": "uq_%(table_name)s_%(column_0_N_label)s", "fk": "fk_%(table_name)s_%(column_0_N_key)s_%(referred_table_name)s_%(referred_column_0_N_name)s",
                    "pk": "pk_%(table_name)s", "ck": "ck_%(table_name)s_%(column_0_name)s"},
         "tables": [_t("p", [PK, ["y", ["Integer"]], ["z", ["Integer"]]], [["unique", ["y", "z"], None]]),
                    _t("t1", [PK, ["py", ["Integer"]], ["pz", ["Integer"]], [L, ["Integer"]]], [["fk", ["py", "pz"], ["p.y", "p.z"], None], ["unique", ["py", L], None], ["index", [L, "py"], None], ["check", "py > 0", None]])]},
        {"naming": None, "tables": [_t("p", [PK], schema="s1"), _t("t1", [PK, ["p_id", ["Integer"], {"fk": "s1.p.id"}], ["n", ["Numeric", 10, 2], {"server_default": ["text", "0"]}], ["c", ["String", 5], {"server_default": "x'y"}],
                                                                         ["g", ["Integer"], {"computed": "n + 1"}], ["b", ["Boolean"]], ["e", ["Enum", "r", "g"]], ["u", ["Uuid"]], ["ts", ["DateTime"], {"comment": "it's"}]],
                                                                  schema="S 2", kw={"comment": "tbl"})]},
        {"naming": None, "tables": [_t("select", [["order", ["Integer"], {"primary_key": True}], ["a b", ["String"]], ["i", ["Integer"], {"identity": {"start": 3, "increment": 2}}]], [["unique", ["a b"], "uq name"]]),
                                    _t("t2", [["id", ["Integer"], {"primary_key": True, "seq": "sq1"}], ["k", ["Integer"], {"fk": ["select.order", {"name": "fk_explicit", "deferrable": True, "initially": "DEFERRED"}]}],
                                              ["big", ["BigInteger"], {"autoincrement": False}], ["bl", ["LargeBinary"]], ["t", ["Text"]], ["f", ["Float"]], ["j", ["JSON"]], ["ar", ["ARRAY", ["Integer"]]]],
                                       [["pk", ["id"], "pk_explicit"]])]},
    ]


def ddl_shapes(level):
    out = []
    for t in ("a", "b", "c"):
        out += [{"k": "ddl", "op": "create_table", "target": t}, {"k": "ddl", "op": "drop_table", "target": t}, {"k": "ddl", "op": "create_table", "target": t, "o": {"if_not_exists": True}},
                {"k": "ddl", "op": "drop_table", "target": t, "o": {"if_exists": True}}, {"k": "ddl", "op": "add_constraint", "target": [t, ["pk"]]}]
    out += [{"k": "ddl", "op": "create_index", "target": ["a", 0]}, {"k": "ddl", "op": "create_index", "target": ["b", 0]}, {"k": "ddl", "op": "drop_index", "target": ["a", 0]},
            {"k": "ddl", "op": "create_index", "target": ["b", 0], "o": {"if_not_exists": True}}, {"k": "ddl", "op": "drop_index", "target": ["b", 0], "o": {"if_exists": True}},
            {"k": "ddl", "op": "add_constraint", "target": ["b", ["fk", 0]]}, {"k": "ddl", "op": "add_constraint", "target": ["c", ["fk", 0]]}, {"k": "ddl", "op": "add_constraint", "target": ["a", ["fk", 0]]},
            {"k": "ddl", "op": "create_sequence", "target": "sq"}, {"k": "ddl", "op": "create_sequence", "target": "sq", "seq": {"start": 5, "increment": 2, "schema": "sch"}},
            {"k": "ddl", "op": "create_sequence", "target": "sq", "seq": {"minvalue": 1, "maxvalue": 9, "cycle": True, "cache": 3}}, {"k": "ddl", "op": "drop_sequence", "target": "sq"},
            {"k": "ddl", "op": "create_sequence", "target": "sq", "o": {"if_not_exists": True}}, {"k": "ddl", "op": "create_schema", "target": "sch"}, {"k": "ddl", "op": "drop_schema", "target": "S 2"},
            {"k": "ddl", "op": "create_schema", "target": "sch", "o": {"if_not_exists": True}}, {"k": "ddl", "op": "drop_schema", "target": "sch", "o": {"cascade": True}}]
    for m in ddl_metas():
        for td in m["tables"]:
            n = td["name"]
            out += [{"k": "ddl", "op": "create_table", "target": n, "meta": m}, {"k": "ddl", "op": "drop_table", "target": n, "meta": m}, {"k": "ddl", "op": "add_constraint", "target": [n, ["pk"]], "meta": m}]
            ncons = {"unique": 0, "check": 0, "fk": 0}
            nidx = 0
            for cd in td["cols"]:
                o = cd[2] if len(cd) > 2 else {}
                if "fk" in o:
                    ncons["fk"] += 1
                if o.get("unique") and not o.get("index"):
                    ncons["unique"] += 1
                if o.get("index"):
                    nidx += 1
                if cd[1][0] in ("Boolean", "Enum"):
                    pass
            for cn in td.get("cons", ()):
                if cn[0] in ncons:
                    ncons[cn[0]] += 1
                if cn[0] == "index":
                    nidx += 1
            for kind, cnt in ncons.items():
                for i in range(cnt):
                    out.append({"k": "ddl", "op": "add_constraint", "target": [n, [kind, i]], "meta": m})
                    out.append({"k": "ddl", "op": "drop_constraint", "target": [n, [kind, i]], "meta": m})
            for i in range(nidx):
                out.append({"k": "ddl", "op": "create_index", "target": [n, i], "meta": m})
                out.append({"k": "ddl", "op": "drop_index", "target": [n, i], "meta": m})
    return _dedup(out)


CLAUSES = {
    # clause position -> (expression kinds accepted, statement constructor)
    "col": (("num", "str", "bool"), lambda e: {"k": "select", "cols": [e]}),
    "col2": (("num", "str"), lambda e: {"k": "select", "cols": [AID, e], "joins": [["b", None]], "where": [["op", ">", BX, ["bp", "p", 7]]]}),
    "where": (("bool",), lambda e: {"k": "select", "cols": [AID], "where": [e]}),
    "where_join": (("bool",), lambda e: {"k": "select", "cols": [AID, BID], "joins": [["b", None], ["c", None, {"isouter": True}]], "where": [e, ["op", "<", BX, 9]], "limit": 4}),
    "having": (("bool",), lambda e: {"k": "select", "cols": [AX, ["fn", "count", []]], "group_by": [AX], "having": [e]}),
    "order_by": (("num", "str"), lambda e: {"k": "select", "cols": [AID], "order_by": [e, ["un", "desc", AID]], "limit": 3, "offset": 1}),
    "group_by": (("num", "str"), lambda e: {"k": "select", "cols": [["fn", "count", []]], "group_by": [e]}),
    "join_on": (("bool",), lambda e: {"k": "select", "cols": [AID, BX], "joins": [["b", ["op", "and", ["op", "==", AID, BAID], e]]]}),
    "subq_col": (("num", "str"), lambda e: {"k": "select", "cols": [["c", "sq", "v"]], "from": [["subq", {"k": "select", "cols": [AID, ["label", e, "v"]]}, "sq"]]}),
    "cte_where": (("bool",), lambda e: {"k": "select", "cols": [["c", "w", "id"]], "from": [["cte", {"k": "select", "cols": [AID], "where": [e]}, "w"]], "where": [["op", ">", ["c", "w", "id"], ["bp", "outer", 3]]]}),
    "ins_value": (("num",), lambda e: {"k": "insert", "t": "a", "values": {"x": e, "s": "k"}}),
    "ins_value_s": (("str",), lambda e: {"k": "insert", "t": "a", "values": {"s": e}, "returning": [AID]}),
    "upd_set": (("num",), lambda e: {"k": "update", "t": "a", "values": {"x": e}, "where": [["op", "==", AID, ["bp", "theid", 1]]]}),
    "upd_where": (("bool",), lambda e: {"k": "update", "t": "a", "values": {"s": "n"}, "where": [e], "returning": [AID]}),
    "del_where": (("bool",), lambda e: {"k": "delete", "t": "a", "where": [e]}),
    "returning": (("num", "str"), lambda e: {"k": "insert", "t": "a", "values": {"x": 1}, "returning": [AID, e]}),
    "limit": (("num",), lambda e: {"k": "select", "cols": [AID], "order_by": [AID], "limit": e, "offset": 2}),
    "orm_where": (("bool",), lambda e: {"k": "select", "cols": [["ent", "A"]], "where": [e], "options": [["joinedload", "A", "bs"]]}),
    "upsert_set": (("num",), lambda e: {"k": "insert", "t": "a", "fam": "pg", "values": {"id": 1, "x": 2}, "on_conflict": {"do": "update", "index_elements": [AID], "set": {"x": e}}}),
}
QUICK_CLAUSES = ("col", "where", "having", "order_by", "ins_value", "ins_value_s", "upd_set", "del_where", "returning", "join_on", "subq_col", "orm_where", "limit", "cte_where")


def corpus(depth=2, seed=0, kinds=("select", "orm", "dml", "text", "ddl", "clause")):
    """the list of descriptors of derivation depth <= depth (deterministic; seed != 0 shuffles the order only)"""
    out = []
    lvl = max(depth - 1, 0)
    if "select" in kinds:
        out += select_shapes(depth)
    if "orm" in kinds:
        out += orm_shapes(depth)
    if "dml" in kinds:
        out += dml_shapes(depth)
    if "text" in kinds:
        out += text_shapes()
    if "ddl" in kinds:
        out += ddl_shapes(depth)
    if "clause" in kinds:
        for cname in (QUICK_CLAUSES if depth <= 2 else tuple(CLAUSES)):
            ekinds, ctor = CLAUSES[cname]
            for ek in ekinds:
                for e in exprs(ek, lvl):
                    out.append(ctor(e))
    out = _dedup(out)
    if seed:
        random.Random(seed).shuffle(out)
    return out


def wellformed(descs, w=None):
    """split into (buildable descriptors, [(descriptor, exception repr)] rejected by the constructors)"""
    ok, rej = [], []
    for d in descs:
        s, e = try_build(d, w)
        if e is None:
            ok.append(d)
        else:
            rej.append((d, "%s: %s" % (type(e).__name__, str(e)[:120])))
    return ok, rej


# ------------------------------------------------------------------------------------------------ near-collision variants
_SIB = {"==": "!=", "!=": "==", "<": "<=", "<=": "<", ">": ">=", ">=": ">", "+": "-", "-": "+", "*": "/", "/": "*", "//": "/", "%": "*", "and": "or", "or": "and",
        "like": "ilike", "ilike": "like", "not_like": "like", "startswith": "endswith", "endswith": "startswith", "contains": "icontains", "icontains": "contains",
        "startswith_ae": "startswith", "contains_esc": "contains", "is": "is_not", "is_not": "is", "is_distinct_from": "isnot_distinct_from",
        "isnot_distinct_from": "is_distinct_from", "bitwise_xor": "bitwise_and", "bitwise_and": "bitwise_or", "bitwise_or": "bitwise_xor", "lshift": "rshift",
        "rshift": "lshift", "concat": "+", "regexp_match": "match", "match": "regexp_match", "op&": "op%%", "op%%": "op&", "bool_op": "==", "pow": "+", "radd": "+",
        "regexp_replace": "concat", "neg": "bitwise_not", "bitwise_not": "neg", "desc": "asc", "asc": "desc", "nulls_last": "nulls_first", "nulls_first": "nulls_last",
        "is_null": "is_not_null", "is_not_null": "is_null", "distinct": "self_group", "self_group": "distinct", "not": "self_group", "is_true": "is_null",
        "in": "not_in", "not_in": "in", "any": "all", "all": "any", "cast": "tc", "tc": "cast", "try_cast": "cast",
        "union": "union_all", "union_all": "union", "intersect": "except", "except": "intersect", "intersect_all": "except_all", "except_all": "intersect_all",
        "selectinload": "joinedload", "joinedload": "selectinload", "subqueryload": "selectinload", "none": "tcol", "tcol": "disamb", "disamb": "none",
        "row_number": "rank", "rank": "row_number", "count": "max", "max": "min", "min": "max", "sum": "avg", "avg": "sum", "abs": "max", "coalesce": "nullif",
        "nullif": "coalesce", "lower": "upper", "upper": "lower", "year": "month", "month": "year", "x": "id", "id": "x", "s": "x", "a_id": "id", "b_id": "id",
        "parent_id": "id", "d": "x", "j": "x"}
_TYPESIB = {"Integer": ["BigInteger"], "String": ["Text"], "Numeric": ["Float"], "Float": ["Numeric"], "Text": ["String"], "Boolean": ["Integer"], "DateTime": ["Date"],
            "BigInteger": ["Integer"], "JSON": ["String"], "Unicode": ["String"], "LargeBinary": ["String"], "Date": ["DateTime"], "Uuid": ["String"], "Interval": ["Integer"]}


def _vary(v):
    if isinstance(v, bool):
        return not v
    if isinstance(v, int):
        return v + 1
    if isinstance(v, float):
        return v + 0.5
    if isinstance(v, str):
        return v + "v"
    if v is None:
        return 1
    return None


def _type_variants(t):
    out = []
    if t[0] == "ARRAY":
        return [["ARRAY", x] for x in _type_variants(t[1])]
    for sib in _TYPESIB.get(t[0], []):
        out.append([sib])
    if any(not isinstance(x, int) or isinstance(x, bool) for x in t[1:]):
        return out + [[t[0]]]                               # keyword / non-integer arguments: varied by C02's type-argument scope
    if len(t) > 1:
        out.append([t[0], t[1] + 1] + t[2:])
        out.append([t[0]])
    elif t[0] in ("String", "Unicode"):
        out.append([t[0], 7])
    elif t[0] == "Numeric":
        out.append([t[0], 8, 3])
    return out


def _mut(node):
    """all single-site mutations of a descriptor node (each result differs from `node` at exactly one site)"""
    out = []
    if isinstance(node, dict):
        if node.get("k") == "ddl":
            return out
        for k, v in node.items():
            if k == "k":
                if isinstance(v, str) and v in _SIB:
                    out.append(dict(node, k=_SIB[v]))
                continue
            if k in ("meta", "t", "fam"):
                continue
            if k in ("limit", "offset") and isinstance(v, int):
                out.append(dict(node, **{k: v + 1}))
                continue
            if k == "distinct" and v is True:
                out.append({kk: vv for kk, vv in node.items() if kk != "distinct"})
                continue
            if k == "label_style":
                out.append(dict(node, label_style=_SIB[v]))
                continue
            if k in ("reduce_columns", "inline", "return_defaults"):
                out.append({kk: vv for kk, vv in node.items() if kk != k})
                continue
            if k in ("prefixes", "suffixes", "stmt_hints") and v and isinstance(v[0], str):
                out.append(dict(node, **{k: [v[0] + "v"] + list(v[1:])}))
                continue
            if k == "hints":
                out.append(dict(node, hints=[[h[0] if i else h[0], (h[1] + "v") if i == 0 else h[1]] + list(h[2:]) for i, h in enumerate(v)]))
                continue
            if k in ("for_update", "exec_opts", "filter_by", "with_dialect_options", "returning_kw"):
                for kk, vv in v.items():
                    nv = _vary(vv) if not isinstance(vv, list) else None
                    if nv is not None:
                        out.append(dict(node, **{k: dict(v, **{kk: nv})}))
                if k == "for_update":
                    for flag in ("nowait", "read", "skip_locked", "key_share"):
                        if flag not in v:
                            out.append(dict(node, for_update=dict(v, **{flag: True})))
                continue
            if k in ("values", "on_dup"):
                for kk, vv in v.items():
                    if isinstance(vv, (list, dict)):
                        for m in _mut(vv):
                            out.append(dict(node, **{k: dict(v, **{kk: m})}))
                    else:
                        nv = _vary(vv)
                        if nv is not None:
                            out.append(dict(node, **{k: dict(v, **{kk: nv})}))
                ks = list(v)
                if ks and ks[0] in ("x", "s"):
                    other = "s" if ks[0] == "x" else "x"
                    if other not in v:
                        out.append(dict(node, **{k: {(other if kk == ks[0] else kk): vv for kk, vv in v.items()}}))
                continue
            if k == "mvalues":
                out.append(dict(node, mvalues=list(v) + [v[-1]]))
                for i, row in enumerate(v[:1]):
                    for kk, vv in row.items():
                        nv = _vary(vv) if not isinstance(vv, (list, dict)) else None
                        if nv is not None:
                            out.append(dict(node, mvalues=[dict(row, **{kk: nv})] + list(v[1:])))
                continue
            if k == "on_conflict":
                for m in _mut({kk: vv for kk, vv in v.items() if kk in ("set", "where", "index_where", "index_elements")}):
                    out.append(dict(node, on_conflict=dict(v, **m)))
                if "set" in v:
                    for m in _mut({"values": v["set"]}):
                        out.append(dict(node, on_conflict=dict(v, set=m["values"])))
                continue
            if k == "joins":
                for i, j in enumerate(v):
                    o = j[2] if len(j) > 2 else {}
                    for flag in ("isouter", "full"):
                        nj = [j[0], j[1] if len(j) > 1 else None, dict(o, **{flag: not o.get(flag, False)})]
                        out.append(dict(node, joins=list(v[:i]) + [nj] + list(v[i + 1:])))
                    for pos in (0, 1):
                        if len(j) > pos and isinstance(j[pos], (list, dict)):
                            for m in _mut(j[pos]):
                                nj = list(j)
                                nj[pos] = m
                                out.append(dict(node, joins=list(v[:i]) + [nj] + list(v[i + 1:])))
                continue
            if k == "from_select":
                for m in _mut(v[1]):
                    out.append(dict(node, from_select=[v[0], m]))
                continue
            if k == "fetch":
                out.append(dict(node, fetch=[v[0] + 1] + list(v[1:])))
                o = v[1] if len(v) > 1 else {}
                for flag in ("with_ties", "percent"):
                    out.append(dict(node, fetch=[v[0], dict(o, **{flag: not o.get(flag, False)})]))
                continue
            if k in ("cols", "order_by", "group_by", "returning") and isinstance(v, list) and len(v) > 1:
                out.append(dict(node, **{k: list(v[:-1])}))
                out.append(dict(node, **{k: [v[1], v[0]] + list(v[2:])}))
            if k == "order_by" and v and isinstance(v[0], list) and v[0][0] not in ("un", "name"):
                out.append(dict(node, order_by=[["un", "desc", v[0]]] + list(v[1:])))
            if isinstance(v, (list, dict)):
                for m in _mut(v):
                    out.append(dict(node, **{k: m}))
        return out
    if not isinstance(node, list) or not node:
        return out
    t = node[0]
    if not isinstance(t, str) or t in ("dt",):
        # plain list of children (clause list, select list ...)
        for i, ch in enumerate(node):
            if isinstance(ch, (list, dict)):
                for m in _mut(ch):
                    out.append(node[:i] + [m] + node[i + 1:])
            else:
                nv = _vary(ch)
                if nv is not None and not isinstance(ch, str):
                    out.append(node[:i] + [nv] + node[i + 1:])
        return out

    def sub(i, nv):
        out.append(node[:i] + [nv] + node[i + 1:])

    def rec(*idx):
        for i in idx:
            if i < len(node):
                if isinstance(node[i], (list, dict)):
                    for m in _mut(node[i]):
                        sub(i, m)
                elif not isinstance(node[i], str) or t in ("op", "between"):
                    nv = _vary(node[i])
                    if nv is not None:
                        sub(i, nv)
    if t in ("c", "attr") and len(node) < 3:
        pass
    elif t in ("c", "attr"):
        if node[2] in _SIB:
            sub(2, _SIB[node[2]])
        if t == "c" and node[1] in ("a", "b") and node[2] in ("id", "x", "s"):
            sub(1, "b" if node[1] == "a" else "a")
    elif t in ("lit", "litx"):
        nv = _vary(node[1]) if not isinstance(node[1], list) else None
        if nv is not None:
            sub(1, nv)
        if t == "lit" and len(node) == 2 and isinstance(node[1], int) and not isinstance(node[1], bool):
            out.append(["lit", node[1], ["String"]])
            out.append(["litx", node[1]])
        if len(node) > 2:
            for tv in _type_variants(node[2]):
                sub(2, tv)
    elif t in ("litc", "col", "text", "name"):
        sub(1, node[1] + "v")
    elif t == "textb":
        sub(1, node[1] + " ")
        for kk, vv in node[2].items():
            sub(2, dict(node[2], **{kk: _vary(vv)}))
    elif t == "bp":
        sub(1, node[1] + "_v")
        if len(node) > 2 and node[2] != "__required__" and not isinstance(node[2], list):
            sub(2, _vary(node[2]))
        o = node[3] if len(node) > 3 else {}
        if len(node) > 2:
            for flag in ("unique", "literal_execute"):
                out.append(node[:3] + [dict(o, **{flag: not o.get(flag, False)})])
            if "type" in o:
                for tv in _type_variants(o["type"]):
                    out.append(node[:3] + [dict(o, type=tv)])
            else:
                out.append(node[:3] + [dict(o, type=["String"])])
    elif t in ("op",):
        if node[1] in _SIB:
            sub(1, _SIB[node[1]])
        rec(2, 3)
    elif t == "un":
        if node[1] in _SIB:
            sub(1, _SIB[node[1]])
        rec(2)
    elif t in ("and", "or"):
        out.append([_SIB[t], node[1]])
        if node[1]:
            out.append([t, node[1] + [node[1][-1]]])
        rec(1)
    elif t in ("in", "not_in"):
        sub(0, _SIB[t])
        sub(2, list(node[2]) + [9])
        if node[2]:
            sub(2, list(node[2][:-1]))
        rec(1, 2)
    elif t == "in_bp":
        sub(2, node[2] + "_v")
        sub(3, list(node[3]) + [9])
        if node[3]:
            sub(3, [node[3][0] + 1] + list(node[3][1:]))
        rec(1)
    elif t in ("in_sub",):
        rec(1, 2)
    elif t == "tuple_in":
        sub(2, list(node[2]) + [[7, 8]])
        rec(1)
    elif t == "tuple":
        rec(1)
    elif t == "between":
        rec(1, 2, 3)
        o = node[4] if len(node) > 4 else {}
        out.append(node[:4] + [dict(o, symmetric=not o.get("symmetric", False))])
    elif t == "fn":
        sub(1, _SIB.get(node[1], node[1] + "_v"))
        if node[2]:
            sub(2, list(node[2]) + [1])
        rec(2)
    elif t == "case":
        if len(node) > 2:
            sub(2, None if node[2] is not None else 0)
        out.append([t, node[1] + [node[1][-1]]] + node[2:])
        for i, (c_, v) in enumerate(node[1]):
            for m in (_mut(c_) if isinstance(c_, list) else []):
                sub(1, node[1][:i] + [[m, v]] + node[1][i + 1:])
            for m in (_mut(v) if isinstance(v, list) else [_vary(v)]):
                if m is not None:
                    sub(1, node[1][:i] + [[c_, m]] + node[1][i + 1:])
        rec(2)
    elif t == "case_value":
        sub(2, list(node[2]) + [[9, "nine"]])
        sub(3, _vary(node[3]) if node[3] is not None else "e")
        rec(1)
    elif t in ("cast", "tc", "try_cast"):
        sub(0, _SIB[t])
        for tv in _type_variants(node[2]):
            sub(2, tv)
        rec(1)
    elif t == "label":
        sub(2, node[2] + "v")
        out.append(node[1])
        rec(1)
    elif t == "over":
        o = node[2]
        for fr in ("rows", "range_", "groups"):
            if fr in o:
                v = o[fr]
                sub(2, dict(o, **{fr: [v[0], (v[1] or 0) + 1]}))
                sub(2, dict(o, **{fr: [None if v[0] is not None else -1, v[1]]}))
                other = "range_" if fr == "rows" else "rows"
                sub(2, dict({kk: vv for kk, vv in o.items() if kk != fr}, **{other: v}))
        if "rows" not in o and "range_" not in o and "groups" not in o:
            sub(2, dict(o, rows=[None, 0]))
        for kk in ("partition_by", "order_by"):
            if o.get(kk):
                sub(2, {k2: v2 for k2, v2 in o.items() if k2 != kk})
                for m in _mut(o[kk]):
                    sub(2, dict(o, **{kk: m}))
        rec(1)
    elif t in ("filter",):
        rec(1, 2)
    elif t == "within_group":
        rec(1, 2)
    elif t in ("ssq", "exists", "exists_where", "any", "all"):
        if t in ("any", "all"):
            sub(0, _SIB[t])
        rec(1)
    elif t == "ssq_corr":
        rec(1)
    elif t == "extract":
        sub(1, _SIB.get(node[1], "day"))
        rec(2)
    elif t == "collate":
        sub(2, node[2] + "v")
        rec(1)
    elif t == "idx":
        sub(2, _vary(node[2]))
        rec(1)
    elif t == "json_path":
        sub(2, list(node[2]) + ["z"])
    elif t == "as_":
        sub(2, "string" if node[2] != "string" else "integer")
        rec(1)
    elif t in ("excluded", "inserted"):
        sub(1, _SIB.get(node[1], "id"))
    elif t in ("rel_any", "rel_has"):
        rec(3)
    elif t == "agg_order_by":
        rec(1, 2)
    elif t in ("subq", "cte", "lateral"):
        sub(2, node[2] + "v") if False else None       # renaming would orphan column references; only the body varies
        if t == "cte":
            o = node[3] if len(node) > 3 else {}
            out.append(node[:3] + [dict(o, nesting=not o.get("nesting", False))])
        rec(1)
    elif t == "aliased_subq":
        rec(2)
    elif t == "rcte":
        sub(2, node[2] + 1)
        sub(3, not node[3])
    elif t == "values":
        sub(3, list(node[3]) + [node[3][-1]])
        sub(3, [[_vary(x) for x in node[3][0]]] + list(node[3][1:]))
        out.append(node[:4] + [not (node[4] if len(node) > 4 else False)])
    elif t == "tablesample":
        rec(3, 4)
    elif t == "textcols":
        sub(1, node[1] + " ")
    elif t == "join":
        o = node[4] if len(node) > 4 else {}
        out.append(node[:4] + [dict(o, isouter=not o.get("isouter", False))])
        rec(1, 2, 3)
    elif t == "fn_table":
        rec(2)
    elif t in ("selectinload", "joinedload", "subqueryload"):
        sub(0, _SIB[t])
    elif t == "loader_criteria":
        sub(3, node[3] + 1)
    elif t == "load_only":
        sub(2, list(node[2]) + ["s"] if "s" not in node[2] else ["id"])
    elif t == "defer":
        sub(2, "x" if node[2] != "x" else "s")
    return out


def variants(desc, w=None, limit=None):
    """[(variant descriptor)] — all buildable single-site mutations of `desc`, de-duplicated, != desc"""
    base = dj(desc)
    seen, out = {base}, []
    for m in _mut(desc):
        j = dj(m)
        if j in seen:
            continue
        seen.add(j)
        s, e = try_build(m, w)
        if e is None:
            out.append(m)
            if limit and len(out) >= limit:
                break
    return out


# ------------------------------------------------------------------------------------------------ compositions (C22)
def compositions(a):
    """statement A used as subquery / CTE / lateral / EXISTS / IN / scalar subquery / compound member /
    INSERT..FROM SELECT source / (DML with RETURNING) data-modifying CTE of another statement"""
    k = a.get("k")
    out = []
    if k in ("select", "union", "union_all", "intersect", "except", "intersect_all", "except_all"):
        ncols = len(a["cols"]) if k == "select" else None
        out += [
            ("subq", {"k": "select", "cols": [["tbl", "sq"]], "from": [["subq", a, "sq"]]}),
            ("cte", {"k": "select", "cols": [["tbl", "w"]], "from": [["cte", a, "w"]], "limit": 2}),
            ("cte_in_dml", {"k": "update", "t": "b", "values": {"x": 1}, "where": [["exists", {"k": "select", "cols": [["tbl", "w"]], "from": [["cte", a, "w"]]}]]}),
            ("lateral", {"k": "select", "cols": [BID, ["tbl", "l"]], "from": ["b", ["lateral", a, "l"]]}),
            ("exists", {"k": "select", "cols": [BID], "where": [["exists", a]]}),
            ("in_sub", {"k": "delete", "t": "b", "where": [["in_sub", BID, a]]}),
            ("ssq", {"k": "select", "cols": [BID, ["label", ["ssq", a], "v"]]}),
            ("ssq_set", {"k": "update", "t": "b", "values": {"x": ["ssq", a]}, "returning": [BX]}),
            ("union", {"k": "union_all", "selects": [a, a], "limit": 3}),
            ("ins_from", {"k": "insert", "t": "b", "from_select": [["id", "x"][:ncols] if ncols in (1, 2) else ["id"], a]}),
            ("upsert_from", {"k": "insert", "t": "b", "fam": "pg", "from_select": [["id", "x"][:ncols] if ncols in (1, 2) else ["id"], a],
                             "on_conflict": {"do": "update", "index_elements": [BID], "set": {"x": ["excluded", "x"]}}}),
            ("orm_alias", {"k": "select", "cols": [["ent", "ab"]], "from": [["aliased_subq", "B", a, "ab"]]}),
        ]
    elif k in ("insert", "update", "delete") and a.get("returning"):
        out += [("dml_cte", {"k": "select", "cols": [["tbl", "w"]], "from": [["cte", a, "w"]]}),
                ("dml_cte_ins", {"k": "insert", "t": "b", "from_select": [["id"], {"k": "select", "cols": [["litc", "1"]], "from": [["cte", a, "w"]]}]})]
    elif k in ("insert", "update", "delete"):
        out += [("add_cte", dict(a, add_cte=[["cte", SEL0, "zz"]]))]
    return out


# ------------------------------------------------------------------------------------------------ dialect catalogue, sharding
def _mk(modname, attrs=None, **kw):
    def f():
        import importlib
        d = importlib.import_module("sqlalchemy.dialects." + modname).dialect(**kw)
        for k, v in (attrs or {}).items():
            setattr(d, k, v)
        return d
    return f


def _default(**kw):
    def f():
        from sqlalchemy.engine import default
        return default.DefaultDialect(**kw)
    return f


DIALECTS = {
    # the six families (C02, C03, C16)
    "default": _default(), "sqlite": _mk("sqlite"), "postgresql": _mk("postgresql"), "mysql": _mk("mysql"), "mssql": _mk("mssql"), "oracle": _mk("oracle"),
    # driver / server-version / paramstyle variants (C22, C04)
    "mariadb": _mk("mysql", is_mariadb=True), "postgresql+asyncpg": _mk("postgresql.asyncpg"), "sqlite+numeric": _mk("sqlite", paramstyle="numeric"),
    "postgresql+psycopg": _mk("postgresql.psycopg"), "postgresql+pg8000": _mk("postgresql.pg8000"), "mysql+old": _mk("mysql", attrs={"server_version_info": (5, 5, 0)}),
    "mariadb+new": _mk("mysql", attrs={"server_version_info": (10, 6, 0)}, is_mariadb=True), "mssql+2008": _mk("mssql", attrs={"server_version_info": (10,)}),
    "mssql+legacy_schema": _mk("mssql", legacy_schema_aliasing=True), "oracle+11": _mk("oracle", attrs={"server_version_info": (11, 2)}),
    "oracle+noansi": _mk("oracle", use_ansi=False), "oracle+oracledb": _mk("oracle.oracledb"), "sqlite+qmark_old": _mk("sqlite", attrs={"server_version_info": (3, 8, 0)}),
    "default+qmark": _default(paramstyle="qmark"), "default+format": _default(paramstyle="format"), "default+numeric": _default(paramstyle="numeric"),
    "default+numeric_dollar": _default(paramstyle="numeric_dollar"), "default+pyformat": _default(paramstyle="pyformat"), "default+named": _default(paramstyle="named"),
    "default+label12": _default(label_length=12), "postgresql+label10": _mk("postgresql", label_length=10),
}
SIX = ("default", "sqlite", "postgresql", "mysql", "mssql", "oracle")
_DCACHE = {}


def get_dialect(name, fresh=False):
    """dialect object by catalogue name; also '<family>+<paramstyle>' for any family x paramstyle"""
    if fresh or name not in _DCACHE:
        if name in DIALECTS:
            d = DIALECTS[name]()
        else:
            fam, ps = name.split("+", 1)
            d = (_default(paramstyle=ps) if fam == "default" else _mk(fam, paramstyle=ps))()
        if fresh:
            return d
        _DCACHE[name] = d
    return _DCACHE[name]


def raising_function(e):
    """name of the innermost sqlalchemy function on the traceback of `e` (identifies a failure class)"""
    tb = e.__traceback__
    name = "?"
    while tb is not None:
        fn = tb.tb_frame.f_code.co_filename
        if "sqlalchemy" in fn:
            name = tb.tb_frame.f_code.co_name
        tb = tb.tb_next
    return name


def shard_run(worker, nshards, args, procs=None):
    """run worker(shard, nshards, *args) for every shard in forked processes; returns the list of results"""
    import multiprocessing as mp
    import os
    procs = procs or min(16, os.cpu_count() or 4)
    if procs <= 1 or nshards <= 1:
        return [worker(i, nshards, *args) for i in range(nshards)]
    ctx = mp.get_context("fork")
    with ctx.Pool(procs) as pool:
        res = [pool.apply_async(worker, (i, nshards) + tuple(args)) for i in range(nshards)]
        return [r.get() for r in res]


def report(run, failures, function_key="function", max_new=8):
    """failures: list of dicts with keys function, input (JSON-able), + anything replay needs.  Known findings are
    reported as such, every other failure class (function) as a violation (at most `max_new` replay files per class are
    NOT written: one per class, smallest input first)."""
    import hashlib
    by_cls = {}
    for f in failures:
        by_cls.setdefault(f[function_key], []).append(f)
    new_classes = 0
    summary = []
    known_hits = {}
    for cls in sorted(by_cls):
        keyed = sorted(((dj(f["input"]), i) for i, f in enumerate(by_cls[cls])), key=lambda t: (len(t[0]), t[0], t[1]))   # JSON computed once per failure
        fl = [by_cls[cls][i] for _, i in keyed]
        unknown = []
        nk = 0
        for f, (fj, _) in zip(fl, keyed):
            k = run.match_known(function=f["function"], input=fj)
            if k is not None:
                nk += 1
                h = known_hits.setdefault(k["what"], [k, 0, fj])
                h[1] += 1
            else:
                unknown.append(f)
        summary.append(dict(failure_class=cls, cases=len(fl), known=nk, new=len(unknown)))
        if unknown and new_classes < max_new:
            new_classes += 1
            f = unknown[0]
            h = hashlib.sha1(dj(f["input"]).encode()).hexdigest()[:10]
            run.violation("%s-%s" % (cls, h), dict(f, other_cases_of_this_class=len(unknown) - 1))
    for what in sorted(known_hits):
        k, n, ex = known_hits[what]
        run.known_finding(k, "%d case(s) still fail, e.g. %s" % (n, ex[:200]))
    run.coverage["failure_classes"] = summary
    return summary


# ------------------------------------------------------------------------------------------------ execution emulation
class _FakeCursor:
    description = None
    rowcount = -1

    def close(self):
        pass


class _FakeDBAPIConnection:
    def cursor(self, *a, **kw):
        return _FakeCursor()


class _FakeConnection:
    """what DefaultExecutionContext._init_compiled / _init_ddl read from a Connection"""

    def __init__(self, dialect, execution_options=None):
        from sqlalchemy.util import immutabledict
        self.dialect = dialect
        self._execution_options = immutabledict(execution_options or {})
        self.engine = self
        self.closed = False

    def _is_server_side(self):
        return False


def dbapi_call(dialect, compiled, stmt=None, params=None, ext=None, pd=None, hit=None, execution_options=None):
    """(statement, parameters) exactly as the real DefaultExecutionContext._init_compiled assembles them for
    cursor.execute — construct_params(extracted_parameters=...), post-compile expansion, schema translation,
    positional assembly, bind processors — on an unconnected dialect with a stub connection."""
    from sqlalchemy.util import immutabledict
    from sqlalchemy.engine.interfaces import CacheStats
    conn = _FakeConnection(dialect, execution_options)
    ctx = dialect.execution_ctx_cls._init_compiled(
        dialect, conn, _FakeDBAPIConnection(), immutabledict(execution_options or {}), compiled, [params] if params else [], stmt, ext,
        cache_hit=hit if hit is not None else CacheStats.CACHING_DISABLED, param_dict=pd)
    p = ctx.parameters
    return ctx.statement, (p[0] if len(p) == 1 else p)


def ddl_call(dialect, compiled_ddl, execution_options=None):
    """the statement string the real DefaultExecutionContext._init_ddl hands to cursor.execute (schema translation applied)"""
    from sqlalchemy.util import immutabledict
    conn = _FakeConnection(dialect, execution_options)
    ctx = dialect.execution_ctx_cls._init_ddl(dialect, conn, _FakeDBAPIConnection(), immutabledict(execution_options or {}), compiled_ddl)
    return ctx.statement
