"""Fake DBAPI + ghost ledger shared by the class-B checks C24-bounded, C25-bounded, C26-bounded and C27 (DESIGN §5.0).

What is here is *only* a driver stand-in and a ledger; it contains no model of SQLAlchemy.  The checks drive the real
``sqlalchemy.pool`` / ``sqlalchemy.engine`` classes on top of it and read the ledger to evaluate their contract clauses.

* ``FakeDBAPI(ledger)``      a PEP-249 module object: ``connect``, ``Error`` hierarchy, ``paramstyle`` ...
* ``FakeConnection`` / ``FakeCursor``  ``cursor / execute / commit / rollback / close / ping / set_isolation``
* ``Ledger``                 every DBAPI connection ever opened (open / closed, ``txn_open``, isolation, autocommit,
                             ``opened_at``), a per-kind and a global call counter, the *fault plan* and the faults that fired
* ``Clock``                  virtual, strictly increasing clock; ``install_clock()`` patches it into ``sqlalchemy.pool.base.time``
* fault plan                 ``ledger.plan[(kind, n)] = "error" | "disconnect" | "plain" | "base"``: raise at the n-th call of ``kind``
                             ("plain": an Exception that is no DBAPI Error; "base": a BaseException that is no Exception)
                             (``kind == "*"``: at the n-th faultable DBAPI call of any kind).  The call has NO effect when it
                             raises, except ``close`` which the ledger counts as closed as soon as it is attempted (the pool
                             discards the connection whether or not close() succeeded, as ``Connection.invalidate`` documents).
* ``FakeDialect``            a minimal ``DefaultDialect``: ``is_disconnect`` is true exactly for exceptions carrying the marker
                             ``verif_disconnect``; isolation level / autocommit are forwarded to the fake connection.

Driver contract assumed by the ghost (DESIGN C24 K): ``execute`` opens a transaction unless the connection is in autocommit,
``commit`` / ``rollback`` end it or raise leaving it as it was.  Time: every reading of the clock is strictly later than the
previous one ("measurable time passes between state changes" — the assumption pool/base.py states in get_connection()).
"""
import collections
import contextlib
import logging
import time as _real_time
import warnings

from sqlalchemy.engine import default

DEFAULT_ISOLATION = "READ COMMITTED"
ISOLATION_LEVELS = ("READ COMMITTED", "REPEATABLE READ", "SERIALIZABLE", "AUTOCOMMIT")
FAULT_KINDS = ("connect", "cursor", "execute", "commit", "rollback", "close", "ping", "set_isolation")


# --------------------------------------------------------------------------------------------- PEP 249 error hierarchy
class Error(Exception):
    verif_disconnect = False


class InterfaceError(Error):
    pass


class DatabaseError(Error):
    pass


class OperationalError(DatabaseError):
    pass


class ProgrammingError(DatabaseError):
    pass


class IntegrityError(DatabaseError):
    pass


class DataError(DatabaseError):
    pass


class InternalError(DatabaseError):
    pass


class NotSupportedError(DatabaseError):
    pass


class DisconnectError(OperationalError):
    """the *marked* exception: FakeDialect.is_disconnect() is true for it"""
    verif_disconnect = True


class PlainFault(Exception):
    """a fault that is not a DBAPI Error at all (never classified, never wrapped as a DBAPIError by the pool)"""


class BaseFault(BaseException):
    """a fault that is not even an ``Exception`` (stands for KeyboardInterrupt / asyncio.CancelledError / GreenletExit / a gevent
    Timeout arriving while the driver call is in progress); ``except Exception`` does not see it"""


_EXC = {"error": OperationalError, "disconnect": DisconnectError, "plain": PlainFault, "base": BaseFault}


# --------------------------------------------------------------------------------------------------------------- clock
class Clock:
    """virtual clock: strictly increasing; ``advance`` jumps (used to pass ``recycle``)"""

    def __init__(self, start=1000.0, step=1.0):
        self.now = start
        self.step = step

    def time(self):
        self.now += self.step
        return self.now

    def advance(self, dt):
        self.now += dt


class _TimeShim:
    """stands in for the ``time`` module inside sqlalchemy.pool.base; ``time()`` reads the current virtual clock"""
    clock = None

    def time(self):
        c = _TimeShim.clock
        return c.time() if c is not None else _real_time.time()

    def __getattr__(self, name):
        return getattr(_real_time, name)


_shim = _TimeShim()


def install_clock(clock):
    """patch ``sqlalchemy.pool.base.time`` (idempotent) and make ``clock`` the current virtual clock (None: real time)"""
    import sqlalchemy.pool.base as pb
    if pb.time is not _shim:
        pb.time = _shim
    _TimeShim.clock = clock


def uninstall_clock():
    import sqlalchemy.pool.base as pb
    _TimeShim.clock = None
    if pb.time is _shim:
        pb.time = _real_time


@contextlib.contextmanager
def patched_clock(clock):
    install_clock(clock)
    try:
        yield clock
    finally:
        uninstall_clock()


def quiet():
    """SQLAlchemy logs swallowed close()/reset errors at ERROR level and warns on double check-in: keep stderr clean"""
    lg = logging.getLogger("sqlalchemy")
    if not any(isinstance(h, logging.NullHandler) for h in lg.handlers):
        lg.addHandler(logging.NullHandler())
    warnings.simplefilter("ignore")


# -------------------------------------------------------------------------------------------------------------- ledger
class Ledger:
    def __init__(self, clock=None, trace=False):
        self.clock = clock if clock is not None else Clock()
        self.conns = []                          # every FakeConnection ever opened, in order
        self.calls = collections.Counter()       # per kind
        self.total = 0                           # faultable calls of any kind
        self.plan = {}                           # (kind | "*", n) -> "error" | "disconnect" | "plain"
        self.fired = []                          # dicts: kind, n, total, exc, conn, at
        self.use_after_close = []                # (kind, conn id): a call reached a connection the ledger has as closed
        self.trace = [] if trace else None

    # -- views
    @property
    def open(self):
        return [c for c in self.conns if not c.closed]

    @property
    def closed(self):
        return [c for c in self.conns if c.closed]

    def stamp(self):
        return self.clock.time()

    # -- the one entry point of every faultable DBAPI call
    def call(self, kind, conn=None):
        self.calls[kind] += 1
        self.total += 1
        at = self.clock.time()
        if self.trace is not None:
            self.trace.append((self.total, kind, conn.id if conn is not None else None))
        spec = self.plan.get((kind, self.calls[kind])) or self.plan.get(("*", self.total))
        if spec:
            self.fired.append(dict(kind=kind, n=self.calls[kind], total=self.total, exc=spec,
                                   conn=conn.id if conn is not None else None, at=at))
            raise _EXC[spec](f"injected {spec} at {kind}#{self.calls[kind]} (call {self.total})")
        return at


class FakeCursor:
    arraysize = 1

    def __init__(self, conn):
        self.conn = conn
        self.description = None
        self.rowcount = -1
        self.lastrowid = None
        self._rows = []
        self.closed = False

    def execute(self, statement, parameters=None):
        c = self.conn
        c._usable("execute")
        c.ledger.call("execute", c)
        s = str(statement).strip()
        up = s.upper()
        c.statements.append(s)
        if up.startswith("RAISE"):              # a statement the "server" rejects (non-disconnect); txn stays as it is
            raise ProgrammingError("statement rejected: " + s)
        if not c.autocommit:
            c.txn_open = True
        if up.startswith("SAVEPOINT "):
            c.savepoints.append(s.split()[1])
        elif up.startswith("RELEASE SAVEPOINT "):
            name = s.split()[2]
            if name not in c.savepoints:
                raise OperationalError("no such savepoint: " + name)
            del c.savepoints[c.savepoints.index(name):]
        elif up.startswith("ROLLBACK TO SAVEPOINT "):
            name = s.split()[3]
            if name not in c.savepoints:
                raise OperationalError("no such savepoint: " + name)
            del c.savepoints[c.savepoints.index(name) + 1:]
        if up.startswith("SELECT"):
            self.description = (("1", None, None, None, None, None, None),)
            self._rows = [(1,)]
            self.rowcount = -1
        else:
            self.description = None
            self._rows = []
            self.rowcount = 1
        return self

    def executemany(self, statement, seq):
        for p in seq:
            self.execute(statement, p)

    def fetchone(self):
        return self._rows.pop(0) if self._rows else None

    def fetchmany(self, size=None):
        n = size or self.arraysize
        out, self._rows = self._rows[:n], self._rows[n:]
        return out

    def fetchall(self):
        out, self._rows = self._rows, []
        return out

    def close(self):
        self.closed = True

    def setinputsizes(self, *a):
        pass

    def setoutputsize(self, *a):
        pass


class FakeConnection:
    def __init__(self, ledger):
        ledger.call("connect")                   # raises before anything exists: the ledger is unchanged by a failed connect
        self.ledger = ledger
        self.id = len(ledger.conns) + 1
        self.closed = False
        self.close_attempts = 0
        self.txn_open = False
        self.isolation = DEFAULT_ISOLATION
        self.autocommit = False
        self.readonly = False                    # a second session-level setting (cf. PostgreSQL READ ONLY), see FakeDialectRO
        self.savepoints = []
        self.statements = []
        self.opened_at = ledger.clock.time()
        self.closed_at = None
        ledger.conns.append(self)

    def _usable(self, kind):
        if self.closed:
            self.ledger.use_after_close.append((kind, self.id))
            raise ProgrammingError(f"{kind} on closed connection C{self.id}")

    def cursor(self):
        self._usable("cursor")
        self.ledger.call("cursor", self)
        return FakeCursor(self)

    def commit(self):
        self._usable("commit")
        self.ledger.call("commit", self)
        self.txn_open = False
        self.savepoints = []

    def rollback(self):
        self._usable("rollback")
        self.ledger.call("rollback", self)
        self.txn_open = False
        self.savepoints = []

    def close(self):
        self.close_attempts += 1
        if not self.closed:
            self.closed = True
            self.closed_at = self.ledger.clock.time()
            self.txn_open = False
        self.ledger.call("close", self)

    def ping(self):
        self._usable("ping")
        self.ledger.call("ping", self)

    def set_isolation(self, level):
        self._usable("set_isolation")
        self.ledger.call("set_isolation", self)
        if level == "AUTOCOMMIT":
            self.autocommit = True
        else:
            self.autocommit = False
            self.isolation = level

    def set_readonly(self, value):
        self._usable("set_readonly")
        self.ledger.call("set_readonly", self)
        self.readonly = bool(value)

    def __repr__(self):
        return f"C{self.id}"


class FakeDBAPI:
    """the 'module'"""
    apilevel = "2.0"
    threadsafety = 1
    paramstyle = "qmark"
    sqlite_version_info = (3, 40, 0)
    Error = Error
    InterfaceError = InterfaceError
    DatabaseError = DatabaseError
    OperationalError = OperationalError
    ProgrammingError = ProgrammingError
    IntegrityError = IntegrityError
    DataError = DataError
    InternalError = InternalError
    NotSupportedError = NotSupportedError
    DisconnectError = DisconnectError

    def __init__(self, ledger):
        self.ledger = ledger

    def connect(self, *a, **kw):
        return FakeConnection(self.ledger)


# ------------------------------------------------------------------------------------------------------------- dialect
class FakeDialect(default.DefaultDialect):
    name = "fakeverif"
    driver = "fake"
    supports_statement_cache = True
    default_paramstyle = "qmark"
    supports_sane_rowcount = True
    supports_native_boolean = True

    @classmethod
    def import_dbapi(cls):
        return FakeDBAPI(Ledger())

    def is_disconnect(self, e, connection, cursor):
        return bool(getattr(e, "verif_disconnect", False))

    def do_ping(self, dbapi_connection):
        dbapi_connection.ping()
        return True

    def _get_server_version_info(self, connection):
        return (1, 0)

    def _get_default_schema_name(self, connection):
        return None

    def get_default_isolation_level(self, dbapi_conn):
        return DEFAULT_ISOLATION

    def get_isolation_level_values(self, dbapi_conn):
        return list(ISOLATION_LEVELS)

    def set_isolation_level(self, dbapi_connection, level):
        dbapi_connection.set_isolation(level)

    def get_isolation_level(self, dbapi_connection):
        return dbapi_connection.isolation

    def detect_autocommit_setting(self, dbapi_conn):
        return dbapi_conn.autocommit


class _FakeReadOnlyCharacteristic(default.characteristics.ConnectionCharacteristic):
    """a dialect-specific connection characteristic (execution option ``fakeverif_readonly``), shaped like
    postgresql_readonly: forwarded to the driver connection, reset to False when the connection returns to the pool"""
    transactional = True

    def reset_characteristic(self, dialect, dbapi_conn):
        dbapi_conn.set_readonly(False)

    def set_characteristic(self, dialect, dbapi_conn, value):
        dbapi_conn.set_readonly(value)

    def get_characteristic(self, dialect, dbapi_conn):
        return dbapi_conn.readonly


class FakeDialectRO(FakeDialect):
    """FakeDialect + one dialect-specific connection characteristic besides the two of DefaultDialect
    (isolation_level, logging_token); used by checks/C24_bounded.py scope (2)"""
    supports_statement_cache = True
    connection_characteristics = FakeDialect.connection_characteristics.union(
        {"fakeverif_readonly": _FakeReadOnlyCharacteristic()})


def _register():
    from sqlalchemy.dialects import registry
    registry.register("fakeverif", "rtc.fakedbapi", "FakeDialect")
    registry.register("fakeverifro", "rtc.fakedbapi", "FakeDialectRO")


def make_engine(ledger, **kw):
    """a real Engine (create_engine) over the fake driver; kw: poolclass, pool_size, max_overflow, pool_pre_ping, ..."""
    from sqlalchemy import create_engine
    _register()
    return create_engine("fakeverif://", module=FakeDBAPI(ledger), **kw)


def make_engine_ro(ledger, **kw):
    """like make_engine, with FakeDialectRO (accepts the execution option ``fakeverif_readonly``)"""
    from sqlalchemy import create_engine
    _register()
    return create_engine("fakeverifro://", module=FakeDBAPI(ledger), **kw)


def make_pool(ledger, poolclass, **kw):
    """a bare real Pool (no Engine) whose creator opens fake connections"""
    dbapi = FakeDBAPI(ledger)
    return poolclass(dbapi.connect, dialect=FakeDialect(dbapi=dbapi), **kw)


def idle_connections(pool):
    """DBAPI connections the pool keeps while nobody holds them (read without changing the pool)"""
    from sqlalchemy import pool as sapool
    out = []
    if isinstance(pool, sapool.QueuePool):
        recs = list(pool._pool.queue)
    elif isinstance(pool, sapool.StaticPool):
        recs = [pool.__dict__["connection"]] if "connection" in pool.__dict__ else []
    elif isinstance(pool, sapool.SingletonThreadPool):
        recs = list(pool._all_conns)
    else:
        recs = []
    for r in recs:
        if r.dbapi_connection is not None:
            out.append(r.dbapi_connection)
    return out
